#!/bin/bash
# Build the verification harness from files on disk only (offline).
set -eu
HERE="$(cd "$(dirname "$0")" && pwd)"
export CARGO_NET_OFFLINE=true
cd "$HERE/harness"
cargo build --release --offline
mkdir -p "$HERE/evidence" "$HERE/replays"
echo "setup ok"
