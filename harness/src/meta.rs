//! Per-property metadata; the single source for MANIFEST.json (`hpo-verif manifest`).

use serde_json::{json, Value};

pub struct Meta {
    pub id: &'static str,
    pub level: &'static str,
    pub design_ref: &'static str,
    pub technique: &'static str,
    pub text: &'static str,
    pub note: &'static str,
}

const MC: &str = "model_checking";

pub const ALL: &[Meta] = &[
    Meta { id: "C01", level: MC, design_ref: "DESIGN.md §3 C01", technique: "bounded exhaustive exploration: all labelled DAGs x all supply orders x every construction path, replayed on the real code against a closure reference model",
        text: "Every labelled DAG on <=4 (quick) / <=5-6 (thorough) nodes is supplied to the real Builder in every term order and link order, to the binary decoder (v1-v3, every record order), to both obo loaders (every stanza order, other tags between is_a lines, is_a lines with trailing modifiers) and through sub_ontology; structured large graphs (chains to 100, a deep chain of 300 with a shortcut, fans to 300 parents, ladder, total order, forked trunk; both id directions; five supply orders; isolated and linked terms flagged obsolete on the decoder paths) and a 70 000-term ontology cross the size boundaries of the implementation; the Builder is additionally driven with rejected add_parent calls (absent parent / child) before every link, and pairs of ontologies are built one after the other at the same address; ancestors, parents, children, the resolving iterators and child_of/parent_of of every term / ordered pair are compared with a naive transitive closure. A coverage statement over all shapes and orders in the bound, which the fixed 26-term example cannot give.",
        note: "Bounded: DAG sizes and order families as listed in the evidence; ids only matter through their relative order (argued in DESIGN.md §2.4); HashMap iteration order is not controlled (DESIGN.md §2.8)." },
    Meta { id: "C02", level: MC, design_ref: "DESIGN.md §3 C02", technique: "bounded exhaustive exploration of annotation fact sets and supply orders against an inheritance reference model",
        text: "For every DAG in the bound, every subset of terms annotated to a gene (with different derived patterns for a second gene, two OMIM and four ORPHA records, bare records, repeated facts, renamed records, the same numeric id in all three kinds, flagged terms), in every supply order of the gene's facts, on the Builder (also with rejected annotate_* calls after every fact), binary (v1-v3, also with every record written twice), JAX text, as_bytes round trip (same-named records) and sub_ontology paths (root / leaf handles also taken from a second instance), on structured large graphs and on sequences of ontologies built at the same address: term<->record links must equal 'annotated to the term or a descendant', records keep exactly their direct terms, every id resolves, kinds do not leak.",
        note: "Bounded sizes; record id alphabet fixed; names consistent per id." },
    Meta { id: "C03", level: MC, design_ref: "DESIGN.md §3 C03", technique: "bounded exhaustive exploration of annotation counts per kind plus full (N,n) lattice through the public InformationContent setters",
        text: "Information content of every term and kind is compared with -ln(n/N) computed from the reference model's inherited sets on every ontology of the C02 space (three different totals, each kind emptied in turn, a term linked to everything), and InformationContent::set_* is evaluated for every 0<=n<=N<=1024 (4096 thorough), at the u16 border and beyond it (refused or exact, also for 65 536 / 70 000 genes through the Builder), and for record counts sweeping across every power of two through Builder and decoder; non-negativity, finiteness and monotonicity along every edge are checked strictly.",
        note: "f32 comparison rtol 1e-5; range claims strict." },
    Meta { id: "C04", level: MC, design_ref: "DESIGN.md §3 C04", technique: "bounded exhaustive exploration: all DAGs x annotation patterns x all ordered term pairs x 8 algorithms x 3 kinds against reference formulas",
        text: "All ordered pairs of terms of every DAG (<=4 quick, 5 thorough) under 16 annotation patterns are scored with all 8 built-in similarities x 3 kinds through HpoTerm::similarity_score, Builtins (also selected by name) and the concrete structs, on overlapping record sets, on all six-term DAGs in topological numbering, also on decoded graphs whose terms are flagged obsolete / replaced, on an ontology with 30 000 genes (information contents of 3e-5), on a chain of 300 terms and on sequences of ontologies built at the same address; values are compared with formulas evaluated on the reference model, and finiteness, non-negativity, symmetry and the documented special cases are checked strictly.",
        note: "Reference formulas transcribed from the struct docs, calibrated on the two literals pinned in the crate's doc examples; f32 rtol 1e-5." },
    Meta { id: "C05", level: MC, design_ref: "DESIGN.md §3 C05", technique: "exhaustive enumeration of all small similarity matrices over a 3-letter alphabet injected through a user-defined Similarity",
        text: "Every r x c matrix (r,c <= 3 quick, <= 4 thorough) over {0, 1/4, 1, -1/2} (up to 2x2 over alphabets with +inf / -inf, up to 3x3 over {1/2, 1, 2}) is injected through a user-supplied Similarity on disjoint, interleaved, equal and overlapping id assignments and on ids that collide under key-packing schemes, each case preceded by a larger warm-up comparison on the same thread, on a decoded ontology whose sets contain obsolete / replaced terms, with the second set living on a twin Ontology instance whose terms carry other data (the similarity must be handed the sets' own terms), and for sets of up to 65 535 terms; funSimAvg/funSimMax/BMA (also selected by name) through HpoSet::similarity, GroupSimilarity::calculate and SimilarityCombiner::calculate must equal the documented combination, also for medium shapes up to 100x100 and for a user-supplied combiner, cached == uncached bit for bit (also with one cache reused for (A,B),(B,A),(A,B)), symmetric tables give order-independent results, empty sets give 0; sets reached by every sequence of <= 2 (thorough 3) set operations (extend, remove_* / without_*, replace_obsolete / with_replaced_obsolete, child_nodes) from HpoSet::new over 64 subsets and from the three to_hpo_set routes are compared after every operation.",
        note: "Dyadic entries make the reference exact up to the final division." },
    Meta { id: "C06", level: MC, design_ref: "DESIGN.md §3 C06", technique: "exhaustive sweep of all admissible (N,K,n,k) below a bound realised through real ontologies; exact big-integer hypergeometric reference",
        text: "A staircase annotation layout realises every admissible (N,K,n,k) for N <= 30 (quick; 64 thorough) for genes, OMIM and ORPHA, plus populations straddling the 170-entry factorial table, log-domain slices up to N = 2000 (3000), tails across the normal / subnormal f64 border down to underflow, a 100 000-leaf ontology (backgrounds of 4097 .. 100 000 leaves with non-trivial tails; count products beyond 32 bits), hierarchies with `&ontology` as background, spread record ids; the same sweep on a decoded ontology with obsolete / replaced leaves; background and sample are passed as exact-size iterators, filtering adapters, Vec and &HpoSet; count, p-value (exact big-integer tail), fold enrichment, one-record-per-linked-annotation, 0<=p<=1 and monotonicity in k are checked.",
        note: "p-values compared with rtol 1e-9 against exact rationals; range and monotonicity strict." },
    Meta { id: "C07", level: MC, design_ref: "DESIGN.md §3 C07", technique: "bounded exhaustive exploration of ontologies (deviation-bounded alphabets) through as_bytes/from_bytes, compared through the whole read API and compare()",
        text: "Ontologies from every constructor (Builder, independent encoder with obsolete/replaced terms, both text loaders, clone, sub_ontology, v1/v2-decoded) over 75 deviations from a base ontology (names: empty, multi-byte, 255/256 bytes, limit inside a character, 'obsolete Foo' without flag, blanks at both ends, for terms, genes, OMIM and ORPHA separately; ids; flags; versions; record shapes; same-named records; dangling replacement; term id 0; lists of up to 300 entries and sections beyond 64 KiB) taken one, two and three (thorough: four) at a time, plus all small DAG shapes, are serialised and reloaded; the reload must succeed and be observationally identical (names up to the 255-byte limit at a character boundary), compare() must be empty and a second round trip a fixed point.",
        note: "One and two deviations from a base ontology (quick), fuller products thorough." },
    Meta { id: "C08", level: "fault_enumeration", design_ref: "DESIGN.md §3 C08", technique: "independent encoder conformance over all record orders + exhaustive truncation/extension/version-byte fault enumeration on the real decoder",
        text: "Files produced by an encoder written from the documented layout (validated byte-for-byte against the shipped example files) must decode to exactly the described ontology for v1, v2, v3 in every record order and every order of the ids inside a record, including names at the size limits, large v1/v2 files and other header dates; layouts the format table leaves open (a record per link, an id twice) are refused or decode self-consistently; every proper prefix, every listed suffix and every single-byte suffix, every unsupported version byte of every such file must be rejected (Err or documented panic), never returned as an ontology.",
        note: "Encoder is trusted only after reproducing the records of tests/example*.hpo; suffix alphabet listed in the evidence." },
    Meta { id: "C09", level: MC, design_ref: "DESIGN.md §3 C09", technique: "bounded exhaustive exploration of fact sets rendered as JAX text files in all stanza/row orders with deviation-bounded distractors",
        text: "Fact sets are rendered into hp.obo, phenotype.hpoa, genes_to_phenotype.txt / phenotype_to_genes.txt in every stanza and row order with all single and pairs of 36 distractors (NOT rows, NOT-qualified twins of positive rows, comments, Typedef stanzas, DECIPHER rows, trailing/minimal columns, optional hpoa columns filled with row-dependent values or cut off after hpo_id, a file without header block in every stanza order, tags and flags between id and name, header / comment lines of up to 100 000 bytes, is_a lines with trailing modifiers, term names of up to 1000 bytes, extra tags, tags between is_a lines, explicit is_obsolete: false, ': ' in names, non-ASCII, the same numeric id as OMIM and ORPHA disease); both loaders must produce exactly the reference ontology, which must equal the Builder-built and binary-loaded one.",
        note: "Only constructs occurring in JAX releases are generated." },
    Meta { id: "C10", level: MC, design_ref: "DESIGN.md §3 C10", technique: "exhaustive sweep of the id space (all 10^7 ids, borders, strided u32) and of all short query strings against set/map reference",
        text: "For ontologies over border, block-boundary (2^k, j*2^16, j*2^20 and neighbours), dense and sparse id sets (up to 270 271 terms) and for ontologies decoded from binary v1-v3 and hp.obo in every record order, hpo(id) is evaluated for every id of the 10^7 id space plus the u32 borders and must be Some exactly for added ids with the right data (name, flags, replacement, parents), also on clones and alternating between two live ontologies; iteration agrees with len(), also for partly consumed iterators (count, size_hint, nth, skip, last); gene/disease lookups by id, symbol and every query string over a 5-letter alphabet (non-ASCII included) up to length 3 return exactly the reference result, on two ontologies with the same record ids but different symbols / names queried alternately and on the decoded form (records without terms included).",
        note: "Full 2^32 sweep only in the thorough tier." },
    Meta { id: "C11", level: MC, design_ref: "DESIGN.md §3 C11", technique: "bounded exhaustive exploration: all labelled DAGs x all ordered pairs against BFS distances",
        text: "distance_to_ancestor/path_to_ancestor/distance_to_term/path_to_term of every ordered pair of terms of every labelled DAG on <=5 (quick) / 6 (thorough) nodes are compared with BFS distances on the reference model; returned paths must be real parent/child walks of exactly the minimal length ending in the target; all six-term DAGs in topological numbering, chains of 1100 / 2100 terms and a ladder with 2^14 routes; path queries asked before and after distance queries; symmetry and absence are checked; also on decoded graphs with flagged terms, structured large graphs (a chain of 300 terms crossing every 8-bit depth counter) and sequences of ontologies built at the same address.",
        note: "Builder and binary v3 paths; bounded DAG size." },
    Meta { id: "C12", level: MC, design_ref: "DESIGN.md §3 C12", technique: "exhaustive operation-sequence exploration of HpoGroup (all insertion histories to depth 6, BFS with visited set deeper) against BTreeSet",
        text: "Every insertion sequence over a 5-id alphabet up to length 6 is executed on a live HpoGroup and compared step by step with a BTreeSet (return value, contains, len, iter order, get); all constructors on all short sequences; all 64x64 operand pairs for every operator form plus sizes across the inline limit of 30 and asymmetric operands (16..64 ids against every subset of <= 2 members / gap ids); ancestor queries on all ordered pairs of all DAGs <=4 (Builder, decoded with flags, a chain of 300, terms of two Ontology instances) against set algebra on reference closures; iterator protocol (count / size_hint / nth / skip / last after k items) on every group and term iterator.",
        note: "all_union_ancestor_ids / all_union_ancestors have self-contradictory documentation: accepted results are exactly the two readings (known finding, see known_findings.json)." },
    Meta { id: "C13", level: MC, design_ref: "DESIGN.md §3 C13", technique: "bounded exhaustive exploration: ontology family with obsolete/replaced/modifier terms x all subsets as HpoSet against set-theoretic reference",
        text: "For every ontology of a family with modifier roots, obsolete and replaced terms (incl. replacement chains and mutual replacements) and annotation patterns, every subset of its terms is wrapped in an HpoSet and child_nodes, without/remove_modifier, without/remove_obsolete, with_replaced/replace_obsolete, gene/disease id unions, categories, information_content, len/contains/iter/get are compared with the reference; all operation sequences of length <= 3 on one live set (queries interleaved with extend and the in-place filters), sets on structured large graphs, record counts that differ between the kinds in every direction, sequences of ontologies built at the same address, and custom modifier roots / categories installed through the public mutators are covered as well.",
        note: "Replacements always name existing terms." },
    Meta { id: "C14", level: MC, design_ref: "DESIGN.md §3 C14", technique: "bounded exhaustive exploration of (ontology, root, leaf multiset) triples against the shortest-chain / induced-link / phenotype-link rules",
        text: "For every source ontology of the family (also with custom modifier roots, replacements naming absent terms, and structured large graphs), every root and every non-empty leaf multiset in the bound, sub_ontology must fail exactly when a leaf is outside root's subtree, and otherwise contain root, leaves, only shortest-chain terms, induced links, copied names/flags, original leaf-root distances, exactly the records annotated to a retained non-modifier term with the retained subset of their terms, satisfy the C01-C03 oracles on its own facts and be a fixed point; names beyond 255 bytes are copied unchanged; root / leaf handles of a second instance give the same result.",
        note: "Bounded family; modifier classification taken from the source ontology." },
    Meta { id: "C15", level: MC, design_ref: "DESIGN.md §3 C15", technique: "exhaustive call-history exploration of the Builder typestates (all sequences to the depth bound) plus explicit-state search over canonical call sets with every transition replayed on the real Builder; differential oracle against the successful calls alone",
        text: "All sequences of add_parent and annotate_*/add_* calls over present and absent term ids (absent id 3, the placeholder id 0, the last id of the id table and ids beyond it) up to the bound, an explicit-state search over all sets of <= 5 distinct calls with all 21 outgoing transitions, a 66 000-term history, and all add_parent sequences <= 4 (thorough 5) on a parent with several children whose absent ids lie below / between / above the existing children, are executed on the real Builder; each call must fail exactly when it names an absent term, the built ontology must be walkable through the whole read API without panic, and must equal the ontology built from the successful calls alone; sub_ontology results (also of sources with flagged linked terms), valid decoded files (empty names in every record position) and decoded files naming absent terms (also in a second occurrence of a record id) must be referentially closed as well.",
        note: "Cyclic add_parent histories are outside the quantifier." },
    Meta { id: "C16", level: MC, design_ref: "DESIGN.md §3 C16", technique: "metamorphic bounded exhaustive exploration: all permutations of terms, links, annotations, binary records and text rows of each fact set must yield one observation",
        text: "For every fact set in the bound all linearisations (Builder call orders, binary record orders and term orders inside records, obo stanza and row orders incl. a Typedef stanza at every position and NOT-qualified twins of the positive disease rows before / after them, replacement chains, bare registration of annotated records before / after the annotations, and equal numeric ids across disease kinds, five supply orders of structured large graphs) are executed; the set of distinct whole-API observations must have exactly one element, equal to the reference.",
        note: "Iteration order of terms/genes/diseases is excluded by sorting the observation." },
    Meta { id: "C17", level: MC, design_ref: "DESIGN.md §3 C17", technique: "exhaustive enumeration of all rank orders of pairwise distances (n<=5), of all merge histories (n=6,7,8) and of structured value/input families against a naive agglomerative reference",
        text: "For every rank order of the pairwise distances of n<=5 sets, every merge history for n = 6, 7 (8 thorough), infinite, extreme, mixed-sign and all-negative distances, tiny (2^-100), subnormal and huge magnitudes, deliberately equal non-minimal distances, related, empty, overlapping, nested and equal input sets, handed in through Vec / filter / flatten / from_fn / chain (all four linkage methods) the dendrogram must have n-1 merges forming a binary tree, sizes adding up, indices a permutation, each merge the closest pair at the reported distance, distances to new clusters following the method's rule (for union: the callback applied to exactly the union, every set handed to the callback well formed), all views of the result (rev, len after k items, nth, &linkage, owned iterators) agreeing, and the distance callback asked for each unordered pair exactly once initially.",
        note: "Ties are counted and excluded from exact comparison, as the property states." },
    Meta { id: "C18", level: MC, design_ref: "DESIGN.md §3 C18", technique: "bounded exhaustive edit-history exploration (all edit sequences of length <=2 from several bases) against a fact-set diff",
        text: "From several base ontologies (also with one numeric id in several kinds and with lists of 31..40 entries) every applicable single edit and every pair (thorough: triple) of edits (five kinds of rename, parent add/remove, obsolete flip, replacement set/clear/change, term add/remove, record rename, annotation add/remove, record add/remove) is applied; compare() on decoder-built (ascending and descending lists inside the file), Builder-built and 66 000-term pairs must report exactly the fact-set diff, be empty for self and for the binary round trip of every reached ontology (records sharing a name included), and mirror when the arguments are swapped.",
        note: "Replacement targets exist in both ontologies." },
    Meta { id: "C19", level: MC, design_ref: "DESIGN.md §3 C19", technique: "bounded exhaustive exploration: all labelled DAGs over {1,118}+k terms (also with a root removed) against the documented default rules",
        text: "For every labelled DAG over HP:1, HP:118 and up to 3 (4 thorough) further terms (ids below, between and above 118; non-root terms flagged obsolete / replaced in turn), also with either root missing, via Builder::build_with_defaults, from_bytes and from_standard: build fails exactly when a root is missing; modifier roots, categories, is_modifier and per-term categories (ascending) equal the documented rules, also for structured large graphs supplied leaf-first, for every sequence of <= 3 calls of the public setters / list mutators on an ontology built without defaults, and for ontologies built one after the other at the same address.",
        note: "Bounded term count." },
    Meta { id: "C20", level: MC, design_ref: "DESIGN.md §3 C20", technique: "exhaustive sweep of all 10^7 ids and of all strings up to length 6 over a 12-symbol alphabet (ASCII and 2/3/4-byte UTF-8)",
        text: "Every id of the id space and the u32 borders is rendered, parsed back and round-tripped through bytes; every string up to length 6 (7 thorough) over an alphabet that puts a character boundary, and the absence of one, at every offset around byte 3, and digit runs of length 1..10 with one or two positions replaced by every ASCII byte / multi-byte characters incl. Unicode numerals, are parsed under catch_unwind and compared with the reference parser; id == text and From<String> agree with try_from, the other integer conversions with from_u32, and the order of ids is the order of their numbers.",
        note: "Inputs with a '+' sign after the prefix are don't-care (u32::from_str accepts them)." },
];

pub fn find(id: &str) -> Option<&'static Meta> {
    ALL.iter().find(|m| m.id == id)
}

pub fn manifest() -> Value {
    let checks: Vec<Value> = ALL
        .iter()
        .filter(|m| crate::props::implemented(m.id))
        .map(|m| {
            json!({
                "property_id": m.id,
                "quick_cmd": format!("./check {} --tier quick", m.id),
                "thorough_cmd": format!("./check {} --tier thorough", m.id),
                "evidence_file": format!("/verif/evidence/{}.json", m.id),
                "replay_cmd_template": format!("./check {} --replay {{path}}", m.id),
                "engine": "hpo-verif",
                "level_claimed": {"category": m.level, "text": m.text, "design_ref": m.design_ref},
                "level_note": m.note,
                "technique": m.technique,
            })
        })
        .collect();
    let na: Vec<Value> = ALL
        .iter()
        .filter(|m| !crate::props::implemented(m.id))
        .map(|m| json!({"property_id": m.id, "reason": "check not built yet in this revision of /verif (in scope of the technique; see DESIGN.md)"}))
        .collect();
    json!({
        "version": 1,
        "setup_cmd": "./setup.sh",
        "hooks": {
            "guard": "hpo_verif",
            "enable": "none needed: every observation point is public API; the harness depends on /repo by path and rebuilds it on every check (reserved cfg: RUSTFLAGS=\"--cfg hpo_verif\")",
            "baseline_off_cmd": "cd /repo && cargo test --workspace --no-fail-fast --offline",
            "source_commits": [],
            "add_only": true
        },
        "engines": [{
            "name": "hpo-verif",
            "path": "/verif/harness",
            "serves_properties": ALL.iter().filter(|m| crate::props::implemented(m.id)).map(|m| m.id).collect::<Vec<_>>(),
            "kind_free_text": "hand-rolled stateless bounded-exhaustive explorer (Rust): deterministic index-addressable enumerators, reference model, drivers for every construction path of the real crate, process-sharded supervisor with isolated re-execution of every violation"
        }],
        "checks": checks,
        "not_applicable": na,
        "notes": "All checks rebuild the harness (and thereby hpo) from /repo's working tree via ./check. exit 0 = held (KNOWN-FINDING lines possible), 1 = VIOLATION, 2 = machinery failure."
    })
}
