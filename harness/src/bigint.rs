//! Minimal unsigned big integers (base 2^32) for exact binomial coefficients.

#[derive(Clone, Debug, PartialEq, Eq)]
pub struct Big(pub Vec<u32>); // little endian limbs, no trailing zeros

impl Big {
    pub fn zero() -> Big {
        Big(vec![])
    }
    pub fn one() -> Big {
        Big(vec![1])
    }
    pub fn is_zero(&self) -> bool {
        self.0.is_empty()
    }
    pub fn add(&self, o: &Big) -> Big {
        let n = self.0.len().max(o.0.len());
        let mut r = Vec::with_capacity(n + 1);
        let mut carry = 0u64;
        for i in 0..n {
            let s = *self.0.get(i).unwrap_or(&0) as u64 + *o.0.get(i).unwrap_or(&0) as u64 + carry;
            r.push(s as u32);
            carry = s >> 32;
        }
        if carry > 0 {
            r.push(carry as u32);
        }
        Big(r)
    }
    pub fn mul(&self, o: &Big) -> Big {
        if self.is_zero() || o.is_zero() {
            return Big::zero();
        }
        let mut r = vec![0u32; self.0.len() + o.0.len()];
        for (i, &a) in self.0.iter().enumerate() {
            let mut carry = 0u64;
            for (j, &b) in o.0.iter().enumerate() {
                let cur = r[i + j] as u64 + a as u64 * b as u64 + carry;
                r[i + j] = cur as u32;
                carry = cur >> 32;
            }
            let mut k = i + o.0.len();
            while carry > 0 {
                let cur = r[k] as u64 + carry;
                r[k] = cur as u32;
                carry = cur >> 32;
                k += 1;
            }
        }
        while r.last() == Some(&0) {
            r.pop();
        }
        Big(r)
    }
    /// (mantissa in [0.5,1), exponent) with self = mantissa * 2^exponent, ~64 bits of the value used
    pub fn frexp(&self) -> (f64, i64) {
        if self.is_zero() {
            return (0.0, 0);
        }
        let n = self.0.len();
        let bits = 32 * (n as i64 - 1) + (32 - self.0[n - 1].leading_zeros() as i64);
        // take the top 3 limbs
        let mut acc: f64 = 0.0;
        let take = n.min(3);
        for i in 0..take {
            acc = acc * 4294967296.0 + self.0[n - 1 - i] as f64;
        }
        let used_bits = 32 * (take as i64 - 1) + (32 - self.0[n - 1].leading_zeros() as i64);
        // acc ~ value / 2^(bits-used_bits); normalise
        let m = acc / (2f64).powi(used_bits as i32);
        (m, bits)
    }
    /// self / other as f64 (relative error ~1e-16)
    pub fn ratio(&self, other: &Big) -> f64 {
        let (ma, ea) = self.frexp();
        let (mb, eb) = other.frexp();
        if mb == 0.0 {
            return f64::NAN;
        }
        let e = ea - eb;
        (ma / mb) * (2f64).powi(e.clamp(-2000, 2000) as i32)
    }
}

/// Pascal triangle rows 0..=n of exact binomials.
pub struct Binomials {
    rows: Vec<Vec<Big>>,
}

impl Binomials {
    pub fn new(n: usize) -> Binomials {
        let mut rows: Vec<Vec<Big>> = Vec::with_capacity(n + 1);
        rows.push(vec![Big::one()]);
        for i in 1..=n {
            let prev = &rows[i - 1];
            let mut row = Vec::with_capacity(i + 1);
            row.push(Big::one());
            for k in 1..i {
                row.push(prev[k - 1].add(&prev[k]));
            }
            row.push(Big::one());
            rows.push(row);
        }
        Binomials { rows }
    }
    pub fn c(&self, n: usize, k: usize) -> Big {
        if k > n {
            Big::zero()
        } else {
            self.rows[n][k].clone()
        }
    }
    /// P[X >= k] for X ~ Hypergeometric(N, K, n), exact rational converted once
    pub fn sf_ge(&self, big_n: usize, big_k: usize, n: usize, k: usize) -> f64 {
        let denom = self.c(big_n, n);
        let mut num = Big::zero();
        let hi = big_k.min(n);
        for i in k..=hi {
            if n - i > big_n - big_k {
                continue;
            }
            num = num.add(&self.c(big_k, i).mul(&self.c(big_n - big_k, n - i)));
        }
        num.ratio(&denom)
    }
}
