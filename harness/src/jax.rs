//! Renderer for the JAX text formats (hp.obo, phenotype.hpoa, genes_to_phenotype.txt,
//! phenotype_to_genes.txt) and a driver for `Ontology::from_standard[_transitive]`.
//! Only constructs that occur in JAX releases are generated.

use crate::ctx::guard;
use crate::model::{Facts, Kind};
use hpo::Ontology;

#[derive(Clone, Debug, PartialEq, Eq, Hash)]
pub enum Distractor {
    /// NOT-qualified OMIM row for a disease that also has positive rows (on a term it is not annotated to)
    NotRowOmimExisting,
    /// NOT-qualified row for an OMIM disease that has no other row (must not create the disease)
    NotRowOmimOnly,
    NotRowOrphaExisting,
    NotRowOrphaOnly,
    /// `#` comment lines at the top of phenotype.hpoa
    HpoaComments,
    /// the column header line `database_id\tdisease_name...`
    HpoaColumnHeader,
    /// a `#` comment line in the middle of phenotype.hpoa
    HpoaCommentMiddle,
    DecipherRow,
    /// gene file header variants: 0 = `ncbi_gene_id...`, 1 = `#Format...`, 2 = `hpo_id...`
    GeneHeader(u8),
    /// `[Typedef]` stanza at position i among the term stanzas (0 = before all, n = after all)
    Typedef(usize),
    /// extra trailing columns on gene rows
    GeneTrailingColumns,
    /// gene rows end after the last column the loader needs (3 resp. 4 columns)
    GeneMinimalColumns,
    /// extra tag lines in every stanza (def, synonym, xref, comment containing ": ", alt_id, created_by)
    ExtraTags,
    /// other tag lines (xref, property_value) between the is_a lines of a stanza
    TagsBetweenIsA,
    /// non-obsolete terms carry an explicit `is_obsolete: false` line (a legal OBO boolean)
    ExplicitNotObsolete,
    /// no `data-version` line in the header
    MissingDataVersion,
    /// extra header lines (saved-by, subsetdef, ontology, property_value ...)
    ExtraHeaderLines,
    /// file does not end with a newline after the last stanza
    NoTrailingNewline,
    /// several blank lines at the very end of hp.obo
    TrailingBlankLines,
    /// the optional columns of phenotype.hpoa (reference, evidence, onset, frequency, sex, modifier, aspect,
    /// biocuration) carry values that differ from row to row, e.g. frequencies `0/12`, `1/1`, `33%`, `HP:0040283`
    HpoaFilledColumns,
    /// phenotype.hpoa rows end after the hpo_id column
    HpoaMinimalColumns,
    /// hp.obo has no header block: the file starts with the first stanza (release version 0000-00-00)
    NoHeaderBlock,
    /// other tags (def, comment) and the is_obsolete / replaced_by lines stand between `id:` and `name:`
    /// (OBO only requires `id` to come first)
    TagsBeforeName,
    /// the header line of the gene file is a `#` comment of this many bytes (longer than an I/O buffer)
    GeneHeaderLong(usize),
    /// a `#` comment line of this many bytes in the middle of phenotype.hpoa
    HpoaCommentLong(usize),
    /// every is_a line carries an OBO trailing modifier: `is_a: HP:0000118 {source="PMID:1"} ! name`
    IsATrailingModifier,
}

#[derive(Clone, Debug, Default)]
pub struct JaxOpts {
    /// stanza order (indices into facts.terms); None = list order
    pub stanza_order: Option<Vec<usize>>,
    /// order of the is_a lines inside a stanza is the edge list order
    /// gene row order / disease row order (indices into the filtered annotation lists); None = list order
    pub gene_row_order: Option<Vec<usize>>,
    pub disease_row_order: Option<Vec<usize>>,
    pub distractors: Vec<Distractor>,
}

impl JaxOpts {
    pub fn has(&self, d: &Distractor) -> bool {
        self.distractors.contains(d)
    }
}

pub struct Rendered {
    pub obo: String,
    pub hpoa: String,
    pub genes_to_phenotype: String,
    pub phenotype_to_genes: String,
}

fn hp(id: u32) -> String {
    format!("HP:{id:07}")
}

pub fn render(f: &Facts, o: &JaxOpts) -> Rendered {
    // ---------- hp.obo
    let mut obo = String::new();
    if !o.has(&Distractor::NoHeaderBlock) {
        obo.push_str("format-version: 1.2\n");
    }
    if !o.has(&Distractor::MissingDataVersion) && !o.has(&Distractor::NoHeaderBlock) {
        obo.push_str(&format!("data-version: hp/releases/{:04}-{:02}-{:02}\n", f.version.0, f.version.1, f.version.2));
    }
    if o.has(&Distractor::ExtraHeaderLines) && !o.has(&Distractor::NoHeaderBlock) {
        obo.push_str("saved-by: Peter Robinson, Sebastian Koehler\nsubsetdef: hposlim_core \"Core clinical terminology\"\ndefault-namespace: human_phenotype\nontology: hp.obo\nproperty_value: http://purl.org/dc/elements/1.1/title \"Human Phenotype Ontology\" xsd:string\nlogical-definition-view-relation: has_part\n");
    }
    let typedef = "[Typedef]\nid: http://purl.obolibrary.org/obo/hp#has_part\nname: has_part\nxref: BFO:0000051\nis_transitive: true";
    let order: Vec<usize> = o.stanza_order.clone().unwrap_or_else(|| (0..f.terms.len()).collect());
    let mut stanzas: Vec<String> = vec![];
    for &i in &order {
        let t = &f.terms[i];
        let mut s = String::from("[Term]\n");
        s.push_str(&format!("id: {}\n", hp(t.id)));
        let early = o.has(&Distractor::TagsBeforeName);
        if early {
            s.push_str("def: \"Defined before it is named: really.\" [HPO:probinson]\ncomment: name: not this one\n");
            if t.obsolete {
                s.push_str("is_obsolete: true\n");
            }
            if let Some(r) = t.replacement {
                s.push_str(&format!("replaced_by: {}\n", hp(r)));
            }
        }
        s.push_str(&format!("name: {}\n", t.name));
        if o.has(&Distractor::ExtraTags) {
            s.push_str(&format!("alt_id: {}\n", hp(9_000_000 + t.id % 1000)));
            s.push_str("def: \"A definition: with a colon, and HP:0000001 inside.\" [HPO:probinson, PMID:12345]\n");
            s.push_str("comment: Note: name: something else\n");
            s.push_str("subset: hposlim_core\n");
            s.push_str("synonym: \"Other name: variant\" EXACT layperson [ORCID:0000-0001-5889-4463]\n");
            s.push_str("xref: UMLS:C0000001\n");
            s.push_str("created_by: doelkens\ncreation_date: 2012-04-02T02:19:54Z\n");
        }
        for &(c, p) in f.edges.iter().filter(|e| e.0 == t.id) {
            let pname = f.terms.iter().find(|x| x.id == p).map(|x| x.name.as_str()).unwrap_or("unknown");
            let _ = c;
            if o.has(&Distractor::IsATrailingModifier) {
                s.push_str(&format!("is_a: {} {{source=\"PMID:{}\"}} ! {}\n", hp(p), 1000 + p % 97, pname));
            } else {
                s.push_str(&format!("is_a: {} ! {}\n", hp(p), pname));
            }
            if o.has(&Distractor::TagsBetweenIsA) {
                s.push_str("xref: SNOMEDCT_US:123456\n");
            }
        }
        if t.obsolete {
            if !early {
                s.push_str("is_obsolete: true\n");
            }
        } else if o.has(&Distractor::ExplicitNotObsolete) {
            s.push_str("is_obsolete: false\n");
        }
        if let Some(r) = t.replacement {
            if !early {
                s.push_str(&format!("replaced_by: {}\n", hp(r)));
            }
        }
        if o.has(&Distractor::ExtraTags) {
            s.push_str("property_value: http://purl.org/dc/terms/contributor https://orcid.org/0000-0001-5889-4463\n");
        }
        // stanza without its final newline; stanzas are joined by a blank line
        s.pop();
        stanzas.push(s);
    }
    for d in &o.distractors {
        if let Distractor::Typedef(pos) = d {
            let p = (*pos).min(stanzas.len());
            stanzas.insert(p, typedef.to_string());
        }
    }
    // header block ends with one newline; blocks are separated by exactly one blank line
    for s in &stanzas {
        if !obo.is_empty() {
            obo.push('\n');
        }
        obo.push_str(s);
        obo.push('\n');
    }
    if o.has(&Distractor::NoTrailingNewline) && obo.ends_with('\n') {
        obo.pop();
    }
    if o.has(&Distractor::TrailingBlankLines) {
        obo.push_str("\n\n");
    }

    // ---------- phenotype.hpoa
    let mut hpoa = String::new();
    if o.has(&Distractor::HpoaComments) {
        hpoa.push_str("#description: \"HPO annotations for rare diseases [8181: OMIM; 47: DECIPHER; 4242 ORPHANET]\"\n#version: 2024-02-29\n#tracker: https://github.com/obophenotype/human-phenotype-ontology/issues\n#hpo-version: http://purl.obolibrary.org/obo/hp/releases/2024-02-29/hp.json\n");
    }
    if o.has(&Distractor::HpoaColumnHeader) {
        hpoa.push_str("database_id\tdisease_name\tqualifier\thpo_id\treference\tevidence\tonset\tfrequency\tsex\tmodifier\taspect\tbiocuration\n");
    }
    let dis: Vec<&crate::model::AnnFact> = f.anns.iter().filter(|a| a.kind != Kind::Gene && a.term.is_some()).collect();
    let dorder: Vec<usize> = o.disease_row_order.clone().unwrap_or_else(|| (0..dis.len()).collect());
    let filled = o.has(&Distractor::HpoaFilledColumns);
    let minimal = o.has(&Distractor::HpoaMinimalColumns);
    let row_no = std::cell::Cell::new(0usize);
    let row = |db: &str, id: u32, name: &str, qual: &str, term: u32| -> String {
        let k = row_no.get();
        row_no.set(k + 1);
        if minimal {
            format!("{db}:{id}\t{name}\t{qual}\t{}\n", hp(term))
        } else if filled {
            let freq = ["0/12", "1/1", "HP:0040283", "33%", "0/1", "7/12", "0%", ""][k % 8];
            let evidence = ["IEA", "PCS", "TAS"][k % 3];
            let onset = ["HP:0003577", "", "HP:0003593"][k % 3];
            let sex = ["MALE", "", "FEMALE", "NOT"][k % 4];
            let aspect = ["P", "I", "C", "M", "H"][k % 5];
            format!("{db}:{id}\t{name}\t{qual}\t{}\tPMID:{}\t{evidence}\t{onset}\t{freq}\t{sex}\tHP:0012828\t{aspect}\tHPO:probinson[2021-06-21];HPO:skoehler[2014-11-27]\n", hp(term), 1000 + k)
        } else {
            format!("{db}:{id}\t{name}\t{qual}\t{}\t{db}:{id}\tTAS\t\t\t\t\tP\tHPO:skoehler[2014-11-27]\n", hp(term))
        }
    };
    let mut rows: Vec<String> = vec![];
    for &i in &dorder {
        let a = dis[i];
        let db = if a.kind == Kind::Omim { "OMIM" } else { "ORPHA" };
        rows.push(row(db, a.id, &a.name, "", a.term.unwrap()));
    }
    // a term that exists, for distractor rows
    let some_term = f.terms.first().map(|t| t.id).unwrap_or(1);
    if o.has(&Distractor::NotRowOmimExisting) {
        if let Some(a) = dis.iter().find(|a| a.kind == Kind::Omim) {
            // pick a term this disease is NOT annotated to, if any
            let t = f.terms.iter().map(|t| t.id).find(|t| !dis.iter().any(|b| b.kind == Kind::Omim && b.id == a.id && b.term == Some(*t))).unwrap_or(some_term);
            let already = dis.iter().any(|b| b.kind == Kind::Omim && b.id == a.id && b.term == Some(t));
            if !already {
                rows.insert(0, row("OMIM", a.id, &a.name, "NOT", t));
            }
        }
    }
    if o.has(&Distractor::NotRowOmimOnly) {
        rows.insert(rows.len() / 2, row("OMIM", 777_001, "Negated only", "NOT", some_term));
    }
    if o.has(&Distractor::NotRowOrphaExisting) {
        if let Some(a) = dis.iter().find(|a| a.kind == Kind::Orpha) {
            let t = f.terms.iter().map(|t| t.id).find(|t| !dis.iter().any(|b| b.kind == Kind::Orpha && b.id == a.id && b.term == Some(*t))).unwrap_or(some_term);
            let already = dis.iter().any(|b| b.kind == Kind::Orpha && b.id == a.id && b.term == Some(t));
            if !already {
                rows.push(row("ORPHA", a.id, &a.name, "NOT", t));
            }
        }
    }
    if o.has(&Distractor::NotRowOrphaOnly) {
        rows.insert(0, row("ORPHA", 777_002, "Negated orpha only", "NOT", some_term));
    }
    if o.has(&Distractor::DecipherRow) {
        rows.insert(rows.len() / 2, row("DECIPHER", 16, "Leri-Weill dyschondrostosis (LWD) - SHOX deletion", "", some_term));
    }
    if o.has(&Distractor::HpoaCommentMiddle) {
        rows.insert(rows.len() / 2, "#OMIM:600171\tGonadal agenesis\t\tHP:0000001\tOMIM:600171\tTAS\tP\tHPO:skoehler[2014-11-27]\n".to_string());
    }
    for d in &o.distractors {
        if let Distractor::HpoaCommentLong(len) = d {
            let mut line = String::from("#");
            line.push_str(&"OMIM:1\tx\t\tHP:0000001\t".repeat(len / 21 + 1));
            line.truncate(*len);
            line.push('\n');
            rows.insert(rows.len() / 2, line);
        }
    }
    for r in rows {
        hpoa.push_str(&r);
    }

    // ---------- gene files
    let genes: Vec<&crate::model::AnnFact> = f.anns.iter().filter(|a| a.kind == Kind::Gene && a.term.is_some()).collect();
    let gorder: Vec<usize> = o.gene_row_order.clone().unwrap_or_else(|| (0..genes.len()).collect());
    let header_variant = o.distractors.iter().find_map(|d| if let Distractor::GeneHeader(v) = d { Some(*v) } else { None }).unwrap_or(0);
    let trailing = if o.has(&Distractor::GeneTrailingColumns) { "\textra\tcolumns\there" } else { "" };
    let tname = |id: u32| -> String { f.terms.iter().find(|t| t.id == id).map(|t| t.name.clone()).unwrap_or_default() };
    let mut g2p = String::new();
    let mut p2g = String::new();
    let long_header = o.distractors.iter().find_map(|d| if let Distractor::GeneHeaderLong(v) = d { Some(*v) } else { None });
    match header_variant {
        _ if long_header.is_some() => {
            // a `#` comment header of exactly `len` bytes (line feed included), made of text that would parse as rows
            let len = long_header.unwrap();
            let mut line = String::from("#");
            line.push_str(&"77\tXX\tHP:0000001\tAll\t".repeat(len / 20 + 1));
            line.truncate(len - 1);
            line.push('\n');
            g2p.push_str(&line);
            p2g.push_str(&line);
        }
        1 => {
            g2p.push_str("#Format: entrez-gene-id<tab>entrez-gene-symbol<tab>HPO-Term-ID<tab>HPO-Term-Name<tab>Frequency-Raw<tab>Frequency-HPO<tab>Additional Info from G-D source<tab>G-D source<tab>disease-ID for link\n");
            p2g.push_str("#Format: HPO-id<tab>HPO label<tab>entrez-gene-id<tab>entrez-gene-symbol<tab>Additional Info from G-D source<tab>G-D source<tab>disease-ID for link\n");
        }
        2 => {
            g2p.push_str("hpo_id\thpo_name\tncbi_gene_id\tgene_symbol\tdisease_id\n");
            p2g.push_str("ncbi_gene_id\tgene_symbol\thpo_id\thpo_name\tfrequency\tdisease_id\n");
        }
        _ => {
            g2p.push_str("ncbi_gene_id\tgene_symbol\thpo_id\thpo_name\tfrequency\tdisease_id\n");
            p2g.push_str("hpo_id\thpo_name\tncbi_gene_id\tgene_symbol\tdisease_id\n");
        }
    }
    for &i in &gorder {
        let a = genes[i];
        let t = a.term.unwrap();
        if o.has(&Distractor::GeneMinimalColumns) {
            g2p.push_str(&format!("{}\t{}\t{}\n", a.id, a.name, hp(t)));
            p2g.push_str(&format!("{}\t{}\t{}\t{}\n", hp(t), tname(t), a.id, a.name));
        } else {
            g2p.push_str(&format!("{}\t{}\t{}\t{}\t-\tOMIM:243400{}\n", a.id, a.name, hp(t), tname(t), trailing));
            p2g.push_str(&format!("{}\t{}\t{}\t{}\tOMIM:243400{}\n", hp(t), tname(t), a.id, a.name, trailing));
        }
    }
    Rendered { obo, hpoa, genes_to_phenotype: g2p, phenotype_to_genes: p2g }
}

/// Per-process scratch directory for generated JAX folders (removed by `cleanup`).
pub fn scratch() -> String {
    let base = if std::path::Path::new("/dev/shm").is_dir() { "/dev/shm".to_string() } else { std::env::temp_dir().display().to_string() };
    let d = format!("{}/hpo-verif-jax-{}", base, std::process::id());
    let _ = std::fs::create_dir_all(&d);
    d
}

pub fn cleanup() {
    let base = if std::path::Path::new("/dev/shm").is_dir() { "/dev/shm".to_string() } else { std::env::temp_dir().display().to_string() };
    let d = format!("{}/hpo-verif-jax-{}", base, std::process::id());
    let _ = std::fs::remove_dir_all(d);
}

/// Write the rendered files and load them through the real loader.
/// Ok(Ok(ont)) / Ok(Err(error)) / Err(panic)
pub fn load(r: &Rendered, transitive: bool) -> Result<Result<Ontology, String>, String> {
    let dir = scratch();
    let w = |name: &str, body: &str| std::fs::write(format!("{dir}/{name}"), body).expect("cannot write scratch file");
    w("hp.obo", &r.obo);
    w("phenotype.hpoa", &r.hpoa);
    w("genes_to_phenotype.txt", &r.genes_to_phenotype);
    w("phenotype_to_genes.txt", &r.phenotype_to_genes);
    guard(|| if transitive { Ontology::from_standard_transitive(&dir) } else { Ontology::from_standard(&dir) }.map_err(|e| e.to_string()))
}
