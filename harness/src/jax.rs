//! Renderer for the JAX text formats (hp.obo, phenotype.hpoa, genes_to_phenotype.txt,
//! phenotype_to_genes.txt) and a driver for `Ontology::from_standard[_transitive]`.
//! Only constructs that occur in JAX releases or that OBO 1.2 / 1.4 allows in such a file are generated (header tags
//! in any order after `format-version`, `consider:` / `namespace:` tags, a repeated `is_a:` line, free text in values).
//! `load` writes only the gene file the loader under test is documented to read; the other name holds a poison file.

use crate::ctx::guard;
use crate::model::{Facts, Kind};
use hpo::Ontology;

#[derive(Clone, Debug, PartialEq, Eq, Hash)]
pub enum Distractor {
    /// NOT-qualified OMIM row for a disease that also has positive rows (on a term it is not annotated to)
    NotRowOmimExisting,
    /// NOT-qualified row for an OMIM disease that has no other row (must not create the disease)
    NotRowOmimOnly,
    NotRowOrphaExisting,
    NotRowOrphaOnly,
    /// for every positive disease row a NOT-qualified twin (same disease, same term, another reference), all of
    /// them before the positive rows: two sources that disagree; the rows that are not NOT still count
    NotRowTwinsFirst,
    /// the same twins after all positive rows
    NotRowTwinsLast,
    /// `#` comment lines at the top of phenotype.hpoa
    HpoaComments,
    /// the column header line `database_id\tdisease_name...`
    HpoaColumnHeader,
    /// a `#` comment line in the middle of phenotype.hpoa
    HpoaCommentMiddle,
    DecipherRow,
    /// gene file header variants: 0 = the column header of current releases (`ncbi_gene_id...` in
    /// genes_to_phenotype.txt, `hpo_id...` in phenotype_to_genes.txt), 1 = the `#Format: ...` comment of older releases.
    /// (Each file always carries its OWN header: the crate does not document that the header content is ignored.)
    GeneHeader(u8),
    /// `[Typedef]` stanza at position i among the term stanzas (0 = before all, n = after all)
    Typedef(usize),
    /// extra trailing columns on gene rows
    GeneTrailingColumns,
    /// gene rows end after the last column the loader needs (3 resp. 4 columns)
    GeneMinimalColumns,
    /// extra tag lines in every stanza (def, synonym, xref, comment containing ": ", alt_id, created_by)
    ExtraTags,
    /// other tag lines (xref, property_value) between the is_a lines of a stanza
    TagsBetweenIsA,
    /// non-obsolete terms carry an explicit `is_obsolete: false` line (a legal OBO boolean)
    ExplicitNotObsolete,
    /// no `data-version` line in the header
    MissingDataVersion,
    /// extra header lines (saved-by, subsetdef, ontology, property_value ...)
    ExtraHeaderLines,
    /// file does not end with a newline after the last stanza
    NoTrailingNewline,
    /// several blank lines at the very end of hp.obo
    TrailingBlankLines,
    /// the optional columns of phenotype.hpoa (reference, evidence, onset, frequency, sex, modifier, aspect,
    /// biocuration) carry values that differ from row to row, e.g. frequencies `0/12`, `1/1`, `33%`, `HP:0040283`
    HpoaFilledColumns,
    /// phenotype.hpoa rows end after the hpo_id column
    HpoaMinimalColumns,
    /// hp.obo has no header block: the file starts with the first stanza (release version 0000-00-00)
    NoHeaderBlock,
    /// other tags (def, comment) and the is_obsolete / replaced_by lines stand between `id:` and `name:`
    /// (OBO only requires `id` to come first)
    TagsBeforeName,
    /// the header line of the gene file is a `#` comment of this many bytes (longer than an I/O buffer)
    GeneHeaderLong(usize),
    /// a `#` comment line of this many bytes in the middle of phenotype.hpoa
    HpoaCommentLong(usize),
    /// every is_a line carries an OBO trailing modifier: `is_a: HP:0000118 {source="PMID:1"} ! name`
    IsATrailingModifier,
    /// phenotype.hpoa and both gene files do not end with a newline after their last row
    /// (`NoTrailingNewline` is the same for hp.obo)
    AnnotationFilesNoTrailingNewline,
    /// the optional columns of the gene files (frequency and disease_id in genes_to_phenotype.txt, disease_id in
    /// phenotype_to_genes.txt) carry values that differ from row to row: `-`, `0/5`, `3/7`, `HP:0040285`, `12%`,
    /// `OMIM:n`, `ORPHA:n`, `-`, empty
    GeneFilledColumns,
    /// other header lines (date, saved-by, auto-generated-by) stand between `format-version` and `data-version`
    HeaderLinesBeforeDataVersion,
    /// stanzas carry `namespace:` (after the name) and one or two `consider:` lines (after is_obsolete /
    /// replaced_by), obsolete and non-obsolete stanzas alike; `consider` names other terms than `replaced_by`
    ConsiderNamespaceTags,
    /// an `is_a:` line occurs twice in a stanza (same parent): directly doubled in stanzas at even positions,
    /// the first is_a line repeated after the last one in stanzas at odd positions
    DuplicateIsA,
    /// the text `is_a: HP:nnnnnnn ! name` occurs INSIDE the value of a `def:` and at the start of the value of a
    /// `comment:` line; the term named there is not a parent (a value is not a tag: no link may result)
    IsATextInValues,
}

#[derive(Clone, Debug, Default)]
pub struct JaxOpts {
    /// stanza order (indices into facts.terms); None = list order
    pub stanza_order: Option<Vec<usize>>,
    /// order of the is_a lines inside a stanza is the edge list order
    /// gene row order / disease row order (indices into the filtered annotation lists); None = list order
    pub gene_row_order: Option<Vec<usize>>,
    pub disease_row_order: Option<Vec<usize>>,
    pub distractors: Vec<Distractor>,
}

impl JaxOpts {
    pub fn has(&self, d: &Distractor) -> bool {
        self.distractors.contains(d)
    }
}

pub struct Rendered {
    pub obo: String,
    pub hpoa: String,
    pub genes_to_phenotype: String,
    pub phenotype_to_genes: String,
    /// a term of the ontology (the first stanza's), used for the rows of the poison gene file written by `load`
    pub some_term: u32,
}

fn hp(id: u32) -> String {
    format!("HP:{id:07}")
}

pub fn render(f: &Facts, o: &JaxOpts) -> Rendered {
    // ---------- hp.obo
    let mut obo = String::new();
    if !o.has(&Distractor::NoHeaderBlock) {
        obo.push_str("format-version: 1.2\n");
        if o.has(&Distractor::HeaderLinesBeforeDataVersion) {
            obo.push_str("date: 29:02:2024 10:15\nsaved-by: Peter Robinson\nauto-generated-by: OBO-Edit 2.3.1\n");
        }
    }
    if !o.has(&Distractor::MissingDataVersion) && !o.has(&Distractor::NoHeaderBlock) {
        obo.push_str(&format!("data-version: hp/releases/{:04}-{:02}-{:02}\n", f.version.0, f.version.1, f.version.2));
    }
    if o.has(&Distractor::ExtraHeaderLines) && !o.has(&Distractor::NoHeaderBlock) {
        obo.push_str("saved-by: Peter Robinson, Sebastian Koehler\nsubsetdef: hposlim_core \"Core clinical terminology\"\ndefault-namespace: human_phenotype\nontology: hp.obo\nproperty_value: http://purl.org/dc/elements/1.1/title \"Human Phenotype Ontology\" xsd:string\nlogical-definition-view-relation: has_part\n");
    }
    let typedef = "[Typedef]\nid: http://purl.obolibrary.org/obo/hp#has_part\nname: has_part\nxref: BFO:0000051\nis_transitive: true";
    let order: Vec<usize> = o.stanza_order.clone().unwrap_or_else(|| (0..f.terms.len()).collect());
    let mut stanzas: Vec<String> = vec![];
    // ancestors-first order of the term ids (ties in list order)
    let mut topo: Vec<u32> = vec![];
    while topo.len() < f.terms.len() {
        let next = f.terms.iter().map(|x| x.id).find(|x| !topo.contains(x) && f.edges.iter().filter(|e| e.0 == *x && f.terms.iter().any(|y| y.id == e.1)).all(|e| topo.contains(&e.1)));
        match next.or_else(|| f.terms.iter().map(|x| x.id).find(|x| !topo.contains(x))) {
            Some(x) => topo.push(x),
            None => break,
        }
    }
    let name_of = |id: u32| -> &str { f.terms.iter().find(|x| x.id == id).map(|x| x.name.as_str()).unwrap_or("unknown") };
    for (pos, &i) in order.iter().enumerate() {
        let t = &f.terms[i];
        let mut s = String::from("[Term]\n");
        s.push_str(&format!("id: {}\n", hp(t.id)));
        let early = o.has(&Distractor::TagsBeforeName);
        // `is_a: ...` as TEXT inside values: names a term that stands before this one in an ancestors-first order
        // and is not a direct parent (a link to it could not close a cycle); an absent id if there is none
        let is_a_text: Option<String> = if o.has(&Distractor::IsATextInValues) {
            let target = topo.iter().take_while(|x| **x != t.id).copied().find(|x| !f.edges.iter().any(|e| e.0 == t.id && e.1 == *x)).unwrap_or(9_999_990);
            Some(format!("is_a: {} ! {}", hp(target), name_of(target)))
        } else {
            None
        };
        let is_a_values = |s: &mut String, txt: &str| {
            s.push_str(&format!("def: \"Formerly classified as {txt}, see the tracker.\" [HPO:probinson]\n"));
            s.push_str(&format!("comment: {txt}\n"));
        };
        if early {
            match &is_a_text {
                Some(txt) => is_a_values(&mut s, txt),
                None => s.push_str("def: \"Defined before it is named: really.\" [HPO:probinson]\ncomment: name: not this one\n"),
            }
            if t.obsolete {
                s.push_str("is_obsolete: true\n");
            }
            if let Some(r) = t.replacement {
                s.push_str(&format!("replaced_by: {}\n", hp(r)));
            }
        }
        s.push_str(&format!("name: {}\n", t.name));
        if o.has(&Distractor::ConsiderNamespaceTags) {
            s.push_str("namespace: human_phenotype\n");
        }
        if o.has(&Distractor::ExtraTags) {
            s.push_str(&format!("alt_id: {}\n", hp(9_000_000 + t.id % 1000)));
            match (&is_a_text, early) {
                (Some(txt), false) => is_a_values(&mut s, txt),
                _ => {
                    s.push_str("def: \"A definition: with a colon, and HP:0000001 inside.\" [HPO:probinson, PMID:12345]\n");
                    s.push_str("comment: Note: name: something else\n");
                }
            }
            s.push_str("subset: hposlim_core\n");
            s.push_str("synonym: \"Other name: variant\" EXACT layperson [ORCID:0000-0001-5889-4463]\n");
            s.push_str("xref: UMLS:C0000001\n");
            s.push_str("created_by: doelkens\ncreation_date: 2012-04-02T02:19:54Z\n");
        } else if let (Some(txt), false) = (&is_a_text, early) {
            is_a_values(&mut s, txt);
        }
        let is_a_line = |p: u32| -> String {
            if o.has(&Distractor::IsATrailingModifier) {
                format!("is_a: {} {{source=\"PMID:{}\"}} ! {}\n", hp(p), 1000 + p % 97, name_of(p))
            } else {
                format!("is_a: {} ! {}\n", hp(p), name_of(p))
            }
        };
        let parents: Vec<u32> = f.edges.iter().filter(|e| e.0 == t.id).map(|e| e.1).collect();
        for &p in &parents {
            s.push_str(&is_a_line(p));
            if o.has(&Distractor::DuplicateIsA) && pos % 2 == 0 {
                s.push_str(&is_a_line(p));
            }
            if o.has(&Distractor::TagsBetweenIsA) {
                s.push_str("xref: SNOMEDCT_US:123456\n");
            }
        }
        if o.has(&Distractor::DuplicateIsA) && pos % 2 == 1 {
            if let Some(&p) = parents.first() {
                s.push_str(&is_a_line(p));
            }
        }
        if t.obsolete {
            if !early {
                s.push_str("is_obsolete: true\n");
            }
        } else if o.has(&Distractor::ExplicitNotObsolete) {
            s.push_str("is_obsolete: false\n");
        }
        if let Some(r) = t.replacement {
            if !early {
                s.push_str(&format!("replaced_by: {}\n", hp(r)));
            }
        }
        if o.has(&Distractor::ConsiderNamespaceTags) {
            // terms to consider: not the term itself, not its stated replacement; one line, at every second
            // stanza two lines (the second one may name a term that is absent from the file, as in releases
            // where the term to consider belongs to another ontology version)
            let cands: Vec<u32> = f.terms.iter().map(|x| x.id).filter(|x| *x != t.id && Some(*x) != t.replacement).collect();
            let pick = |k: usize| -> u32 { if cands.is_empty() { 12_345 } else { cands[k % cands.len()] } };
            s.push_str(&format!("consider: {}\n", hp(pick(pos))));
            if pos % 2 == 1 {
                s.push_str(&format!("consider: {}\n", hp(if cands.len() >= 2 { pick(pos + 1) } else { 12_345 })));
            }
        }
        if o.has(&Distractor::ExtraTags) {
            s.push_str("property_value: http://purl.org/dc/terms/contributor https://orcid.org/0000-0001-5889-4463\n");
        }
        // stanza without its final newline; stanzas are joined by a blank line
        s.pop();
        stanzas.push(s);
    }
    for d in &o.distractors {
        if let Distractor::Typedef(pos) = d {
            let p = (*pos).min(stanzas.len());
            stanzas.insert(p, typedef.to_string());
        }
    }
    // header block ends with one newline; blocks are separated by exactly one blank line
    for s in &stanzas {
        if !obo.is_empty() {
            obo.push('\n');
        }
        obo.push_str(s);
        obo.push('\n');
    }
    if o.has(&Distractor::NoTrailingNewline) && obo.ends_with('\n') {
        obo.pop();
    }
    if o.has(&Distractor::TrailingBlankLines) {
        obo.push_str("\n\n");
    }

    // ---------- phenotype.hpoa
    let mut hpoa = String::new();
    if o.has(&Distractor::HpoaComments) {
        hpoa.push_str("#description: \"HPO annotations for rare diseases [8181: OMIM; 47: DECIPHER; 4242 ORPHANET]\"\n#version: 2024-02-29\n#tracker: https://github.com/obophenotype/human-phenotype-ontology/issues\n#hpo-version: http://purl.obolibrary.org/obo/hp/releases/2024-02-29/hp.json\n");
    }
    if o.has(&Distractor::HpoaColumnHeader) {
        hpoa.push_str("database_id\tdisease_name\tqualifier\thpo_id\treference\tevidence\tonset\tfrequency\tsex\tmodifier\taspect\tbiocuration\n");
    }
    let dis: Vec<&crate::model::AnnFact> = f.anns.iter().filter(|a| a.kind != Kind::Gene && a.term.is_some()).collect();
    let dorder: Vec<usize> = o.disease_row_order.clone().unwrap_or_else(|| (0..dis.len()).collect());
    let filled = o.has(&Distractor::HpoaFilledColumns);
    let minimal = o.has(&Distractor::HpoaMinimalColumns);
    let row_no = std::cell::Cell::new(0usize);
    let row = |db: &str, id: u32, name: &str, qual: &str, term: u32| -> String {
        let k = row_no.get();
        row_no.set(k + 1);
        if minimal {
            format!("{db}:{id}\t{name}\t{qual}\t{}\n", hp(term))
        } else if filled {
            // the rotation starts at a position that depends on the fact set, so that small files reach every value
            let k = k + f.anns.len();
            // HP:0040285 = "Excluded", HP:0040280 = "Obligate", 0/n and 0%: none of them is a NOT qualifier (all values are ones the HPOA format allows in their column)
            let freq = ["0/12", "HP:0040285", "1/1", "HP:0040283", "3/3", "33%", "0/1", "HP:0040280", "7/12", "0%", "1/2", ""][k % 12];
            let evidence = ["IEA", "PCS", "TAS"][k % 3];
            let onset = ["HP:0003577", "", "HP:0003593"][k % 3];
            let sex = ["MALE", "", "FEMALE", ""][k % 4];
            let aspect = ["P", "I", "C", "M", "H"][k % 5];
            format!("{db}:{id}\t{name}\t{qual}\t{}\tPMID:{}\t{evidence}\t{onset}\t{freq}\t{sex}\tHP:0012828\t{aspect}\tHPO:probinson[2021-06-21];HPO:skoehler[2014-11-27]\n", hp(term), 1000 + k)
        } else {
            format!("{db}:{id}\t{name}\t{qual}\t{}\t{db}:{id}\tTAS\t\t\t\t\tP\tHPO:skoehler[2014-11-27]\n", hp(term))
        }
    };
    let mut rows: Vec<String> = vec![];
    for &i in &dorder {
        let a = dis[i];
        let db = if a.kind == Kind::Omim { "OMIM" } else { "ORPHA" };
        rows.push(row(db, a.id, &a.name, "", a.term.unwrap()));
    }
    // a term that exists, for distractor rows
    let some_term = f.terms.first().map(|t| t.id).unwrap_or(1);
    if o.has(&Distractor::NotRowOmimExisting) {
        if let Some(a) = dis.iter().find(|a| a.kind == Kind::Omim) {
            // pick a term this disease is NOT annotated to, if any
            let t = f.terms.iter().map(|t| t.id).find(|t| !dis.iter().any(|b| b.kind == Kind::Omim && b.id == a.id && b.term == Some(*t))).unwrap_or(some_term);
            let already = dis.iter().any(|b| b.kind == Kind::Omim && b.id == a.id && b.term == Some(t));
            if !already {
                rows.insert(0, row("OMIM", a.id, &a.name, "NOT", t));
            }
        }
    }
    if o.has(&Distractor::NotRowOmimOnly) {
        rows.insert(rows.len() / 2, row("OMIM", 777_001, "Negated only", "NOT", some_term));
    }
    if o.has(&Distractor::NotRowOrphaExisting) {
        if let Some(a) = dis.iter().find(|a| a.kind == Kind::Orpha) {
            let t = f.terms.iter().map(|t| t.id).find(|t| !dis.iter().any(|b| b.kind == Kind::Orpha && b.id == a.id && b.term == Some(*t))).unwrap_or(some_term);
            let already = dis.iter().any(|b| b.kind == Kind::Orpha && b.id == a.id && b.term == Some(t));
            if !already {
                rows.push(row("ORPHA", a.id, &a.name, "NOT", t));
            }
        }
    }
    if o.has(&Distractor::NotRowOrphaOnly) {
        rows.insert(0, row("ORPHA", 777_002, "Negated orpha only", "NOT", some_term));
    }
    if o.has(&Distractor::NotRowTwinsFirst) || o.has(&Distractor::NotRowTwinsLast) {
        let twins: Vec<String> = dorder
            .iter()
            .map(|&i| {
                let a = dis[i];
                row(if a.kind == Kind::Omim { "OMIM" } else { "ORPHA" }, a.id, &a.name, "NOT", a.term.unwrap())
            })
            .collect();
        if o.has(&Distractor::NotRowTwinsFirst) {
            rows.splice(0..0, twins);
        } else {
            rows.extend(twins);
        }
    }
    if o.has(&Distractor::DecipherRow) {
        rows.insert(rows.len() / 2, row("DECIPHER", 16, "Leri-Weill dyschondrostosis (LWD) - SHOX deletion", "", some_term));
    }
    if o.has(&Distractor::HpoaCommentMiddle) {
        rows.insert(rows.len() / 2, "#OMIM:600171\tGonadal agenesis\t\tHP:0000001\tOMIM:600171\tTAS\tP\tHPO:skoehler[2014-11-27]\n".to_string());
    }
    for d in &o.distractors {
        if let Distractor::HpoaCommentLong(len) = d {
            let mut line = String::from("#");
            line.push_str(&"OMIM:1\tx\t\tHP:0000001\t".repeat(len / 21 + 1));
            line.truncate(*len);
            line.push('\n');
            rows.insert(rows.len() / 2, line);
        }
    }
    for r in rows {
        hpoa.push_str(&r);
    }

    // ---------- gene files
    let genes: Vec<&crate::model::AnnFact> = f.anns.iter().filter(|a| a.kind == Kind::Gene && a.term.is_some()).collect();
    let gorder: Vec<usize> = o.gene_row_order.clone().unwrap_or_else(|| (0..genes.len()).collect());
    let header_variant = o.distractors.iter().find_map(|d| if let Distractor::GeneHeader(v) = d { Some(*v) } else { None }).unwrap_or(0);
    let trailing = if o.has(&Distractor::GeneTrailingColumns) { "\textra\tcolumns\there" } else { "" };
    let tname = |id: u32| -> String { f.terms.iter().find(|t| t.id == id).map(|t| t.name.clone()).unwrap_or_default() };
    let mut g2p = String::new();
    let mut p2g = String::new();
    let long_header = o.distractors.iter().find_map(|d| if let Distractor::GeneHeaderLong(v) = d { Some(*v) } else { None });
    match header_variant {
        _ if long_header.is_some() => {
            // a `#` comment header of exactly `len` bytes (line feed included), made of text that would parse as rows
            let len = long_header.unwrap();
            let mut line = String::from("#");
            line.push_str(&"77\tXX\tHP:0000001\tAll\t".repeat(len / 20 + 1));
            line.truncate(len - 1);
            line.push('\n');
            g2p.push_str(&line);
            p2g.push_str(&line);
        }
        1 => {
            g2p.push_str("#Format: entrez-gene-id<tab>entrez-gene-symbol<tab>HPO-Term-ID<tab>HPO-Term-Name<tab>Frequency-Raw<tab>Frequency-HPO<tab>Additional Info from G-D source<tab>G-D source<tab>disease-ID for link\n");
            p2g.push_str("#Format: HPO-id<tab>HPO label<tab>entrez-gene-id<tab>entrez-gene-symbol<tab>Additional Info from G-D source<tab>G-D source<tab>disease-ID for link\n");
        }
        _ => {
            g2p.push_str("ncbi_gene_id\tgene_symbol\thpo_id\thpo_name\tfrequency\tdisease_id\n");
            p2g.push_str("hpo_id\thpo_name\tncbi_gene_id\tgene_symbol\tdisease_id\n");
        }
    }
    for (k, &i) in gorder.iter().enumerate() {
        let a = genes[i];
        let t = a.term.unwrap();
        if o.has(&Distractor::GeneFilledColumns) && !o.has(&Distractor::GeneMinimalColumns) {
            let k = k + f.anns.len();
            let freq = ["-", "HP:0040285", "0/5", "3/7", "12%", "HP:0040283", "1/1", ""][k % 8];
            let disease = ["OMIM:243400", "ORPHA:432", "-", "OMIM:1", "ORPHA:99999", ""][k % 6];
            g2p.push_str(&format!("{}\t{}\t{}\t{}\t{freq}\t{disease}{}\n", a.id, a.name, hp(t), tname(t), trailing));
            p2g.push_str(&format!("{}\t{}\t{}\t{}\t{disease}{}\n", hp(t), tname(t), a.id, a.name, trailing));
        } else if o.has(&Distractor::GeneMinimalColumns) {
            g2p.push_str(&format!("{}\t{}\t{}\n", a.id, a.name, hp(t)));
            p2g.push_str(&format!("{}\t{}\t{}\t{}\n", hp(t), tname(t), a.id, a.name));
        } else {
            g2p.push_str(&format!("{}\t{}\t{}\t{}\t-\tOMIM:243400{}\n", a.id, a.name, hp(t), tname(t), trailing));
            p2g.push_str(&format!("{}\t{}\t{}\t{}\tOMIM:243400{}\n", hp(t), tname(t), a.id, a.name, trailing));
        }
    }
    if o.has(&Distractor::AnnotationFilesNoTrailingNewline) {
        for file in [&mut hpoa, &mut g2p, &mut p2g] {
            if file.ends_with('\n') {
                file.pop();
            }
        }
    }
    Rendered { obo, hpoa, genes_to_phenotype: g2p, phenotype_to_genes: p2g, some_term }
}

/// The same facts with two records of `kind` carrying the SAME name (gene symbol / disease name): the second
/// record of that kind that has rows takes the name of the first one. `adjacent`: the rows of the two records
/// directly follow each other in the file (first all rows of the one, then all rows of the other); otherwise a row
/// of a third record (`Spacer`, id 4 242 001, added to the facts) stands between them. The rows of the two
/// records come first among the annotations. None if fewer than two records of the kind have rows.
/// Model and files are both derived from the returned facts.
pub fn with_shared_name(f: &Facts, kind: Kind, adjacent: bool) -> Option<Facts> {
    let mut ids: Vec<u32> = vec![];
    for a in f.anns.iter().filter(|a| a.kind == kind && a.term.is_some()) {
        if !ids.contains(&a.id) {
            ids.push(a.id);
        }
    }
    if ids.len() < 2 {
        return None;
    }
    let (a, b) = (ids[0], ids[1]);
    let name = f.anns.iter().find(|x| x.kind == kind && x.id == a)?.name.clone();
    let mut g = f.clone();
    for x in g.anns.iter_mut() {
        if x.kind == kind && x.id == b {
            x.name = name.clone();
        }
    }
    let is = |x: &crate::model::AnnFact, id: u32| x.kind == kind && x.id == id && x.term.is_some();
    let rows_a: Vec<crate::model::AnnFact> = g.anns.iter().filter(|x| is(x, a)).cloned().collect();
    let rows_b: Vec<crate::model::AnnFact> = g.anns.iter().filter(|x| is(x, b)).cloned().collect();
    let rest: Vec<crate::model::AnnFact> = g.anns.iter().filter(|x| !is(x, a) && !is(x, b)).cloned().collect();
    let mut anns = rows_a.clone();
    if !adjacent {
        anns.push(Facts::ann(kind, 4_242_001, "Spacer", rows_a[0].term));
    }
    anns.extend(rows_b);
    anns.extend(rest);
    g.anns = anns;
    Some(g)
}

/// Per-process scratch directory for generated JAX folders (removed by `cleanup`).
pub fn scratch() -> String {
    let base = if std::path::Path::new("/dev/shm").is_dir() { "/dev/shm".to_string() } else { std::env::temp_dir().display().to_string() };
    let d = format!("{}/hpo-verif-jax-{}", base, std::process::id());
    let _ = std::fs::create_dir_all(&d);
    d
}

pub fn cleanup() {
    let base = if std::path::Path::new("/dev/shm").is_dir() { "/dev/shm".to_string() } else { std::env::temp_dir().display().to_string() };
    let d = format!("{}/hpo-verif-jax-{}", base, std::process::id());
    let _ = std::fs::remove_dir_all(d);
}

/// What stands under the name of the gene file the loader under test is NOT documented to read
/// (`from_standard` reads genes_to_phenotype.txt, `from_standard_transitive` reads phenotype_to_genes.txt).
#[derive(Clone, Copy, Debug, PartialEq, Eq)]
pub enum OtherGeneFile {
    /// a well-formed file of that name (own header, own column order) whose only row links a gene
    /// `999999 POISON` to a term of the ontology: reading it in any way changes the result
    Poison,
    /// no file of that name
    Absent,
}

/// Write the rendered files and load them through the real loader.
/// Only the gene file the loader is documented to read is written from the rendering; the other name holds a
/// poison file. Ok(Ok(ont)) / Ok(Err(error)) / Err(panic)
pub fn load(r: &Rendered, transitive: bool) -> Result<Result<Ontology, String>, String> {
    load_with(r, transitive, OtherGeneFile::Poison)
}

pub fn load_with(r: &Rendered, transitive: bool, other: OtherGeneFile) -> Result<Result<Ontology, String>, String> {
    let dir = scratch();
    let w = |name: &str, body: &str| std::fs::write(format!("{dir}/{name}"), body).expect("cannot write scratch file");
    w("hp.obo", &r.obo);
    w("phenotype.hpoa", &r.hpoa);
    let t = hp(r.some_term);
    let (read_name, read_body, other_name, poison) = if transitive {
        ("phenotype_to_genes.txt", &r.phenotype_to_genes, "genes_to_phenotype.txt", format!("ncbi_gene_id\tgene_symbol\thpo_id\thpo_name\tfrequency\tdisease_id\n999999\tPOISON\t{t}\tpoison\t-\tOMIM:999999\n"))
    } else {
        ("genes_to_phenotype.txt", &r.genes_to_phenotype, "phenotype_to_genes.txt", format!("hpo_id\thpo_name\tncbi_gene_id\tgene_symbol\tdisease_id\n{t}\tpoison\t999999\tPOISON\tOMIM:999999\n"))
    };
    w(read_name, read_body);
    match other {
        OtherGeneFile::Poison => w(other_name, &poison),
        OtherGeneFile::Absent => {
            let _ = std::fs::remove_file(format!("{dir}/{other_name}"));
        }
    }
    guard(|| if transitive { Ontology::from_standard_transitive(&dir) } else { Ontology::from_standard(&dir) }.map_err(|e| e.to_string()))
}
