//! Reference model: `Facts` (what a user supplies) and `RefOnt` (what the ontology must be),
//! derived with deliberately naive code. Knows nothing of arenas, caches, early exits, byte layouts.

use crate::space::Dag;
use serde_json::{json, Value};
use std::collections::{BTreeMap, BTreeSet, VecDeque};

#[derive(Clone, Copy, Debug, PartialEq, Eq, Hash, PartialOrd, Ord)]
pub enum Kind {
    Gene,
    Omim,
    Orpha,
}

pub const KINDS: [Kind; 3] = [Kind::Gene, Kind::Omim, Kind::Orpha];

impl Kind {
    pub fn idx(self) -> usize {
        match self {
            Kind::Gene => 0,
            Kind::Omim => 1,
            Kind::Orpha => 2,
        }
    }
    pub fn name(self) -> &'static str {
        match self {
            Kind::Gene => "gene",
            Kind::Omim => "omim",
            Kind::Orpha => "orpha",
        }
    }
}

#[derive(Clone, Debug, PartialEq, Eq, Hash)]
pub struct TermFact {
    pub id: u32,
    pub name: String,
    pub obsolete: bool,
    pub replacement: Option<u32>,
}

/// One annotation-phase fact: a record (kind,id,name), optionally linked to a term.
/// `term == None` is a bare record (`Builder::add_gene` etc.).
#[derive(Clone, Debug, PartialEq, Eq, Hash)]
pub struct AnnFact {
    pub kind: Kind,
    pub id: u32,
    pub name: String,
    pub term: Option<u32>,
}

#[derive(Clone, Debug, PartialEq, Eq, Hash, Default)]
pub struct Facts {
    pub terms: Vec<TermFact>,
    /// (child, parent), list order = supply order
    pub edges: Vec<(u32, u32)>,
    pub anns: Vec<AnnFact>,
    pub version: (u16, u8, u8),
}

impl Facts {
    pub fn term(id: u32, name: &str) -> TermFact {
        TermFact { id, name: name.to_string(), obsolete: false, replacement: None }
    }
    pub fn ann(kind: Kind, id: u32, name: &str, term: Option<u32>) -> AnnFact {
        AnnFact { kind, id, name: name.to_string(), term }
    }

    /// Facts for a DAG whose node k carries `ids[k]`; names are "T<id>".
    pub fn from_dag(dag: &Dag, ids: &[u32]) -> Facts {
        let terms = (0..dag.n).map(|k| Facts::term(ids[k], &format!("T{}", ids[k]))).collect();
        let edges = dag.edges().iter().map(|&(c, p)| (ids[c], ids[p])).collect();
        Facts { terms, edges, anns: vec![], version: (0, 0, 0) }
    }

    pub fn n_steps(&self) -> u64 {
        (self.terms.len() + self.edges.len() + self.anns.len()) as u64
    }

    pub fn to_json(&self) -> Value {
        json!({
            "terms": self.terms.iter().map(|t| json!({"id": t.id, "name": short(&t.name), "obsolete": t.obsolete, "replacement": t.replacement})).collect::<Vec<_>>(),
            "is_a (child,parent)": self.edges,
            "annotations": self.anns.iter().map(|a| json!([a.kind.name(), a.id, short(&a.name), a.term])).collect::<Vec<_>>(),
            "version": [self.version.0, self.version.1, self.version.2],
        })
    }

    /// Stand-alone Rust snippet that rebuilds these facts through the public Builder API
    /// (only for fact sets without obsolete/replacement flags).
    pub fn to_rust(&self, defaults: bool) -> String {
        let mut s = String::from("let mut b = hpo::builder::Builder::new();\n");
        for t in &self.terms {
            s.push_str(&format!("b.new_term({:?}, {}u32);\n", t.name, t.id));
        }
        s.push_str("let mut b = b.terms_complete();\n");
        for (c, p) in &self.edges {
            s.push_str(&format!("b.add_parent({p}u32, {c}u32).unwrap();\n"));
        }
        s.push_str("let mut b = b.connect_all_terms();\n");
        for a in &self.anns {
            let (f, g) = match a.kind {
                Kind::Gene => ("annotate_gene", "add_gene"),
                Kind::Omim => ("annotate_omim_disease", "add_omim_disease"),
                Kind::Orpha => ("annotate_orpha_disease", "add_orpha_disease"),
            };
            match a.term {
                Some(t) => s.push_str(&format!("b.{f}({}u32.into(), {:?}, {}u32.into()).unwrap();\n", a.id, a.name, t)),
                None => s.push_str(&format!("b.{g}({:?}, {}u32.into());\n", a.name, a.id)),
            }
        }
        if defaults {
            s.push_str("let ont = b.calculate_information_content().unwrap().build_with_defaults().unwrap();\n");
        } else {
            s.push_str("let ont = b.calculate_information_content().unwrap().build_minimal();\n");
        }
        s
    }
}

pub fn short(s: &str) -> String {
    if s.len() <= 40 {
        s.to_string()
    } else {
        let mut cut = 20;
        while !s.is_char_boundary(cut) {
            cut -= 1;
        }
        format!("{}...<{} bytes>", &s[..cut], s.len())
    }
}

#[derive(Clone, Debug, Default, PartialEq)]
pub struct RefTerm {
    pub name: String,
    pub obsolete: bool,
    pub replacement: Option<u32>,
    pub parents: BTreeSet<u32>,
    pub children: BTreeSet<u32>,
    pub ancestors: BTreeSet<u32>,
    /// inherited record ids per kind
    pub recs: [BTreeSet<u32>; 3],
}

#[derive(Clone, Debug, Default, PartialEq)]
pub struct RefRec {
    pub name: String,
    pub terms: BTreeSet<u32>,
}

#[derive(Clone, Debug, Default, PartialEq)]
pub struct RefOnt {
    pub terms: BTreeMap<u32, RefTerm>,
    pub recs: [BTreeMap<u32, RefRec>; 3],
    pub version: (u16, u8, u8),
}

#[derive(Clone, Copy, Debug, PartialEq, Eq)]
pub enum Mode {
    Minimal,
    Defaults,
}

impl RefOnt {
    pub fn derive(f: &Facts) -> RefOnt {
        let mut terms: BTreeMap<u32, RefTerm> = BTreeMap::new();
        for t in &f.terms {
            // first fact for an id wins: a convention of the model (the fact sets of the properties carry one name per id; the
            // spaces that repeat an id accept either name)
            terms.entry(t.id).or_insert_with(|| RefTerm { name: t.name.clone(), obsolete: t.obsolete, replacement: t.replacement, ..Default::default() });
        }
        for &(c, p) in &f.edges {
            if terms.contains_key(&c) && terms.contains_key(&p) {
                terms.get_mut(&c).unwrap().parents.insert(p);
                terms.get_mut(&p).unwrap().children.insert(c);
            }
        }
        // transitive closure by repeated DFS
        let ids: Vec<u32> = terms.keys().copied().collect();
        for &id in &ids {
            let mut seen: BTreeSet<u32> = BTreeSet::new();
            let mut stack: Vec<u32> = terms[&id].parents.iter().copied().collect();
            while let Some(x) = stack.pop() {
                if seen.insert(x) {
                    for &p in &terms[&x].parents {
                        stack.push(p);
                    }
                }
            }
            terms.get_mut(&id).unwrap().ancestors = seen;
        }
        let mut recs: [BTreeMap<u32, RefRec>; 3] = Default::default();
        for a in &f.anns {
            let r = recs[a.kind.idx()].entry(a.id).or_insert_with(|| RefRec { name: a.name.clone(), terms: BTreeSet::new() });
            if let Some(t) = a.term {
                r.terms.insert(t);
            }
        }
        // inheritance: term t is linked to r iff r annotated to t or a descendant of t
        for k in 0..3 {
            for (rid, r) in &recs[k] {
                for &t in &r.terms {
                    if let Some(term) = terms.get(&t) {
                        let mut up: Vec<u32> = term.ancestors.iter().copied().collect();
                        up.push(t);
                        for u in up {
                            terms.get_mut(&u).unwrap().recs[k].insert(*rid);
                        }
                    }
                }
            }
        }
        RefOnt { terms, recs, version: f.version }
    }

    pub fn ic(&self, term: u32, kind: Kind) -> f32 {
        let n = self.terms[&term].recs[kind.idx()].len();
        let total = self.recs[kind.idx()].len();
        ic_value(total, n)
    }

    pub fn anc_incl(&self, t: u32) -> BTreeSet<u32> {
        let mut s = self.terms[&t].ancestors.clone();
        s.insert(t);
        s
    }

    /// BFS distance along parent links from `from` up to every ancestor (incl. itself = 0).
    pub fn up_distances(&self, from: u32) -> BTreeMap<u32, usize> {
        let mut d: BTreeMap<u32, usize> = BTreeMap::new();
        let mut q = VecDeque::new();
        d.insert(from, 0);
        q.push_back(from);
        while let Some(x) = q.pop_front() {
            let dx = d[&x];
            for &p in &self.terms[&x].parents {
                if !d.contains_key(&p) {
                    d.insert(p, dx + 1);
                    q.push_back(p);
                }
            }
        }
        d
    }

    /// min over common ancestors (terms included) of the sum of the two upward distances
    pub fn distance(&self, a: u32, b: u32) -> Option<usize> {
        let da = self.up_distances(a);
        let db = self.up_distances(b);
        da.iter().filter_map(|(k, v)| db.get(k).map(|w| v + w)).min()
    }

    pub fn modifier_roots(&self, mode: Mode) -> BTreeSet<u32> {
        match mode {
            Mode::Minimal => BTreeSet::new(),
            Mode::Defaults => self.terms.get(&1).map(|t| t.children.iter().copied().filter(|c| *c != 118).collect()).unwrap_or_default(),
        }
    }

    pub fn categories(&self, mode: Mode) -> BTreeSet<u32> {
        match mode {
            Mode::Minimal => BTreeSet::new(),
            Mode::Defaults => {
                let mut c = self.modifier_roots(mode);
                if let Some(p) = self.terms.get(&118) {
                    c.extend(p.children.iter().copied());
                }
                c
            }
        }
    }

    pub fn is_modifier(&self, t: u32, mode: Mode) -> bool {
        let roots = self.modifier_roots(mode);
        self.anc_incl(t).iter().any(|a| roots.contains(a))
    }

    pub fn term_categories(&self, t: u32, mode: Mode) -> Vec<u32> {
        let cats = self.categories(mode);
        self.anc_incl(t).into_iter().filter(|a| cats.contains(a)).collect()
    }

    /// Whether `build_with_defaults` must succeed.
    pub fn has_roots(&self) -> bool {
        self.terms.contains_key(&1) && self.terms.contains_key(&118)
    }

    /// Reconstruct facts (canonical order) from the model.
    pub fn to_facts(&self) -> Facts {
        let mut f = Facts { version: self.version, ..Default::default() };
        for (id, t) in &self.terms {
            f.terms.push(TermFact { id: *id, name: t.name.clone(), obsolete: t.obsolete, replacement: t.replacement });
            for p in &t.parents {
                f.edges.push((*id, *p));
            }
        }
        for (k, kind) in KINDS.iter().enumerate() {
            for (id, r) in &self.recs[k] {
                if r.terms.is_empty() {
                    f.anns.push(AnnFact { kind: *kind, id: *id, name: r.name.clone(), term: None });
                }
                for t in &r.terms {
                    f.anns.push(AnnFact { kind: *kind, id: *id, name: r.name.clone(), term: Some(*t) });
                }
            }
        }
        f
    }
}

/// -ln(n/N) in f32 with the zero rules.
pub fn ic_value(total: usize, n: usize) -> f32 {
    if total == 0 || n == 0 {
        0.0
    } else {
        let v = -((n as f64) / (total as f64)).ln();
        let v = v as f32;
        if v == 0.0 {
            0.0
        } else {
            v
        }
    }
}
