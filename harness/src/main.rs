//! hpo-verif: bounded exhaustive exploration of the `hpo` crate (built from /repo's working tree)
//! against a reference model. See /verif/DESIGN.md.
//!
//!   hpo-verif <ID> [--tier quick|thorough]            supervisor: shards the exploration over worker processes
//!   hpo-verif <ID> --replay <file>                    re-run exactly the case recorded in a replay file
//!   hpo-verif <ID> --worker w/W [--only ord:case]     (internal) one shard / one isolated case
//!   hpo-verif manifest                                print MANIFEST.json
//!
//! exit 0: property held on everything explored (KNOWN-FINDING lines may be printed)
//! exit 1: VIOLATION property=<ID> replay=<path>
//! exit 2: machinery failure (never a verdict)
#![allow(dead_code)]

mod ctx;
mod encode;
mod jax;
mod meta;
mod model;
mod obs;
mod props;
mod space;
mod sup;
mod bigint;
mod drive;

use ctx::{Ctx, Tier};
use std::time::Duration;

pub const VERIF_DIR: &str = "/verif";

fn usage() -> ! {
    eprintln!("usage: hpo-verif <ID> [--tier quick|thorough] [--replay file] | manifest");
    std::process::exit(2);
}

pub struct Args {
    pub id: String,
    pub tier: Tier,
    pub replay: Option<String>,
    pub worker: Option<(u64, u64)>,
    pub only: Option<(u64, u64)>,
    pub until: Option<(u64, u64)>,
    pub seed: u64,
    pub budget: Duration,
    pub workers: u64,
}

fn parse_args() -> Args {
    let argv: Vec<String> = std::env::args().collect();
    if argv.len() < 2 {
        usage();
    }
    let id = argv[1].clone();
    let mut tier = match std::env::var("VERIF_TIER").ok().as_deref() {
        Some("thorough") => Tier::Thorough,
        _ => Tier::Quick,
    };
    let mut tier_explicit = false;
    let mut replay = None;
    let mut worker = None;
    let mut only = None;
    let mut until = None;
    let mut workers: u64 = std::thread::available_parallelism().map(|n| n.get() as u64).unwrap_or(4).min(16);
    if let Ok(w) = std::env::var("VERIF_WORKERS") {
        if let Ok(w) = w.parse::<u64>() {
            workers = w.max(1);
        }
    }
    let mut i = 2;
    while i < argv.len() {
        match argv[i].as_str() {
            "--tier" => {
                i += 1;
                tier = match argv.get(i).map(|s| s.as_str()) {
                    Some("quick") => Tier::Quick,
                    Some("thorough") => Tier::Thorough,
                    _ => usage(),
                };
                tier_explicit = true;
            }
            "--replay" => {
                i += 1;
                replay = Some(argv.get(i).cloned().unwrap_or_else(|| usage()));
            }
            "--worker" => {
                i += 1;
                let s = argv.get(i).cloned().unwrap_or_else(|| usage());
                let (a, b) = s.split_once('/').unwrap_or_else(|| usage());
                worker = Some((a.parse().unwrap_or_else(|_| usage()), b.parse().unwrap_or_else(|_| usage())));
            }
            "--only" => {
                i += 1;
                let s = argv.get(i).cloned().unwrap_or_else(|| usage());
                let (a, b) = s.split_once(':').unwrap_or_else(|| usage());
                only = Some((a.parse().unwrap_or_else(|_| usage()), b.parse().unwrap_or_else(|_| usage())));
            }
            "--until" => {
                i += 1;
                let s = argv.get(i).cloned().unwrap_or_else(|| usage());
                let (a, b) = s.split_once(':').unwrap_or_else(|| usage());
                until = Some((a.parse().unwrap_or_else(|_| usage()), b.parse().unwrap_or_else(|_| usage())));
            }
            "--workers" => {
                i += 1;
                workers = argv.get(i).and_then(|s| s.parse().ok()).unwrap_or_else(|| usage());
            }
            _ => usage(),
        }
        i += 1;
    }
    let _ = tier_explicit;
    let seed = std::env::var("VERIF_SEED").ok().and_then(|s| s.parse::<i64>().ok()).map(|v| v as u64).unwrap_or(0);
    let default_budget = match tier {
        Tier::Quick => 55,
        Tier::Thorough => 1500,
    };
    let budget = std::env::var("VERIF_BUDGET_S").ok().and_then(|s| s.parse::<u64>().ok()).unwrap_or(default_budget);
    Args { id, tier, replay, worker, only, until, seed, budget: Duration::from_secs(budget), workers }
}

fn main() {
    let argv: Vec<String> = std::env::args().collect();
    if argv.len() >= 2 && argv[1] == "manifest" {
        println!("{}", serde_json::to_string_pretty(&meta::manifest()).unwrap());
        return;
    }
    let args = parse_args();
    if meta::find(&args.id).is_none() {
        eprintln!("unknown property id {}", args.id);
        std::process::exit(2);
    }
    if let Some((w, n)) = args.worker {
        sup::install_abort_handler();
        sup::install_panic_hook();
        let mut ctx = Ctx::new(&args.id, args.tier, args.seed, w, n, args.only, args.budget);
        ctx.until = args.until;
        if args.until.is_some() {
            // prefix replays are not subject to the wall budget
            ctx.deadline = ctx.start + std::time::Duration::from_secs(3600);
        }
        let r = ctx::guard(|| props::run(&args.id, &mut ctx));
        match r {
            Ok(()) => {
                println!("{}", serde_json::to_string(&ctx.to_json()).unwrap());
                std::process::exit(0);
            }
            Err(msg) => {
                eprintln!("HARNESS-PANIC {} at {}", msg, sup::last_panic());
                std::process::exit(3);
            }
        }
    }
    let code = if let Some(path) = args.replay.clone() { sup::replay(&args, &path) } else { sup::supervise(&args) };
    std::process::exit(code);
}
