//! Independent encoder for the binary ontology format v1/v2/v3, written from the documented layout
//! tables (doc comments of `Ontology::as_bytes`, `HpoTermInternal::as_bytes`/`parents_as_byte`,
//! `Gene::as_bytes`, `Disease::as_bytes`, `from_bytes_v1`, `from_bytes_v2`), plus an independent
//! splitter used to validate the encoder against files written by the crate itself.
//!
//! Layout (all integers big-endian):
//!   v1: [terms][parents][genes][omim]                      each section: u32 length + payload
//!   v2: "HPO" 0x02 year(u16) month(u8) day(u8) [terms][parents][genes][omim]
//!   v3: "HPO" 0x03 year(u16) month(u8) day(u8) [terms][parents][genes][omim][orpha]
//!   term v1:  u32 total | u32 id | u8 name_len | name
//!   term v2+: u32 total | u32 id | u8 name_len | name | u8 flags(bit0 = obsolete) | u32 replacement (0 = none)
//!   parents:  u32 n_parents | u32 term id | n_parents x u32 parent id
//!   gene:     u32 total | u32 id | u8 name_len | name | u32 n_terms | n_terms x u32
//!   disease:  u32 total | u32 id | u32 name_len | name | u32 n_terms | n_terms x u32

use crate::model::{Facts, Kind, KINDS};

fn be(v: u32) -> [u8; 4] {
    v.to_be_bytes()
}

#[derive(Clone, Debug)]
pub struct EncOpts {
    pub version: u8,
    /// order of the per-term parent records (indices into facts.terms); None = term order
    pub parents_order: Option<Vec<usize>>,
    /// leave out parent records of terms without parents
    pub omit_empty_parent_records: bool,
    /// write every gene / disease record that lists at least one term twice: first with all but its last
    /// term, then completely (the layout does not forbid a record id to occur twice; whichever way a decoder
    /// resolves it - first wins, last wins, merge - links and record must stay consistent with each other)
    pub repeat_records: bool,
    /// one parent record per (term, parent) link instead of one record per term (a term without parents still
    /// gets its empty record unless `omit_empty_parent_records`). The layout tables do not say that a term id
    /// occurs in one parent record only; what a decoder does with such a file is unspecified.
    pub split_parent_records: bool,
    /// the first parent id of every non-empty parent record is listed a second time at the end of the record
    /// (the count field includes the repetition). Unspecified for decoders.
    pub repeat_parent_ids: bool,
    /// the first term id of every gene / disease record that lists terms is listed a second time at the end of
    /// the record (count and total length include the repetition). Unspecified for decoders.
    pub repeat_term_ids: bool,
    /// write the ids inside a parent record / a gene or disease record in the order of the facts instead of
    /// ascending. The crate's own writer emits ascending lists and the layout tables do not say whether a reader
    /// has to accept another order, so only the spaces that enumerate id orders (with a refuse-or-exact oracle)
    /// ask for it.
    pub ids_in_list_order: bool,
}

impl EncOpts {
    pub fn v(version: u8) -> EncOpts {
        EncOpts { version, parents_order: None, omit_empty_parent_records: false, repeat_records: false, split_parent_records: false, repeat_parent_ids: false, repeat_term_ids: false, ids_in_list_order: false }
    }
    /// ids inside records in the order of the facts
    pub fn list_order(version: u8) -> EncOpts {
        EncOpts { ids_in_list_order: true, ..EncOpts::v(version) }
    }
}

pub fn term_record(id: u32, name: &str, obsolete: bool, replacement: Option<u32>, version: u8) -> Vec<u8> {
    let nb = name.as_bytes();
    assert!(nb.len() <= 255, "encoder: term names are at most 255 bytes in the format");
    let mut r = vec![];
    let total = if version == 1 { 4 + 4 + 1 + nb.len() } else { 4 + 4 + 1 + nb.len() + 1 + 4 };
    r.extend_from_slice(&be(total as u32));
    r.extend_from_slice(&be(id));
    r.push(nb.len() as u8);
    r.extend_from_slice(nb);
    if version >= 2 {
        r.push(if obsolete { 1 } else { 0 });
        r.extend_from_slice(&be(replacement.unwrap_or(0)));
    }
    r
}

pub fn parents_record(term: u32, parents: &[u32]) -> Vec<u8> {
    let mut r = vec![];
    r.extend_from_slice(&be(parents.len() as u32));
    r.extend_from_slice(&be(term));
    for p in parents {
        r.extend_from_slice(&be(*p));
    }
    r
}

pub fn gene_record(id: u32, name: &str, terms: &[u32]) -> Vec<u8> {
    let nb = name.as_bytes();
    assert!(nb.len() <= 255, "encoder: gene names are at most 255 bytes in the format");
    let mut r = vec![];
    let total = 4 + 4 + 1 + nb.len() + 4 + 4 * terms.len();
    r.extend_from_slice(&be(total as u32));
    r.extend_from_slice(&be(id));
    r.push(nb.len() as u8);
    r.extend_from_slice(nb);
    r.extend_from_slice(&be(terms.len() as u32));
    for t in terms {
        r.extend_from_slice(&be(*t));
    }
    r
}

pub fn disease_record(id: u32, name: &str, terms: &[u32]) -> Vec<u8> {
    let nb = name.as_bytes();
    let mut r = vec![];
    let total = 4 + 4 + 4 + nb.len() + 4 + 4 * terms.len();
    r.extend_from_slice(&be(total as u32));
    r.extend_from_slice(&be(id));
    r.extend_from_slice(&be(nb.len() as u32));
    r.extend_from_slice(nb);
    r.extend_from_slice(&be(terms.len() as u32));
    for t in terms {
        r.extend_from_slice(&be(*t));
    }
    r
}

fn section(out: &mut Vec<u8>, payload: &[u8]) {
    out.extend_from_slice(&be(payload.len() as u32));
    out.extend_from_slice(payload);
}

/// Records of one annotation kind in order of first appearance; term ids in supply order
/// (repeated facts are listed once: a record lists a set of terms).
pub fn records_of(f: &Facts, kind: Kind) -> Vec<(u32, String, Vec<u32>)> {
    let mut recs: Vec<(u32, String, Vec<u32>)> = vec![];
    for a in f.anns.iter().filter(|a| a.kind == kind) {
        let pos = match recs.iter().position(|r| r.0 == a.id) {
            Some(p) => p,
            None => {
                recs.push((a.id, a.name.clone(), vec![]));
                recs.len() - 1
            }
        };
        if let Some(t) = a.term {
            if !recs[pos].2.contains(&t) {
                recs[pos].2.push(t);
            }
        }
    }
    recs
}

/// The sections of a file as lists of records (so callers can permute / damage them).
#[derive(Clone, Debug, PartialEq, Eq)]
pub struct Sections {
    pub version: u8,
    pub hpo_version: (u16, u8, u8),
    pub terms: Vec<Vec<u8>>,
    pub parents: Vec<Vec<u8>>,
    pub recs: [Vec<Vec<u8>>; 3],
}

impl Sections {
    pub fn from_facts(f: &Facts, o: &EncOpts) -> Sections {
        let v = o.version;
        let terms = f.terms.iter().map(|t| term_record(t.id, &t.name, t.obsolete, t.replacement, v)).collect();
        let order: Vec<usize> = o.parents_order.clone().unwrap_or_else(|| (0..f.terms.len()).collect());
        let mut parents = vec![];
        for i in order {
            let id = f.terms[i].id;
            let mut ps: Vec<u32> = f.edges.iter().filter(|e| e.0 == id).map(|e| e.1).collect();
            if !o.ids_in_list_order {
                ps.sort_unstable();
            }
            if ps.is_empty() && o.omit_empty_parent_records {
                continue;
            }
            let groups: Vec<Vec<u32>> = if o.split_parent_records && !ps.is_empty() { ps.iter().map(|p| vec![*p]).collect() } else { vec![ps] };
            for mut g in groups {
                if o.repeat_parent_ids && !g.is_empty() {
                    g.push(g[0]);
                }
                parents.push(parents_record(id, &g));
            }
        }
        let mut recs: [Vec<Vec<u8>>; 3] = Default::default();
        for k in KINDS {
            for (id, name, terms) in records_of(f, k) {
                let write = |list: &[u32]| -> Vec<u8> {
                    let mut l = list.to_vec();
                    if !o.ids_in_list_order {
                        l.sort_unstable();
                    }
                    if o.repeat_term_ids && !l.is_empty() {
                        l.push(l[0]);
                    }
                    match k {
                        Kind::Gene => gene_record(id, &name, &l),
                        _ => disease_record(id, &name, &l),
                    }
                };
                if o.repeat_records && !terms.is_empty() {
                    recs[k.idx()].push(write(&terms[..terms.len() - 1]));
                }
                recs[k.idx()].push(write(&terms));
            }
        }
        Sections { version: v, hpo_version: f.version, terms, parents, recs }
    }

    pub fn to_bytes(&self) -> Vec<u8> {
        let mut out = vec![];
        if self.version >= 2 {
            out.extend_from_slice(b"HPO");
            out.push(self.version);
            out.extend_from_slice(&self.hpo_version.0.to_be_bytes());
            out.push(self.hpo_version.1);
            out.push(self.hpo_version.2);
        }
        section(&mut out, &self.terms.concat());
        section(&mut out, &self.parents.concat());
        section(&mut out, &self.recs[0].concat());
        section(&mut out, &self.recs[1].concat());
        if self.version >= 3 {
            section(&mut out, &self.recs[2].concat());
        }
        out
    }

    /// Independent splitter: cut a file into sections and records using only the length fields.
    pub fn split(bytes: &[u8]) -> Result<Sections, String> {
        let (version, mut pos) = if bytes.len() >= 4 && &bytes[0..3] == b"HPO" { (bytes[3], 4usize) } else { (1u8, 0usize) };
        let rd = |p: usize| -> Result<u32, String> {
            if p + 4 > bytes.len() {
                return Err(format!("short read at {p}"));
            }
            Ok(u32::from_be_bytes([bytes[p], bytes[p + 1], bytes[p + 2], bytes[p + 3]]))
        };
        let mut hpo_version = (0u16, 0u8, 0u8);
        if version >= 2 {
            if bytes.len() < 8 {
                return Err("short header".into());
            }
            hpo_version = (u16::from_be_bytes([bytes[4], bytes[5]]), bytes[6], bytes[7]);
            pos = 8;
        }
        let n_sections = if version >= 3 { 5 } else { 4 };
        let mut raw: Vec<&[u8]> = vec![];
        for _ in 0..n_sections {
            let len = rd(pos)? as usize;
            if pos + 4 + len > bytes.len() {
                return Err("section exceeds file".into());
            }
            raw.push(&bytes[pos + 4..pos + 4 + len]);
            pos += 4 + len;
        }
        if pos != bytes.len() {
            return Err("trailing bytes".into());
        }
        // length-prefixed records
        let cut = |s: &[u8]| -> Result<Vec<Vec<u8>>, String> {
            let mut v = vec![];
            let mut p = 0;
            while p < s.len() {
                if p + 4 > s.len() {
                    return Err("short record".into());
                }
                let l = u32::from_be_bytes([s[p], s[p + 1], s[p + 2], s[p + 3]]) as usize;
                if l < 4 || p + l > s.len() {
                    return Err("bad record length".into());
                }
                v.push(s[p..p + l].to_vec());
                p += l;
            }
            Ok(v)
        };
        // parent records: n_parents-prefixed
        let cut_parents = |s: &[u8]| -> Result<Vec<Vec<u8>>, String> {
            let mut v = vec![];
            let mut p = 0;
            while p < s.len() {
                if p + 8 > s.len() {
                    return Err("short parents record".into());
                }
                let n = u32::from_be_bytes([s[p], s[p + 1], s[p + 2], s[p + 3]]) as usize;
                let l = 8 + 4 * n;
                if p + l > s.len() {
                    return Err("bad parents record".into());
                }
                v.push(s[p..p + l].to_vec());
                p += l;
            }
            Ok(v)
        };
        Ok(Sections {
            version,
            hpo_version,
            terms: cut(raw[0])?,
            parents: cut_parents(raw[1])?,
            recs: [cut(raw[2])?, cut(raw[3])?, if version >= 3 { cut(raw[4])? } else { vec![] }],
        })
    }
}

pub fn encode(f: &Facts, o: &EncOpts) -> Vec<u8> {
    Sections::from_facts(f, o).to_bytes()
}

/// Project facts to what a format version can carry (v1: no release version, flags, replacements,
/// ORPHA; v2: no ORPHA).
pub fn project(f: &Facts, version: u8) -> Facts {
    let mut g = f.clone();
    if version < 3 {
        g.anns.retain(|a| a.kind != Kind::Orpha);
    }
    if version < 2 {
        g.version = (0, 0, 0);
        for t in g.terms.iter_mut() {
            t.obsolete = false;
            t.replacement = None;
        }
    }
    g
}
