//! C12 - term-id groups (`HpoGroup`) behave as sorted sets; ancestor queries are their set algebra.
//!
//! Reference model: `BTreeSet<u32>`. Every observation of a live group (iteration, `len`,
//! `is_empty`, `get`, `contains`) is taken into a `Snap` and compared with the snapshot the
//! model set demands (`as_bytes` is taken too, but only compared between groups of equal content). Histories are executed step by step; the breadth-first
//! pass merges states by content and additionally compares the routes with each other.

use super::c01::{POOL, POOL_ROOTS};
use crate::ctx::{guard, Ctx};
use crate::drive;
use crate::encode::{self, EncOpts};
use crate::model::{Facts, Mode, RefOnt};
use crate::space::all_dags;
use hpo::annotations::AnnotationId;
use hpo::term::HpoGroup;
use hpo::{HpoTerm, HpoTermId, Ontology};
use serde_json::{json, Value};
use std::cell::Cell;
use std::collections::{BTreeMap, BTreeSet, HashSet};

/// (site, signature, human readable difference)
type Diff = (String, String, String);
/// (site, signature, detail)
type Viol = (String, String, Value);

const SIG_INSERT_RET: &str = "return value does not tell whether the id was newly inserted";
const SIG_ORDER: &str = "content is not strictly ascending (unsorted or duplicated ids)";
const SIG_MEMBERS: &str = "content is not the set-theoretic result (missing or extra ids)";
const SIG_ROUTE: &str = "same content reached by a different insertion order behaves differently";
const SIG_PANIC: &str = "panics";
const SIG_KNOWN_UNION: &str = "excludes self and other although the prose documentation says they are included";
const SIG_NEITHER_UNION: &str = "is neither anc(a)\u{222a}anc(b) nor anc(a)\u{222a}anc(b)\u{222a}{a,b}";

const SIG_MIXED_CASE: &str = "readings mixed: some pairs of one ontology are answered with self and other included, others without (no single reading of the documentation covers both)";
const SIG_MIXED_RUN: &str = "readings mixed: this ontology is answered in the other reading (self and other included / not included) than the first ontology this process asked";
const SIG_TWIN: &str = "yields different ids than its _ids twin";

thread_local! {
    /// Breadcrumb: the public API function being executed (blamed when the library panics).
    static AT: Cell<&'static str> = const { Cell::new("HpoGroup") };
    /// all_union_ancestor_ids / all_union_ancestors: the reading (1 = with self and other, 2 = without) in which the
    /// first identifiable pair of the current ontology resp. of this process was answered. Either reading is
    /// accepted, but it is ONE reading: the choice of one pair binds every other pair and both functions.
    static READING_CASE: Cell<u8> = const { Cell::new(0) };
    static READING_RUN: Cell<u8> = const { Cell::new(0) };
}
fn reading_new_ontology() {
    READING_CASE.with(|c| c.set(0));
}
/// Book the reading of one answer; the signature to report when it is not the reading chosen before.
fn note_reading(rd: u8) -> Option<&'static str> {
    let c = READING_CASE.with(|c| c.get());
    let r = READING_RUN.with(|c| c.get());
    if c == 0 {
        READING_CASE.with(|x| x.set(rd));
    }
    if r == 0 {
        READING_RUN.with(|x| x.set(rd));
    }
    if c != 0 && c != rd {
        Some(SIG_MIXED_CASE)
    } else if r != 0 && r != rd {
        Some(SIG_MIXED_RUN)
    } else {
        None
    }
}
fn at(s: &'static str) {
    AT.with(|c| c.set(s));
}
fn at_get() -> &'static str {
    AT.with(|c| c.get())
}

fn tid(v: u32) -> HpoTermId {
    HpoTermId::from_u32(v)
}

/// FNV-1a over u32 values (outcome fingerprints).
struct Fp(u64);
impl Fp {
    fn new() -> Fp {
        Fp(0xcbf29ce484222325)
    }
    fn u(&mut self, v: u32) {
        for b in v.to_le_bytes() {
            self.0 ^= b as u64;
            self.0 = self.0.wrapping_mul(0x100000001b3);
        }
    }
    fn set(&mut self, s: &[u32]) {
        self.u(s.len() as u32);
        for v in s {
            self.u(*v);
        }
    }
}

/// Deterministic generator (fixed seeds, Knuth's MMIX LCG) for the listed irregular families:
/// the same family in every process and every run - nothing is sampled at run time.
struct Lcg(u64);
impl Lcg {
    fn next(&mut self) -> u64 {
        self.0 = self.0.wrapping_mul(6364136223846793005).wrapping_add(1442695040888963407);
        self.0 >> 33
    }
    fn below(&mut self, n: usize) -> usize {
        (self.next() % n as u64) as usize
    }
    fn shuffle<T>(&mut self, v: &mut [T]) {
        for i in (1..v.len()).rev() {
            let j = self.below(i + 1);
            v.swap(i, j);
        }
    }
    /// k distinct ids of `universe`, ascending
    fn draw(&mut self, universe: &[u32], k: usize) -> Vec<u32> {
        let mut u = universe.to_vec();
        self.shuffle(&mut u);
        u.truncate(k);
        u.sort_unstable();
        u
    }
}

// ------------------------------------------------------------------------------------------
// observation of one group
// ------------------------------------------------------------------------------------------

#[derive(Clone, Debug, PartialEq, Eq)]
struct Snap {
    iter: Vec<u32>,
    into_iter: Vec<u32>,
    len: usize,
    is_empty: bool,
    /// get(i) for i in 0..=max(len, iter.len())
    gets: Vec<Option<u32>>,
    /// contains(p) for every probe
    contains: Vec<bool>,
    bytes: Vec<u8>,
}

impl Snap {
    fn of(g: &HpoGroup, probes: &[u32]) -> Snap {
        at("HpoGroup::iter");
        let iter: Vec<u32> = g.iter().map(|i| i.as_u32()).collect();
        at("<&HpoGroup as IntoIterator>::into_iter");
        let mut into_iter: Vec<u32> = Vec::with_capacity(iter.len());
        for id in g {
            into_iter.push(id.as_u32());
        }
        at("HpoGroup::len");
        let len = g.len();
        at("HpoGroup::is_empty");
        let is_empty = g.is_empty();
        at("HpoGroup::get");
        let gets = (0..=len.max(iter.len())).map(|i| g.get(i).map(|x| x.as_u32())).collect();
        at("HpoGroup::contains");
        let contains = probes.iter().map(|p| g.contains(&tid(*p))).collect();
        at("HpoGroup::as_bytes");
        let bytes = g.as_bytes();
        Snap { iter, into_iter, len, is_empty, gets, contains, bytes }
    }

    /// What a group holding exactly the ids of `sorted` (ascending, distinct) must show.
    fn expected(sorted: &[u32], probes: &[u32]) -> Snap {
        let mut gets: Vec<Option<u32>> = sorted.iter().map(|x| Some(*x)).collect();
        gets.push(None);
        let mut bytes = Vec::with_capacity(sorted.len() * 4);
        for x in sorted {
            bytes.extend_from_slice(&x.to_be_bytes());
        }
        Snap {
            iter: sorted.to_vec(),
            into_iter: sorted.to_vec(),
            len: sorted.len(),
            is_empty: sorted.is_empty(),
            gets,
            contains: probes.iter().map(|p| sorted.binary_search(p).is_ok()).collect(),
            bytes,
        }
    }
}

fn strictly_ascending(v: &[u32]) -> bool {
    v.windows(2).all(|w| w[0] < w[1])
}

/// The k values at which partly consumed iterators are examined: every k for sequences of up to 8
/// items; for longer ones the borders (plus the inline limit for id iterators, the 8-bit border for
/// resolving iterators), because every examination walks the whole sequence.
fn ks_for(len: usize, resolving: bool) -> Vec<usize> {
    let mut v: Vec<usize> = if len <= 8 {
        (0..=len + 1).collect()
    } else if resolving {
        vec![0, 1, len]
    } else {
        vec![0, 1, 30, 31, len - 1, len]
    };
    if len > 256 {
        v.push(256);
    }
    v.sort_unstable();
    v.dedup();
    v
}

const SIG_IT_COUNT: &str = "count() after taking k items is not the number of remaining items";
const SIG_IT_HINT: &str = "size_hint() after taking k items excludes the number of remaining items";
const SIG_IT_NTH: &str = "nth(k) is not the k-th item of the forward iteration";
const SIG_IT_SKIP: &str = "skip(k) does not yield the forward iteration from item k on";
const SIG_IT_LAST: &str = "last() after taking k items is not the last item of the forward iteration";

/// Iterator adaptors of one iterator type must agree with its own forward iteration
/// (`mk` yields a fresh iterator each time; methods are called on the iterator itself, not through `map`).
fn iter_protocol<I: Iterator, M: Fn() -> I, K: Fn(I::Item) -> u32>(mk: M, key: K, site: &'static str, resolving: bool) -> Result<(), Diff> {
    at(site);
    let mut fwd: Vec<u32> = vec![];
    let mut it = mk();
    while let Some(x) = it.next() {
        fwd.push(key(x));
    }
    let len = fwd.len();
    let fail = |sig: &str, what: String| Err((site.to_string(), sig.to_string(), format!("{what}; forward iteration yields {fwd:?}")));
    let taken = |k: usize| -> I {
        let mut it = mk();
        for _ in 0..k {
            it.next();
        }
        it
    };
    for k in ks_for(len, resolving) {
        let rem = len.saturating_sub(k);
        let c = taken(k).count();
        if c != rem {
            return fail(SIG_IT_COUNT, format!("k = {k}: count() = {c}, {rem} items remain"));
        }
        let (lo, hi) = taken(k).size_hint();
        if lo > rem || hi.map_or(false, |h| h < rem) {
            return fail(SIG_IT_HINT, format!("k = {k}: size_hint() = ({lo}, {hi:?}), {rem} items remain"));
        }
        let n = mk().nth(k).map(&key);
        if n != fwd.get(k).copied() {
            return fail(SIG_IT_NTH, format!("nth({k}) = {n:?}"));
        }
        let sk: Vec<u32> = mk().skip(k).map(&key).collect();
        if sk[..] != fwd[k.min(len)..] {
            return fail(SIG_IT_SKIP, format!("skip({k}) yields {sk:?}"));
        }
        let l = taken(k).last().map(&key);
        let want = if rem > 0 { fwd.last().copied() } else { None };
        if l != want {
            return fail(SIG_IT_LAST, format!("k = {k}: last() = {l:?}"));
        }
    }
    Ok(())
}

/// `iter()` and `(&g).into_iter()` of a group (HpoGroup has no owned IntoIterator).
fn group_iter_protocol(g: &HpoGroup) -> Result<(), Diff> {
    iter_protocol(|| g.iter(), |i| i.as_u32(), "HpoGroup::iter", false)?;
    if g.len() > 8 {
        // same iterator type; the long walk is done once
        return Ok(());
    }
    iter_protocol(|| g.into_iter(), |i| i.as_u32(), "<&HpoGroup as IntoIterator>::into_iter", false)
}

/// First difference between an observation and the expectation. `producer` is the API function
/// that created / last modified the group: it is blamed when the *content* is wrong; the
/// accessors are blamed when the content is right but they misreport it.
fn diff(obs: &Snap, exp: &Snap, producer: &str, probes: &[u32]) -> Option<Diff> {
    let d = |site: &str, sig: &str, what: String| Some((site.to_string(), sig.to_string(), what));
    if obs.iter != exp.iter {
        let sig = if strictly_ascending(&obs.iter) { SIG_MEMBERS } else { SIG_ORDER };
        return d(producer, sig, format!("iter() yields {:?}, expected {:?}", obs.iter, exp.iter));
    }
    if obs.into_iter != exp.iter {
        return d("<&HpoGroup as IntoIterator>::into_iter", "yields something else than iter()", format!("{:?} vs {:?}", obs.into_iter, exp.iter));
    }
    if obs.len != exp.len {
        return d("HpoGroup::len", "differs from the number of distinct ids", format!("len() = {}, content {:?}", obs.len, exp.iter));
    }
    if obs.is_empty != exp.is_empty {
        return d("HpoGroup::is_empty", "disagrees with the content", format!("is_empty() = {}, content {:?}", obs.is_empty, exp.iter));
    }
    if obs.gets != exp.gets {
        return d("HpoGroup::get", "get(i) is not the i-th smallest id, or get(len) is not None", format!("get(0..=len) = {:?}, expected {:?}", obs.gets, exp.gets));
    }
    if obs.contains != exp.contains {
        let wrong: Vec<String> = (0..probes.len()).filter(|i| obs.contains[*i] != exp.contains[*i]).map(|i| format!("contains({}) = {}", probes[i], obs.contains[i])).collect();
        return d("HpoGroup::contains", "membership disagrees with the set of inserted ids", format!("{} with content {:?}", wrong.join(", "), exp.iter));
    }
    // as_bytes: the byte layout is the business of the binary-format properties (C07 / C08), not of this one. It is
    // still called in every observation (it must not panic) and kept in the snapshot, so that two groups of equal
    // content - other routes, other operator forms, the operand before and after an operation - must serialise
    // alike; `exp.bytes` (4 big-endian bytes per id) is deliberately not compared
    None
}

/// Full check of a group that some `producer` returned: snapshot against the model set, then the
/// group must stay a working set: inserting each of `futures` into a clone reports newness
/// correctly and gives the right content, and the original is not affected by that.
fn check_group(g: &HpoGroup, expect: &BTreeSet<u32>, probes: &[u32], futures: &[u32], producer: &'static str) -> Result<(), Diff> {
    let sorted: Vec<u32> = expect.iter().copied().collect();
    let exp = Snap::expected(&sorted, probes);
    let obs = Snap::of(g, probes);
    if let Some(d) = diff(&obs, &exp, producer, probes) {
        return Err(d);
    }
    group_iter_protocol(g)?;
    for &y in futures {
        at("HpoGroup::clone");
        let mut c = g.clone();
        at("HpoGroup::insert");
        let ret = c.insert(y);
        let mut m = expect.clone();
        let fresh = m.insert(y);
        if ret != fresh {
            return Err(("HpoGroup::insert".into(), SIG_INSERT_RET.into(), format!("on the group {sorted:?} returned by {producer}: insert({y}) returned {ret}, expected {fresh}")));
        }
        let ms: Vec<u32> = m.into_iter().collect();
        if let Some((site, sig, what)) = diff(&Snap::of(&c, probes), &Snap::expected(&ms, probes), "HpoGroup::insert", probes) {
            return Err((site, sig, format!("on the group {sorted:?} returned by {producer}, after insert({y}): {what}")));
        }
    }
    if !futures.is_empty() && Snap::of(g, probes) != obs {
        return Err(("HpoGroup::clone".into(), "inserting into a clone changes the original".into(), format!("group {sorted:?} returned by {producer}")));
    }
    Ok(())
}

// ------------------------------------------------------------------------------------------
// live histories
// ------------------------------------------------------------------------------------------

#[derive(Clone, Copy, Debug)]
enum Op {
    Insert(u32),
    Clear,
}

/// (site, source text, constructor)
const STARTS: [(&str, &str, fn() -> HpoGroup); 6] = [
    ("HpoGroup::new", "HpoGroup::new()", HpoGroup::new),
    ("HpoGroup::with_capacity", "HpoGroup::with_capacity(0)", || HpoGroup::with_capacity(0)),
    ("HpoGroup::with_capacity", "HpoGroup::with_capacity(1)", || HpoGroup::with_capacity(1)),
    ("HpoGroup::with_capacity", "HpoGroup::with_capacity(30)", || HpoGroup::with_capacity(30)),
    ("HpoGroup::with_capacity", "HpoGroup::with_capacity(31)", || HpoGroup::with_capacity(31)),
    ("HpoGroup::with_capacity", "HpoGroup::with_capacity(100)", || HpoGroup::with_capacity(100)),
];

fn rust_ops(start: usize, ops: &[Op]) -> String {
    let mut s = format!("use hpo::annotations::AnnotationId;\nuse hpo::term::HpoGroup;\nlet mut g = {};\n", STARTS[start].1);
    for op in ops {
        match op {
            Op::Insert(x) => s.push_str(&format!("println!(\"{{}}\", g.insert({x}u32));\n")),
            Op::Clear => s.push_str("g.clear();\n"),
        }
    }
    s.push_str("println!(\"{:?} len={} empty={}\", g.iter().map(|i| i.as_u32()).collect::<Vec<_>>(), g.len(), g.is_empty());\n");
    s
}

/// A real group driven next to its model; every step is observed completely.
struct Live<'p> {
    g: HpoGroup,
    model: BTreeSet<u32>,
    ops: Vec<Op>,
    start: usize,
    probes: &'p [u32],
    observations: u64,
}

impl<'p> Live<'p> {
    fn start(start: usize, probes: &'p [u32]) -> Result<Live<'p>, Viol> {
        at(STARTS[start].0);
        let g = (STARTS[start].2)();
        let mut l = Live { g, model: BTreeSet::new(), ops: vec![], start, probes, observations: 0 };
        l.check(STARTS[start].0)?;
        Ok(l)
    }

    fn fail(&self, d: Diff) -> Viol {
        let hist: Vec<String> = self.ops.iter().map(|o| match o { Op::Insert(x) => format!("insert({x})"), Op::Clear => "clear()".to_string() }).collect();
        let content: Vec<u32> = self.model.iter().copied().collect();
        (d.0, d.1, json!({"start": STARTS[self.start].1, "history (failing step last)": hist, "expected_content": content, "difference": d.2, "rust": rust_ops(self.start, &self.ops)}))
    }

    fn check(&mut self, producer: &str) -> Result<(), Viol> {
        let sorted: Vec<u32> = self.model.iter().copied().collect();
        let exp = Snap::expected(&sorted, self.probes);
        let obs = Snap::of(&self.g, self.probes);
        self.observations += 1;
        if let Some(d) = diff(&obs, &exp, producer, self.probes) {
            return Err(self.fail(d));
        }
        match group_iter_protocol(&self.g) {
            Err(d) => Err(self.fail(d)),
            Ok(()) => Ok(()),
        }
    }

    fn insert(&mut self, x: u32) -> Result<(), Viol> {
        self.ops.push(Op::Insert(x));
        at("HpoGroup::insert");
        // both argument types of `insert<I: Into<HpoTermId>>` are used, alternating
        let ret = if self.ops.len() % 2 == 0 { self.g.insert(x) } else { self.g.insert(tid(x)) };
        let fresh = self.model.insert(x);
        if ret != fresh {
            return Err(self.fail(("HpoGroup::insert".into(), SIG_INSERT_RET.into(), format!("insert({x}) returned {ret}, expected {fresh}"))));
        }
        self.check("HpoGroup::insert")
    }

    /// Insert with the cheap per-step checks only (return value, len, contains and get of the inserted id);
    /// used between the fully observed prefixes of long runs.
    fn insert_quiet(&mut self, x: u32) -> Result<(), Viol> {
        self.ops.push(Op::Insert(x));
        at("HpoGroup::insert");
        let ret = if self.ops.len() % 2 == 0 { self.g.insert(x) } else { self.g.insert(tid(x)) };
        let fresh = self.model.insert(x);
        if ret != fresh {
            return Err(self.fail(("HpoGroup::insert".into(), SIG_INSERT_RET.into(), format!("insert({x}) returned {ret}, expected {fresh}"))));
        }
        at("HpoGroup::len");
        let len = self.g.len();
        if len != self.model.len() {
            return Err(self.fail(("HpoGroup::len".into(), "differs from the number of distinct ids".into(), format!("len() = {len} after insert({x}), expected {}", self.model.len()))));
        }
        at("HpoGroup::contains");
        if !self.g.contains(&tid(x)) {
            return Err(self.fail(("HpoGroup::contains".into(), "membership disagrees with the set of inserted ids".into(), format!("contains({x}) = false directly after insert({x})"))));
        }
        let rank = self.model.range(..x).count();
        at("HpoGroup::get");
        let got = self.g.get(rank).map(|i| i.as_u32());
        if got != Some(x) {
            return Err(self.fail(("HpoGroup::get".into(), "get(i) is not the i-th smallest id, or get(len) is not None".into(), format!("after insert({x}): get({rank}) = {got:?}, expected Some({x})"))));
        }
        Ok(())
    }

    fn clear(&mut self) -> Result<(), Viol> {
        self.ops.push(Op::Clear);
        at("HpoGroup::clear");
        self.g.clear();
        self.model.clear();
        self.check("HpoGroup::clear")
    }
}

fn panic_viol(msg: String, case: Value) -> Viol {
    (at_get().to_string(), SIG_PANIC.to_string(), json!({"case": case, "panic": msg, "blamed": "the API function that was executing when the panic happened"}))
}

/// k-th sequence (most significant digit first) of `len` digits in base `base`.
fn digits(mut k: usize, len: usize, base: usize) -> Vec<usize> {
    let mut v = vec![0; len];
    for i in (0..len).rev() {
        v[i] = k % base;
        k /= base;
    }
    v
}

// ---- space: all insertion sequences ----------------------------------------------------------

const A5: [u32; 5] = [0, 1, 2, 3, u32::MAX];
const A5_PROBES: [u32; 7] = [0, 1, 2, 3, u32::MAX, 4, u32::MAX - 1];

fn histories(ctx: &mut Ctx) {
    let max_len = if ctx.tier.thorough() { 9 } else { 6 };
    let total: usize = (0..=max_len).map(|l| 5usize.pow(l as u32)).sum();
    ctx.space(
        "histories/all-insert-sequences",
        &format!("all {total} insertion sequences of length 0..={max_len} over {{0,1,2,3,u32::MAX}}, shortest first; every step observed (insert's return, contains for the alphabet + 2 absent ids, len, is_empty, iter, into_iter, get(0..=len), as_bytes); one case = (length, first two ids)"),
    );
    for len in 0..=max_len {
        let p = len.min(2);
        for pi in 0..5usize.pow(p as u32) {
            if !ctx.take() {
                continue;
            }
            let prefix = digits(pi, p, 5);
            let rest = len - p;
            let n = 5usize.pow(rest as u32);
            let mut fp = Fp::new();
            let mut nontrivial = 0u64;
            let mut obs = 0u64;
            let mut first_fail: Option<Viol> = None;
            for si in 0..n {
                let mut seq: Vec<u32> = prefix.iter().map(|i| A5[*i]).collect();
                seq.extend(digits(si, rest, 5).iter().map(|i| A5[*i]));
                let dup = (0..seq.len()).any(|i| seq[..i].contains(&seq[i]));
                let mid = (0..seq.len()).any(|i| seq[..i].iter().any(|e| *e > seq[i]));
                if dup && mid {
                    nontrivial += 1;
                }
                let r = guard(|| -> Result<(u64, Vec<u32>), Viol> {
                    let mut l = Live::start(0, &A5_PROBES)?;
                    for x in &seq {
                        l.insert(*x)?;
                    }
                    Ok((l.observations, l.model.iter().copied().collect()))
                });
                match r {
                    Ok(Ok((o, content))) => {
                        obs += o;
                        let mut f = Fp::new();
                        f.set(&content);
                        ctx.outcome(f.0);
                        fp.set(&content);
                    }
                    Ok(Err(v)) => {
                        if first_fail.is_none() {
                            first_fail = Some(v.clone());
                        }
                        ctx.violation(&v.0, &v.1, v.2);
                    }
                    Err(msg) => {
                        let v = panic_viol(msg, json!({"history": seq, "rust": rust_ops(0, &seq.iter().map(|x| Op::Insert(*x)).collect::<Vec<_>>())}));
                        ctx.violation(&v.0, &v.1, v.2);
                    }
                }
            }
            ctx.states(n as u64);
            ctx.transitions((n * len) as u64);
            ctx.execs(n as u64);
            ctx.validateds(n as u64);
            ctx.nontrivials(nontrivial);
            ctx.bump("step_observations", obs);
            if len >= 3 {
                ctx.sample(|| json!({"length": len, "first_two": [A5[prefix[0]], A5[prefix[1]]], "sequences": n, "example": {"history": [A5[prefix[0]], A5[prefix[1]], A5[0]], "content": BTreeSet::from([A5[prefix[0]], A5[prefix[1]], A5[0]])}}));
            }
        }
    }
}

// ---- space: insertion sequences with clear() inside ------------------------------------------

/// `clear()` as a letter of the history alphabet: a field derived from the content (a cached first / last id,
/// a length) that `clear()` forgets to reset shows on the inserts that follow it.
fn histories_with_clear(ctx: &mut Ctx) {
    let max_len = if ctx.tier.thorough() { 7 } else { 6 };
    let total: usize = (1..=max_len).map(|l| 6usize.pow(l as u32) - 5usize.pow(l as u32)).sum();
    ctx.space(
        "histories/insert-and-clear-sequences",
        &format!("all {total} sequences of length 1..={max_len} over {{insert 0, insert 1, insert 2, insert 3, insert u32::MAX, clear()}} that contain at least one clear(), shortest first, on HpoGroup::new() and HpoGroup::with_capacity(31) alternately; every step observed like in histories/all-insert-sequences; one case = (length, first two letters)"),
    );
    for len in 1..=max_len {
        let p = len.min(2);
        for pi in 0..6usize.pow(p as u32) {
            if !ctx.take() {
                continue;
            }
            let prefix = digits(pi, p, 6);
            let rest = len - p;
            let n = 6usize.pow(rest as u32);
            let (mut ran, mut nontrivial, mut obs) = (0u64, 0u64, 0u64);
            for si in 0..n {
                let mut seq: Vec<usize> = prefix.clone();
                seq.extend(digits(si, rest, 6));
                if !seq.contains(&5) {
                    continue;
                }
                ran += 1;
                // non-trivial: a clear() of a non-empty group is followed by an insert
                let mut filled = false;
                let mut cleared_filled = false;
                for x in &seq {
                    if *x == 5 {
                        cleared_filled |= filled;
                        filled = false;
                    } else {
                        filled = true;
                        if cleared_filled {
                            nontrivial += 1;
                            break;
                        }
                    }
                }
                let ops: Vec<Op> = seq.iter().map(|x| if *x == 5 { Op::Clear } else { Op::Insert(A5[*x]) }).collect();
                let start = if si % 2 == 0 { 0 } else { 4 };
                let r = guard(|| -> Result<(u64, Vec<u32>), Viol> {
                    let mut l = Live::start(start, &A5_PROBES)?;
                    for op in &ops {
                        match op {
                            Op::Insert(x) => l.insert(*x)?,
                            Op::Clear => l.clear()?,
                        }
                    }
                    Ok((l.observations, l.model.iter().copied().collect()))
                });
                match r {
                    Ok(Ok((o, content))) => {
                        obs += o;
                        let mut f = Fp::new();
                        f.u(seq.iter().rposition(|x| *x == 5).unwrap_or(0) as u32);
                        f.set(&content);
                        ctx.outcome(f.0);
                    }
                    Ok(Err(v)) => ctx.violation(&v.0, &v.1, v.2),
                    Err(msg) => {
                        let v = panic_viol(msg, json!({"start": STARTS[start].1, "history": format!("{ops:?}"), "rust": rust_ops(start, &ops)}));
                        ctx.violation(&v.0, &v.1, v.2);
                    }
                }
            }
            ctx.states(ran);
            ctx.transitions(ran * len as u64);
            ctx.execs(ran);
            ctx.validateds(ran);
            ctx.nontrivials(nontrivial);
            ctx.bump("step_observations", obs);
            if len == 4 && prefix == [1, 5] {
                ctx.sample(|| json!({"length": len, "first_two": ["insert(1)", "clear()"], "sequences": ran, "example": {"history": ["insert(1)", "clear()", "insert(0)", "insert(0)"], "content": [0]}}));
            }
        }
    }
}

// ---- space: breadth-first over contents ------------------------------------------------------

/// Deliberately not in numeric order, so that the canonical routes insert at every position.
const B16: [u32; 16] = [3, u32::MAX, 0, 118, 2, 9_999_999, 1, 4000, u32::MAX - 1, 7, 10_000_000, 5, 2_147_483_648, 64, 6, 77_777];

/// Model-side BFS over contents (bit masks over the alphabet): discovery order and the route
/// (alphabet indices) by which each content was first reached.
fn bfs_states(k: usize, depth: usize) -> (Vec<(u32, Vec<usize>)>, BTreeMap<u32, usize>) {
    let mut order: Vec<(u32, Vec<usize>)> = vec![(0, vec![])];
    let mut index: BTreeMap<u32, usize> = BTreeMap::new();
    index.insert(0, 0);
    let mut head = 0;
    while head < order.len() {
        let (m, w) = order[head].clone();
        head += 1;
        if w.len() >= depth {
            continue;
        }
        for x in 0..k {
            let m2 = m | 1 << x;
            if m2 != m && !index.contains_key(&m2) {
                index.insert(m2, order.len());
                let mut w2 = w.clone();
                w2.push(x);
                order.push((m2, w2));
            }
        }
    }
    (order, index)
}

/// What one route into a content shows: the returns of its inserts, the snapshot, and for every
/// id of the alphabet the return and snapshot of inserting it next (on a clone).
#[derive(PartialEq, Eq, Debug)]
struct RouteObs {
    returns: Vec<bool>,
    snap: Snap,
    futures: Vec<(bool, Snap)>,
    /// clear() on a clone: its snapshot, then for the first two ids of the alphabet in both orders the returns of
    /// inserting them into the cleared clone and the snapshot after that
    cleared: Snap,
    after_clear: Vec<(Vec<bool>, Snap)>,
    unchanged_after_futures: bool,
}

fn observe_route(route: &[u32], alphabet: &[u32]) -> RouteObs {
    at("HpoGroup::new");
    let mut g = HpoGroup::new();
    at("HpoGroup::insert");
    let returns = route.iter().map(|x| g.insert(*x)).collect();
    let snap = Snap::of(&g, alphabet);
    let mut futures = vec![];
    for y in alphabet {
        at("HpoGroup::clone");
        let mut c = g.clone();
        at("HpoGroup::insert");
        let r = c.insert(*y);
        futures.push((r, Snap::of(&c, alphabet)));
    }
    at("HpoGroup::clone");
    let mut c = g.clone();
    at("HpoGroup::clear");
    c.clear();
    let cleared = Snap::of(&c, alphabet);
    let mut after_clear = vec![];
    for pair in [[alphabet[0], alphabet[1]], [alphabet[1], alphabet[0]]] {
        at("HpoGroup::clone");
        let mut c = g.clone();
        at("HpoGroup::clear");
        c.clear();
        at("HpoGroup::insert");
        let rets = pair.iter().map(|y| c.insert(*y)).collect();
        after_clear.push((rets, Snap::of(&c, alphabet)));
    }
    let unchanged_after_futures = Snap::of(&g, alphabet) == snap;
    RouteObs { returns, snap, futures, cleared, after_clear, unchanged_after_futures }
}

fn check_route_against_model(o: &RouteObs, content: &BTreeSet<u32>, alphabet: &[u32]) -> Option<Diff> {
    if o.returns.iter().any(|r| !*r) {
        return Some(("HpoGroup::insert".into(), SIG_INSERT_RET.into(), format!("returns {:?} for a route of distinct ids", o.returns)));
    }
    let sorted: Vec<u32> = content.iter().copied().collect();
    if let Some(d) = diff(&o.snap, &Snap::expected(&sorted, alphabet), "HpoGroup::insert", alphabet) {
        return Some(d);
    }
    for (i, y) in alphabet.iter().enumerate() {
        let mut m = content.clone();
        let fresh = m.insert(*y);
        if o.futures[i].0 != fresh {
            return Some(("HpoGroup::insert".into(), SIG_INSERT_RET.into(), format!("next insert({y}) returned {}, expected {fresh}", o.futures[i].0)));
        }
        let ms: Vec<u32> = m.into_iter().collect();
        if let Some((s, g, w)) = diff(&o.futures[i].1, &Snap::expected(&ms, alphabet), "HpoGroup::insert", alphabet) {
            return Some((s, g, format!("after the next insert({y}): {w}")));
        }
    }
    if let Some((s, g, w)) = diff(&o.cleared, &Snap::expected(&[], alphabet), "HpoGroup::clear", alphabet) {
        return Some((s, g, format!("after clear() of the content {sorted:?}: {w}")));
    }
    for (k, pair) in [[alphabet[0], alphabet[1]], [alphabet[1], alphabet[0]]].iter().enumerate() {
        if o.after_clear[k].0 != [true, true] {
            return Some(("HpoGroup::insert".into(), SIG_INSERT_RET.into(), format!("content {sorted:?}, then clear(), insert({}), insert({}) returned {:?}", pair[0], pair[1], o.after_clear[k].0)));
        }
        let mut e = pair.to_vec();
        e.sort_unstable();
        if let Some((s, g, w)) = diff(&o.after_clear[k].1, &Snap::expected(&e, alphabet), "HpoGroup::insert", alphabet) {
            return Some((s, g, format!("content {sorted:?}, then clear(), insert({}), insert({}): {w}", pair[0], pair[1])));
        }
    }
    if !o.unchanged_after_futures {
        return Some(("HpoGroup::clone".into(), "inserting into (or clearing) a clone changes the original".into(), format!("content {sorted:?}")));
    }
    None
}

fn bfs(ctx: &mut Ctx) {
    let (k, depth) = if ctx.tier.thorough() { (16, 12) } else { (12, 10) };
    let alphabet = &B16[..k];
    let (order, index) = bfs_states(k, depth);
    ctx.space(
        "histories/bfs-by-content",
        &format!("breadth-first over insertion histories of a {k}-id alphabet {:?} with a visited set keyed by content, depth <= {depth}: {} contents; one case = one content S: every BFS edge into S (first-found route of S\\{{x}}, then x) replayed on a fresh group, all routes compared with each other (returns, full snapshot, and return + snapshot of every possible next insert, i.e. all edges out of S incl. re-inserts, and of clear() followed by two inserts in both orders) and with the model", alphabet, order.len()),
    );
    for (mask, witness) in &order {
        if !ctx.take() {
            continue;
        }
        let members: Vec<usize> = (0..k).filter(|x| mask >> x & 1 == 1).collect();
        let routes: Vec<Vec<u32>> = if members.is_empty() {
            vec![vec![]]
        } else {
            members
                .iter()
                .map(|x| {
                    let (_, w) = &order[index[&(mask & !(1 << x))]];
                    let mut r: Vec<u32> = w.iter().map(|i| alphabet[*i]).collect();
                    r.push(alphabet[*x]);
                    r
                })
                .collect()
        };
        debug_assert!(routes.iter().any(|r| r.iter().copied().eq(witness.iter().map(|i| alphabet[*i]))));
        let content: BTreeSet<u32> = members.iter().map(|i| alphabet[*i]).collect();
        ctx.state();
        ctx.transitions((routes.len() * (members.len() + k)) as u64);
        ctx.execs(routes.len() as u64);
        ctx.validateds(routes.len() as u64);
        if routes.len() >= 2 {
            ctx.nontrivial();
        }
        let r = guard(|| -> Option<(Diff, usize)> {
            let obs: Vec<RouteObs> = routes.iter().map(|r| observe_route(r, alphabet)).collect();
            for j in 1..obs.len() {
                if obs[j] != obs[0] {
                    let what = if obs[j].snap != obs[0].snap || obs[j].returns != obs[0].returns {
                        format!("route {:?} shows iter {:?} / returns {:?}; route {:?} shows iter {:?} / returns {:?}", routes[0], obs[0].snap.iter, obs[0].returns, routes[j], obs[j].snap.iter, obs[j].returns)
                    } else {
                        format!("routes {:?} and {:?} show the same snapshot but a following insert behaves differently", routes[0], routes[j])
                    };
                    return Some((("HpoGroup::insert".into(), SIG_ROUTE.into(), what), j));
                }
            }
            for (j, o) in obs.iter().enumerate() {
                if let Some(d) = check_route_against_model(o, &content, alphabet) {
                    return Some((d, j));
                }
            }
            None
        });
        let mut fp = Fp::new();
        fp.u(*mask);
        ctx.outcome(fp.0);
        match r {
            Ok(None) => {}
            Ok(Some(((site, sig, what), j))) => {
                let ops: Vec<Op> = routes[j].iter().map(|x| Op::Insert(*x)).collect();
                ctx.violation(&site, &sig, json!({"content": content, "routes": routes, "failing_route": routes[j], "difference": what, "rust": rust_ops(0, &ops)}));
            }
            Err(msg) => {
                let v = panic_viol(msg, json!({"content": content, "routes": routes}));
                ctx.violation(&v.0, &v.1, v.2);
            }
        }
        if members.len() == 3 {
            ctx.sample(|| json!({"content": content, "routes_into_it": routes, "next_inserts_checked": k}));
        }
    }
}

// ---- space: crossing the inline limit --------------------------------------------------------

const ORDERS: [&str; 6] = ["ascending", "descending", "outside-in", "even-then-odd", "inside-out", "ascending, each id twice"];

/// Index order `kind` over 0..n.
fn order(kind: usize, n: usize) -> Vec<usize> {
    let outside_in = |n: usize| -> Vec<usize> {
        let mut v = vec![];
        let (mut lo, mut hi) = (0usize, n);
        while lo < hi {
            v.push(lo);
            lo += 1;
            if lo < hi {
                hi -= 1;
                v.push(hi);
            }
        }
        v
    };
    match kind {
        0 => (0..n).collect(),
        1 => (0..n).rev().collect(),
        2 => outside_in(n),
        3 => (0..n).step_by(2).chain((1..n).step_by(2)).collect(),
        4 => {
            let mut v = outside_in(n);
            v.reverse();
            v
        }
        _ => (0..n).flat_map(|i| [i, i]).collect(),
    }
}

const IDMAPS: [&str; 3] = ["i", "3 + 65537*i", "u32::MAX - (n-1) + i"];

fn idmap(kind: usize, i: usize, n: usize) -> u32 {
    match kind {
        0 => i as u32,
        1 => 3 + 65_537 * i as u32,
        _ => u32::MAX - (n as u32 - 1) + i as u32,
    }
}

fn inline_limit(ctx: &mut Ctx) {
    let n = if ctx.tier.thorough() { 130 } else { 64 };
    ctx.space(
        "histories/inline-limit",
        &format!("insertion of {n} ids (inline storage holds 30) in {} orders {:?} x {} id maps {:?} x {} start groups (new, with_capacity 0/1/30/31/100): full observation at every prefix; then every member re-inserted, clear(), and 5 inserts into the cleared group", ORDERS.len(), ORDERS, IDMAPS.len(), IDMAPS, STARTS.len()),
    );
    for o in 0..ORDERS.len() {
        for m in 0..IDMAPS.len() {
            for s in 0..STARTS.len() {
                if !ctx.take() {
                    continue;
                }
                let seq: Vec<u32> = order(o, n).iter().map(|i| idmap(m, *i, n)).collect();
                let mut probes: Vec<u32> = (0..n).map(|i| idmap(m, i, n)).collect();
                probes.extend([0, 1, u32::MAX, probes[0].wrapping_sub(1), probes[n - 1].wrapping_add(1), probes[n / 2].wrapping_add(1)]);
                probes.sort_unstable();
                probes.dedup();
                ctx.state();
                ctx.nontrivial();
                ctx.exec();
                ctx.validated();
                ctx.transitions((seq.len() + n + 1 + 5) as u64);
                let r = guard(|| -> Result<u64, Viol> {
                    let mut l = Live::start(s, &probes)?;
                    for x in &seq {
                        l.insert(*x)?;
                    }
                    let members: Vec<u32> = l.model.iter().copied().collect();
                    for x in members.iter().rev() {
                        l.insert(*x)?;
                    }
                    l.clear()?;
                    for x in seq.iter().take(5) {
                        l.insert(*x)?;
                    }
                    Ok(l.observations)
                });
                match r {
                    Ok(Ok(obs)) => ctx.bump("step_observations", obs),
                    Ok(Err(v)) => ctx.violation(&v.0, &v.1, v.2),
                    Err(msg) => {
                        let v = panic_viol(msg, json!({"order": ORDERS[o], "id_map": IDMAPS[m], "start": STARTS[s].1, "n": n}));
                        ctx.violation(&v.0, &v.1, v.2);
                    }
                }
                let mut fp = Fp::new();
                fp.u((o * 100 + m * 10 + s) as u32);
                ctx.outcome(fp.0);
                ctx.sample(|| json!({"order": ORDERS[o], "id_map": IDMAPS[m], "start": STARTS[s].1, "first_ids": &seq[..6], "steps": seq.len() + n + 6}));
            }
        }
    }
}

/// Long insertion runs: the group is inserted into (not only read) far beyond 64 / 130 ids.
fn large_live(ctx: &mut Ctx) {
    const KINDS: [&str; 4] = ["descending", "even-then-odd", "outside-in", "shuffled (LCG seed 12)"];
    ctx.space(
        "histories/large-live",
        &format!("insertion of n = 300 and n = 1000 ids 7 + 3i in the orders {KINDS:?} into HpoGroup::new(): insert's return, len, contains and get of the inserted id at EVERY step; full observation (iter, into_iter, get(0..=len), contains for all n ids + the gaps, as_bytes, iterator adaptors) at the prefixes 0..=8, 29..=33, 62..=66, 126..=131, 254..=259, 510..=514, every 100th and the last; then every 7th member re-inserted"),
    );
    for n in [300usize, 1000] {
        for kind in 0..KINDS.len() {
            if !ctx.take() {
                continue;
            }
            let mut idx: Vec<usize> = match kind {
                0 => order(1, n),
                1 => order(3, n),
                2 => order(2, n),
                _ => (0..n).collect(),
            };
            if kind == 3 {
                Lcg(12).shuffle(&mut idx);
            }
            let seq: Vec<u32> = idx.iter().map(|i| 7 + 3 * *i as u32).collect();
            let mut probes: Vec<u32> = (0..n as u32).flat_map(|i| [7 + 3 * i, 8 + 3 * i]).collect();
            probes.extend([0, 6, u32::MAX]);
            probes.sort_unstable();
            let full = |k: usize| k <= 8 || (29..=33).contains(&k) || (62..=66).contains(&k) || (126..=131).contains(&k) || (254..=259).contains(&k) || (510..=514).contains(&k) || k % 100 == 0 || k == n;
            ctx.state();
            ctx.nontrivial();
            ctx.exec();
            ctx.validated();
            ctx.transitions((n + n / 7) as u64);
            let r = guard(|| -> Result<u64, Viol> {
                let mut l = Live::start(0, &probes)?;
                for (k, x) in seq.iter().enumerate() {
                    if full(k + 1) {
                        l.insert(*x)?;
                    } else {
                        l.insert_quiet(*x)?;
                    }
                }
                for x in seq.iter().step_by(7) {
                    l.insert_quiet(*x)?;
                }
                l.check("HpoGroup::insert")?;
                Ok(l.observations)
            });
            match r {
                Ok(Ok(obs)) => ctx.bump("step_observations", obs),
                Ok(Err(v)) => ctx.violation(&v.0, &v.1, v.2),
                Err(msg) => {
                    let v = panic_viol(msg, json!({"order": KINDS[kind], "ids": "7 + 3i", "n": n, "sequence_head": &seq[..8]}));
                    ctx.violation(&v.0, &v.1, v.2);
                }
            }
            let mut fp = Fp::new();
            fp.u((n * 10 + kind) as u32);
            ctx.outcome(fp.0);
            ctx.sample(|| json!({"n": n, "order": KINDS[kind], "first_ids": &seq[..6]}));
        }
    }
}

// ------------------------------------------------------------------------------------------
// constructors
// ------------------------------------------------------------------------------------------

/// 0..=3 take ids, 4 takes terms; 5..=8 / 9..=12 feed FromIterator through iterators whose size_hint is not exact
const CONSTRUCTORS: [&str; 13] = [
    "HpoGroup::from(Vec<HpoTermId>)",
    "HpoGroup::from(Vec<u32>)",
    "HpoGroup::from(HashSet<HpoTermId>)",
    "HpoGroup::from_iter(HpoTermId)",
    "HpoGroup::from_iter(HpoTerm)",
    "HpoGroup::from_iter(HpoTermId) over filter()",
    "HpoGroup::from_iter(HpoTermId) over flatten()",
    "HpoGroup::from_iter(HpoTermId) over iter::from_fn()",
    "HpoGroup::from_iter(HpoTermId) over chain()",
    "HpoGroup::from_iter(HpoTerm) over filter()",
    "HpoGroup::from_iter(HpoTerm) over flatten()",
    "HpoGroup::from_iter(HpoTerm) over iter::from_fn()",
    "HpoGroup::from_iter(HpoTerm) over chain()",
];
/// the iterator shapes of constructors 5..=8 and 9..=12 as Rust source after `<vec>.into_iter()<map>`
const ADAPTOR_SRC: [&str; 4] = [".filter(|_| true)", " /* as Vec<Vec<_>> of chunks of 2 */ .flatten()", " /* pulled through std::iter::from_fn */", " /* first half .chain(second half) */"];

/// The constructors that apply: the four id constructors, the term constructor if an ontology holds the
/// ids, and (if asked for) the adaptor-fed variants of both FromIterator impls.
fn constructors_for(ont: bool, adaptors: bool) -> Vec<usize> {
    let mut v = vec![0, 1, 2, 3];
    if ont {
        v.push(4);
    }
    if adaptors {
        v.extend(5..=8);
        if ont {
            v.extend(9..=12);
        }
    }
    v
}

/// Collect `items` into a group through an iterator of the given shape (0 filter, 1 flatten, 2 from_fn, 3 chain).
fn collect_through<T: Clone>(items: Vec<T>, shape: usize) -> HpoGroup
where
    HpoGroup: FromIterator<T>,
{
    match shape {
        0 => items.into_iter().filter(|_| true).collect(),
        1 => items.chunks(2).map(|c| c.to_vec()).collect::<Vec<Vec<T>>>().into_iter().flatten().collect(),
        2 => {
            let mut it = items.into_iter();
            std::iter::from_fn(move || it.next()).collect()
        }
        _ => {
            let (l, r) = items.split_at(items.len() / 2);
            l.iter().cloned().chain(r.iter().cloned()).collect()
        }
    }
}

fn isolated_ontology(ids: &[u32]) -> Ontology {
    let f = Facts { terms: ids.iter().map(|i| Facts::term(*i, &format!("T{i}"))).collect(), edges: vec![], anns: vec![], version: (0, 0, 0) };
    drive::build(&f, Mode::Minimal).expect("harness: cannot build an ontology of isolated terms for FromIterator<HpoTerm>")
}

fn construct(which: usize, seq: &[u32], ont: Option<&Ontology>) -> Result<HpoGroup, Diff> {
    at(CONSTRUCTORS[which]);
    Ok(match which {
        0 => HpoGroup::from(seq.iter().map(|x| tid(*x)).collect::<Vec<HpoTermId>>()),
        1 => HpoGroup::from(seq.to_vec()),
        2 => HpoGroup::from(seq.iter().map(|x| tid(*x)).collect::<HashSet<HpoTermId>>()),
        3 => seq.iter().map(|x| tid(*x)).collect::<HpoGroup>(),
        5..=8 => collect_through(seq.iter().map(|x| tid(*x)).collect::<Vec<HpoTermId>>(), which - 5),
        _ => {
            let ont = ont.expect("harness: FromIterator<HpoTerm> needs an ontology");
            at("Ontology::hpo");
            let mut terms: Vec<HpoTerm> = vec![];
            for x in seq {
                match ont.hpo(*x) {
                    Some(t) => terms.push(t),
                    None => return Err(("Ontology::hpo".into(), "a term of a freshly built ontology cannot be fetched".into(), format!("hpo({x}) = None"))),
                }
            }
            at(CONSTRUCTORS[which]);
            if which == 4 {
                terms.into_iter().collect::<HpoGroup>()
            } else {
                collect_through(terms, which - 9)
            }
        }
    })
}

/// `input` is Rust source evaluating to the `Vec<u32>` that is fed in.
fn rust_constructor(which: usize, input: &str) -> String {
    let head = "use hpo::annotations::AnnotationId;\nuse hpo::term::HpoGroup;\nuse hpo::HpoTermId;\n";
    let body = match which {
        0 => format!("let g = HpoGroup::from({input}.into_iter().map(HpoTermId::from_u32).collect::<Vec<HpoTermId>>());\n"),
        1 => format!("let g = HpoGroup::from({input});\n"),
        2 => format!("let g = HpoGroup::from({input}.into_iter().map(HpoTermId::from_u32).collect::<std::collections::HashSet<HpoTermId>>());\n"),
        3 => format!("let g: HpoGroup = {input}.into_iter().map(HpoTermId::from_u32).collect();\n"),
        4 => format!("// ont: any ontology holding these terms\nlet g: HpoGroup = {input}.into_iter().map(|i| ont.hpo(i).unwrap()).collect();\n"),
        5..=8 => format!("let g: HpoGroup = {input}.into_iter().map(HpoTermId::from_u32){}.collect();\n", ADAPTOR_SRC[which - 5]),
        _ => format!("// ont: any ontology holding these terms\nlet g: HpoGroup = {input}.into_iter().map(|i| ont.hpo(i).unwrap()){}.collect();\n", ADAPTOR_SRC[which - 9]),
    };
    format!("{head}{body}println!(\"{{:?}} len={{}}\", g.iter().map(|i| i.as_u32()).collect::<Vec<_>>(), g.len());\n")
}

fn clip(s: &str, max: usize) -> String {
    if s.len() <= max {
        s.to_string()
    } else {
        let mut cut = max;
        while !s.is_char_boundary(cut) {
            cut -= 1;
        }
        format!("{}... <{} bytes>", &s[..cut], s.len())
    }
}

fn vec_literal(seq: &[u32]) -> String {
    let lit: Vec<String> = seq.iter().map(|x| format!("{x}u32")).collect();
    format!("vec![{}]", lit.join(", "))
}

/// All applicable constructors on one sequence (FromIterator<HpoTerm> only when an ontology holding the ids is given).
fn constructor_case(ctx: &mut Ctx, seq: &[u32], ont: Option<&Ontology>, probes: &[u32], futures: &[u32]) {
    constructor_case_ext(ctx, seq, ont, probes, futures, false, None)
}

/// `adaptors`: also the adaptor-fed FromIterator variants; `input_src`: (description, Rust source of the
/// input vector) for inputs too long to be written out.
fn constructor_case_ext(ctx: &mut Ctx, seq: &[u32], ont: Option<&Ontology>, probes: &[u32], futures: &[u32], adaptors: bool, input_src: Option<(&str, &str)>) {
    let expect: BTreeSet<u32> = seq.iter().copied().collect();
    let which_all = constructors_for(ont.is_some(), adaptors);
    let n = which_all.len();
    ctx.state();
    ctx.transitions((n * (seq.len() + futures.len())) as u64);
    ctx.execs(n as u64);
    ctx.validateds(n as u64);
    if !strictly_ascending(seq) {
        ctx.nontrivial();
    }
    for which in which_all {
        let r = guard(|| -> Result<(), Diff> {
            let g = construct(which, seq, ont)?;
            check_group(&g, &expect, probes, futures, CONSTRUCTORS[which])
        });
        let detail = |what: String| match input_src {
            Some((descr, src)) if seq.len() > 1200 => json!({"constructor": CONSTRUCTORS[which], "input": descr, "input_head": &seq[..12], "entries": seq.len(), "distinct_ids": expect.len(), "difference": clip(&what, 600), "rust": rust_constructor(which, src)}),
            _ => json!({"constructor": CONSTRUCTORS[which], "input": seq, "expected_content": expect, "difference": what, "rust": rust_constructor(which, &vec_literal(seq))}),
        };
        match r {
            Ok(Ok(())) => {}
            Ok(Err((site, sig, what))) => ctx.violation(&site, &sig, detail(what)),
            Err(msg) => ctx.violation(at_get(), SIG_PANIC, detail(format!("panic: {msg}"))),
        }
    }
    let mut fp = Fp::new();
    fp.set(&expect.iter().copied().collect::<Vec<u32>>());
    ctx.outcome(fp.0);
}

const SIZES: [usize; 7] = [0, 1, 29, 30, 31, 32, 60];
const SIZES_THOROUGH: [usize; 12] = [0, 1, 2, 29, 30, 31, 32, 33, 59, 60, 61, 100];

fn constructors(ctx: &mut Ctx) {
    let max_len = if ctx.tier.thorough() { 6 } else { 4 };
    let ids = &POOL[..4];
    let total: usize = (0..=max_len).map(|l| 4usize.pow(l as u32)).sum();
    ctx.space(
        "constructors/all-sequences",
        &format!("all {total} sequences of length 0..={max_len} over the ids {ids:?} (duplicates included) x 13 constructors (From<Vec<HpoTermId>>, From<Vec<u32>>, From<HashSet<HpoTermId>>, FromIterator<HpoTermId>, FromIterator<HpoTerm> over an ontology of these 4 isolated terms, and both FromIterator impls fed through filter / flatten / iter::from_fn / chain, i.e. iterators without an exact size_hint); result fully observed and then used as a live set (every possible next insert)"),
    );
    let mut ont: Option<Ontology> = None;
    let mut probes: Vec<u32> = ids.to_vec();
    probes.extend([0, 8, u32::MAX]);
    for len in 0..=max_len {
        for k in 0..4usize.pow(len as u32) {
            if !ctx.take() {
                continue;
            }
            let ont = ont.get_or_insert_with(|| isolated_ontology(ids));
            let seq: Vec<u32> = digits(k, len, 4).iter().map(|i| ids[*i]).collect();
            constructor_case_ext(ctx, &seq, Some(ont), &probes, &probes, true, None);
            if len == 3 {
                ctx.sample(|| json!({"input": seq, "constructors": CONSTRUCTORS, "expected_content": seq.iter().copied().collect::<BTreeSet<u32>>()}));
            }
        }
    }

    let mut sizes: Vec<usize> = SIZES.to_vec();
    sizes.push(64);
    ctx.space(
        "constructors/large",
        &format!("sizes {sizes:?} (inline storage holds 30) x input orders {ORDERS:?} of the ids 1..=size x the same 13 constructors; then inputs of {FAR_ENTRY_COUNTS:?} entries over the ids 1..=64 with duplicates at NON-adjacent positions: ascending ++ ascending prefix and ascending ++ descending (distinct counts around 30 and around the entry count), two base orders with every 2nd/3rd/7th id repeated at distance 3, and vectors of 31 and 35 entries with exactly one duplicate at positions (0,last), (0,2), (middle,last) in ascending / even-then-odd / descending order; distinct-id counts both <= 30 and > 30"),
    );
    let all: Vec<u32> = (1..=64).collect();
    let mut big: Option<Ontology> = None;
    for &n in &sizes {
        for o in 0..ORDERS.len() {
            if !ctx.take() {
                continue;
            }
            let big = big.get_or_insert_with(|| isolated_ontology(&all));
            let seq: Vec<u32> = order(o, n).iter().map(|i| *i as u32 + 1).collect();
            let mut probes: Vec<u32> = (0..=n as u32 + 1).collect();
            probes.push(u32::MAX);
            let futures = [0, 1, n as u32 / 2, n as u32, n as u32 + 1, u32::MAX];
            constructor_case_ext(ctx, &seq, Some(big), &probes, &futures, true, None);
            ctx.sample(|| json!({"size": n, "order": ORDERS[o], "input_head": &seq[..seq.len().min(6)]}));
        }
    }
    // inputs of more than 30 entries with duplicates at NON-adjacent positions
    for (what, seq) in far_duplicate_inputs() {
        if !ctx.take() {
            continue;
        }
        let big = big.get_or_insert_with(|| isolated_ontology(&all));
        let distinct: BTreeSet<u32> = seq.iter().copied().collect();
        assert!(seq.len() > 30 && distinct.len() < seq.len() && seq.iter().all(|x| (1..=64).contains(x)), "harness: bad far-duplicate input {what}");
        let top = *distinct.iter().next_back().unwrap();
        let mut probes: Vec<u32> = (0..=top + 1).collect();
        probes.push(u32::MAX);
        let futures = [0, 1, top / 2, top, top + 1, u32::MAX];
        constructor_case_ext(ctx, &seq, Some(big), &probes, &futures, true, None);
        ctx.bump(if distinct.len() <= 30 { "far_duplicate_inputs_with_at_most_30_distinct_ids" } else { "far_duplicate_inputs_with_more_than_30_distinct_ids" }, 1);
        ctx.sample(|| json!({"pattern": what, "entries": seq.len(), "distinct_ids": distinct.len(), "input": seq}));
    }
}

const MANY_SHAPES: [&str; 4] = ["descending", "ascending ++ ascending prefix (1/8 of the entries repeat the first ids)", "shuffled with distant duplicates (LCG seed 7)", "even-then-odd, then every 7th id again"];

/// (ids, Rust source of the vector) for `e` entries of shape `kind`; id of index i is `base + step*i`.
fn many_input(kind: usize, e: usize, base: u32, step: u32) -> (Vec<u32>, String) {
    let id = |i: usize| base + step * i as u32;
    match kind {
        0 => ((0..e).rev().map(id).collect(), format!("(0..{e}u32).rev().map(|i| {base} + {step} * i).collect::<Vec<u32>>()")),
        1 => {
            let d = e - e / 8;
            ((0..d).chain(0..e - d).map(id).collect(), format!("(0..{d}u32).chain(0..{}u32).map(|i| {base} + {step} * i).collect::<Vec<u32>>()", e - d))
        }
        2 => {
            // d distinct ids in shuffled order, then e-d of them once more at shuffled positions
            let d = e - e / 5;
            let mut rng = Lcg(7 + e as u64);
            let mut v: Vec<usize> = (0..d).collect();
            rng.shuffle(&mut v);
            for _ in d..e {
                let dup = v[rng.below(d)];
                let pos = rng.below(v.len() + 1);
                v.insert(pos, dup);
            }
            (v.into_iter().map(id).collect(), "/* the shuffled input listed in this record */".to_string())
        }
        _ => {
            let d = e - e / 8;
            let mut v: Vec<usize> = order(3, d);
            let mut k = 0;
            while v.len() < e {
                v.push((7 * k) % d);
                k += 1;
            }
            (v.into_iter().map(id).collect(), "/* the input listed in this record */".to_string())
        }
    }
}

/// Constructor inputs far beyond the inline limit and beyond every 7/8-bit or 1k threshold.
fn constructors_many(ctx: &mut Ctx) {
    let counts = [127usize, 128, 129, 255, 256, 257, 1000];
    ctx.space(
        "constructors/many-entries",
        &format!("entry counts {counts:?} x shapes {MANY_SHAPES:?} over the ids 1..=e (e <= 257: all 13 constructors incl. FromIterator<HpoTerm> over an ontology of 310 isolated terms) resp. 5 + 3i (e = 1000: the 4 id constructors + their 4 adaptor-fed variants); plus 70000 entries (ids 11 + 2i) x the 4 id constructors in the shape 'ascending ++ ascending prefix' (thorough: also 'descending'); result fully observed against the set of distinct ids and used as a live set"),
    );
    let all: Vec<u32> = (1..=310).collect();
    let mut ont: Option<Ontology> = None;
    for &e in &counts {
        for kind in 0..MANY_SHAPES.len() {
            if !ctx.take() {
                continue;
            }
            let with_terms = e <= 257;
            let (base, step) = if with_terms { (1, 1) } else { (5, 3) };
            let (seq, src) = many_input(kind, e, base, step);
            assert!(seq.len() == e, "harness: many_input length");
            let distinct: BTreeSet<u32> = seq.iter().copied().collect();
            let mut probes: Vec<u32> = distinct.iter().copied().collect();
            let (lo, hi) = (probes[0], probes[probes.len() - 1]);
            probes.extend([0, lo - 1, hi + 1, hi + 2, u32::MAX]);
            probes.sort_unstable();
            probes.dedup();
            let futures = [lo - 1, lo, probes[probes.len() / 2], hi, hi + 1, u32::MAX];
            let o = if with_terms { Some(&*ont.get_or_insert_with(|| isolated_ontology(&all))) } else { None };
            constructor_case_ext(ctx, &seq, o, &probes, &futures, true, Some((MANY_SHAPES[kind], &src)));
            ctx.sample(|| json!({"entries": e, "shape": MANY_SHAPES[kind], "distinct_ids": distinct.len(), "input_head": &seq[..8]}));
        }
    }
    let kinds: &[usize] = if ctx.tier.thorough() { &[1, 0] } else { &[1] };
    for &kind in kinds {
        if !ctx.take() {
            continue;
        }
        let e = 70_000;
        let (seq, src) = many_input(kind, e, 11, 2);
        let distinct: BTreeSet<u32> = seq.iter().copied().collect();
        let mut probes: Vec<u32> = distinct.iter().copied().collect();
        let hi = probes[probes.len() - 1];
        probes.extend([0, 10, 12, hi + 1, u32::MAX]);
        probes.sort_unstable();
        constructor_case_ext(ctx, &seq, None, &probes, &[10, hi, hi + 1], false, Some((MANY_SHAPES[kind], &src)));
    }
}

const FAR_ENTRY_COUNTS: [usize; 7] = [31, 32, 33, 40, 60, 64, 70];

/// Constructor inputs with more than 30 entries over the ids 1..=64 that repeat ids at
/// non-adjacent positions (a bulk path that removes only adjacent repeats must fail on them).
fn far_duplicate_inputs() -> Vec<(String, Vec<u32>)> {
    let mut out: Vec<(String, Vec<u32>)> = vec![];
    // (iv) exactly one duplicate in an otherwise duplicate-free vector of 31 and of 35 entries (30 resp. 34 distinct ids)
    for e in [31usize, 35] {
        for base_kind in [0usize, 3, 1] {
            let base: Vec<u32> = order(base_kind, e - 1).iter().map(|i| *i as u32 + 1).collect();
            let mid = (e - 1) / 2;
            let mut v = base.clone();
            v.push(base[0]);
            out.push((format!("{e} entries, {} order, one duplicate at positions (0, last)", ORDERS[base_kind]), v));
            let mut v = base.clone();
            v.insert(2, base[0]);
            out.push((format!("{e} entries, {} order, one duplicate at positions (0, 2)", ORDERS[base_kind]), v));
            let mut v = base.clone();
            v.push(base[mid]);
            out.push((format!("{e} entries, {} order, one duplicate at positions (middle, last)", ORDERS[base_kind]), v));
        }
    }
    for &e in &FAR_ENTRY_COUNTS {
        // distinct counts d (ascending run 1..=d) followed by e-d repeated ids; d <= 30 and d > 30 where possible
        let lo = (e + 1) / 2;
        let hi = (e - 1).min(64);
        let mut ds: Vec<usize> = [lo, 29, 30, 31, (e - 2).min(64), hi].into_iter().filter(|d| *d >= lo && *d <= hi).collect();
        ds.sort_unstable();
        ds.dedup();
        for &d in &ds {
            let p = e - d;
            // (i) ascending ++ ascending prefix
            let mut v: Vec<u32> = (1..=d as u32).collect();
            v.extend(1..=p as u32);
            out.push((format!("{e} entries: ascending 1..={d} ++ ascending prefix 1..={p}"), v));
            // (ii) ascending ++ descending
            let mut v: Vec<u32> = (1..=d as u32).collect();
            v.extend((0..p as u32).map(|i| d as u32 - i));
            out.push((format!("{e} entries: ascending 1..={d} ++ descending {d}..={}", d - p + 1), v));
        }
        // (iii) every k-th id repeated two new entries later (distance 3), over two base orders of 1..=64
        for base_kind in [0usize, 2] {
            let base: Vec<u32> = order(base_kind, 64).iter().map(|i| *i as u32 + 1).collect();
            for k in [2usize, 3, 7] {
                let mut v: Vec<u32> = vec![];
                let mut pending: Vec<(usize, u32)> = vec![]; // (emit when v.len() == at, id)
                let mut next = 0;
                while v.len() < e {
                    if let Some(pos) = pending.iter().position(|(at, _)| *at <= v.len()) {
                        let (_, id) = pending.remove(pos);
                        v.push(id);
                        continue;
                    }
                    let id = base[next];
                    next += 1;
                    if next % k == 0 {
                        pending.push((v.len() + 3, id));
                    }
                    v.push(id);
                }
                out.push((format!("{e} entries: {} order of 1..=64, every {k}th id repeated at distance 3", ORDERS[base_kind]), v));
            }
        }
    }
    out
}

// ------------------------------------------------------------------------------------------
// algebra
// ------------------------------------------------------------------------------------------

const FORMS: [(&str, &str); 6] = [
    ("&a | &b", "<&HpoGroup as BitOr<&HpoGroup>>::bitor"),
    ("a | b", "<HpoGroup as BitOr<HpoGroup>>::bitor"),
    ("a | &b", "<HpoGroup as BitOr<&HpoGroup>>::bitor"),
    ("&a & &b", "<&HpoGroup as BitAnd<&HpoGroup>>::bitand"),
    ("a & b", "<HpoGroup as BitAnd<HpoGroup>>::bitand"),
    ("a & &b", "<HpoGroup as BitAnd<&HpoGroup>>::bitand"),
];

fn apply(form: usize, a: &HpoGroup, b: &HpoGroup) -> HpoGroup {
    at(FORMS[form].1);
    match form {
        0 => a | b,
        1 => a.clone() | b.clone(),
        2 => a.clone() | b,
        3 => a & b,
        4 => a.clone() & b.clone(),
        _ => a.clone() & b,
    }
}

const ID_FORMS: [(&str, &str); 3] = [
    ("&a | id", "<&HpoGroup as BitOr<HpoTermId>>::bitor"),
    ("&a + id", "<&HpoGroup as Add<HpoTermId>>::add"),
    ("a + id", "<HpoGroup as Add<HpoTermId>>::add"),
];

fn apply_id(form: usize, a: &HpoGroup, id: u32) -> HpoGroup {
    at(ID_FORMS[form].1);
    match form {
        0 => a | tid(id),
        1 => a + tid(id),
        _ => a.clone() + tid(id),
    }
}

const BUILDS: [&str; 4] = ["new + insert ascending", "with_capacity(0) + insert descending", "From<Vec<u32>>, outside-in", "FromIterator<HpoTermId>, even-then-odd"];

fn operand_seq(sorted: &[u32], variant: usize) -> Vec<u32> {
    let kind = [0, 1, 2, 3][variant];
    order(kind, sorted.len()).iter().map(|i| sorted[*i]).collect()
}

fn build_operand(sorted: &[u32], variant: usize) -> HpoGroup {
    let seq = operand_seq(sorted, variant);
    match variant {
        0 => {
            at("HpoGroup::insert");
            let mut g = HpoGroup::new();
            for x in seq {
                g.insert(x);
            }
            g
        }
        1 => {
            at("HpoGroup::insert");
            let mut g = HpoGroup::with_capacity(0);
            for x in seq {
                g.insert(x);
            }
            g
        }
        2 => {
            at(CONSTRUCTORS[1]);
            HpoGroup::from(seq)
        }
        _ => {
            at(CONSTRUCTORS[3]);
            seq.into_iter().map(tid).collect()
        }
    }
}

fn rust_operand(name: &str, sorted: &[u32], variant: usize) -> String {
    let lit: Vec<String> = operand_seq(sorted, variant).iter().map(|x| format!("{x}u32")).collect();
    let lit = lit.join(", ");
    match variant {
        0 => format!("let mut {name} = HpoGroup::new();\nfor x in Vec::<u32>::from([{lit}]) {{ {name}.insert(x); }}\n"),
        1 => format!("let mut {name} = HpoGroup::with_capacity(0);\nfor x in Vec::<u32>::from([{lit}]) {{ {name}.insert(x); }}\n"),
        2 => format!("let {name} = HpoGroup::from(Vec::<u32>::from([{lit}]));\n"),
        _ => format!("let {name}: HpoGroup = Vec::<u32>::from([{lit}]).into_iter().map(HpoTermId::from_u32).collect();\n"),
    }
}

fn rust_algebra(a: &[u32], va: usize, b: Option<(&[u32], usize)>, expr: &str, id: Option<u32>) -> String {
    let mut s = String::from("use hpo::annotations::AnnotationId;\nuse hpo::term::HpoGroup;\nuse hpo::HpoTermId;\n");
    s.push_str(&rust_operand("a", a, va));
    if let Some((b, vb)) = b {
        s.push_str(&rust_operand("b", b, vb));
    }
    if let Some(id) = id {
        s.push_str(&format!("let id = HpoTermId::from_u32({id}u32);\n"));
    }
    s.push_str(&format!("let r = {expr};\nprintln!(\"{{:?}} len={{}}\", r.iter().map(|i| i.as_u32()).collect::<Vec<_>>(), r.len());\n"));
    s
}

/// All six operator forms on one ordered pair of sets for the given operand constructions.
/// Returns the number of operator executions.
fn pair_case(ctx: &mut Ctx, a: &[u32], b: &[u32], variants: &[(usize, usize)], probes: &[u32], futures: &[u32], fp: &mut Fp) -> u64 {
    let sa: BTreeSet<u32> = a.iter().copied().collect();
    let sb: BTreeSet<u32> = b.iter().copied().collect();
    let union: BTreeSet<u32> = sa.union(&sb).copied().collect();
    let inter: BTreeSet<u32> = sa.intersection(&sb).copied().collect();
    fp.set(&union.iter().copied().collect::<Vec<u32>>());
    fp.set(&inter.iter().copied().collect::<Vec<u32>>());
    let mut n = 0;
    for &(va, vb) in variants {
        for form in 0..FORMS.len() {
            n += 1;
            let expect = if form < 3 { &union } else { &inter };
            let r = guard(|| -> Result<(), Diff> {
                let ga = build_operand(a, va);
                let gb = build_operand(b, vb);
                let (pa, pb) = (Snap::of(&ga, probes), Snap::of(&gb, probes));
                // operands themselves must be what they were built from (else blame their construction)
                if let Some(d) = diff(&pa, &Snap::expected(a, probes), "HpoGroup (operand construction)", probes) {
                    return Err(d);
                }
                if let Some(d) = diff(&pb, &Snap::expected(b, probes), "HpoGroup (operand construction)", probes) {
                    return Err(d);
                }
                let mut res = apply(form, &ga, &gb);
                check_group(&res, expect, probes, futures, FORMS[form].1)?;
                if Snap::of(&ga, probes) != pa || Snap::of(&gb, probes) != pb {
                    return Err((FORMS[form].1.into(), "an operand observed after the operation differs from before".into(), String::new()));
                }
                if (va, vb) == variants[0] {
                    use_result_further(&mut res, expect, &ga, a, probes, futures, FORMS[form].0)?;
                }
                Ok(())
            });
            let detail = |what: String| {
                json!({"a": a, "b": b, "expression": FORMS[form].0, "operand_construction": [BUILDS[va], BUILDS[vb]], "expected": expect, "difference": what,
                "rust": rust_algebra(a, va, Some((b, vb)), FORMS[form].0, None)})
            };
            match r {
                Ok(Ok(())) => {}
                Ok(Err((site, sig, what))) => ctx.violation(&site, &sig, detail(what)),
                Err(msg) => ctx.violation(at_get(), SIG_PANIC, detail(format!("panic: {msg}"))),
            }
        }
    }
    n
}

/// The result of an operator is itself an operand and a live set: `res | c`, `res & c` for two third
/// operands (every second probe id; the left operand), then the futures are inserted into the ORIGINAL
/// result (not a clone) one after the other.
fn use_result_further(res: &mut HpoGroup, expect: &BTreeSet<u32>, ga: &HpoGroup, a: &[u32], probes: &[u32], futures: &[u32], expr: &str) -> Result<(), Diff> {
    let c1: Vec<u32> = probes.iter().step_by(2).copied().collect();
    let g1 = build_operand(&c1, 2);
    for (c, gc, cname) in [(&c1[..], &g1, "every second probe id"), (a, ga, "the left operand a")] {
        let sc: BTreeSet<u32> = c.iter().copied().collect();
        let eu: Vec<u32> = expect.union(&sc).copied().collect();
        let ei: Vec<u32> = expect.intersection(&sc).copied().collect();
        at(FORMS[0].1);
        let u = &*res | gc;
        if let Some((s, sig, w)) = diff(&Snap::of(&u, probes), &Snap::expected(&eu, probes), FORMS[0].1, probes) {
            return Err((s, sig, format!("({expr}) | c with c = {cname} {c:?}: {w}")));
        }
        at(FORMS[3].1);
        let i = &*res & gc;
        if let Some((s, sig, w)) = diff(&Snap::of(&i, probes), &Snap::expected(&ei, probes), FORMS[3].1, probes) {
            return Err((s, sig, format!("({expr}) & c with c = {cname} {c:?}: {w}")));
        }
    }
    let mut model = expect.clone();
    for &y in futures {
        at("HpoGroup::insert");
        let ret = res.insert(y);
        let fresh = model.insert(y);
        if ret != fresh {
            return Err(("HpoGroup::insert".into(), SIG_INSERT_RET.into(), format!("on the result of {expr} itself: insert({y}) returned {ret}, expected {fresh}")));
        }
    }
    let ms: Vec<u32> = model.into_iter().collect();
    if let Some((s, sig, w)) = diff(&Snap::of(res, probes), &Snap::expected(&ms, probes), "HpoGroup::insert", probes) {
        return Err((s, sig, format!("after inserting {futures:?} into the result of {expr} itself: {w}")));
    }
    Ok(())
}

/// The three (set, id) forms. Returns the number of operator executions.
fn id_case(ctx: &mut Ctx, a: &[u32], id: u32, variants: &[usize], probes: &[u32], futures: &[u32], fp: &mut Fp) -> u64 {
    let mut expect: BTreeSet<u32> = a.iter().copied().collect();
    expect.insert(id);
    fp.set(&expect.iter().copied().collect::<Vec<u32>>());
    let mut n = 0;
    for &va in variants {
        for form in 0..ID_FORMS.len() {
            n += 1;
            let r = guard(|| -> Result<(), Diff> {
                let ga = build_operand(a, va);
                let pa = Snap::of(&ga, probes);
                if let Some(d) = diff(&pa, &Snap::expected(a, probes), "HpoGroup (operand construction)", probes) {
                    return Err(d);
                }
                let res = apply_id(form, &ga, id);
                check_group(&res, &expect, probes, futures, ID_FORMS[form].1)?;
                if Snap::of(&ga, probes) != pa {
                    return Err((ID_FORMS[form].1.into(), "an operand observed after the operation differs from before".into(), String::new()));
                }
                Ok(())
            });
            let detail = |what: String| {
                json!({"a": a, "id": id, "expression": ID_FORMS[form].0, "operand_construction": BUILDS[va], "expected": expect, "difference": what,
                "rust": rust_algebra(a, va, None, ID_FORMS[form].0, Some(id))})
            };
            match r {
                Ok(Ok(())) => {}
                Ok(Err((site, sig, what))) => ctx.violation(&site, &sig, detail(what)),
                Err(msg) => ctx.violation(at_get(), SIG_PANIC, detail(format!("panic: {msg}"))),
            }
        }
    }
    n
}

/// quick: 6-id universe plus one id that is never a member and lies inside the range (last)
const IDS7: [u32; 7] = [0, 1, 7, 4000, 9_999_999, u32::MAX, 118];
/// thorough: 7-id universe plus the never-member
const IDS8: [u32; 8] = [0, 1, 7, 118, 4000, 9_999_999, u32::MAX, 5000];

fn subsets_simplest_first(n: usize) -> Vec<u32> {
    let mut v: Vec<u32> = (0..1u32 << n).collect();
    v.sort_by_key(|m| (m.count_ones(), *m));
    v
}

fn pick(universe: &[u32], mask: u32) -> Vec<u32> {
    (0..universe.len()).filter(|i| mask >> i & 1 == 1).map(|i| universe[i]).collect()
}

fn algebra_small(ctx: &mut Ctx) {
    let ids: &[u32] = if ctx.tier.thorough() { &IDS8 } else { &IDS7 };
    let universe = &ids[..ids.len() - 1];
    let nu = universe.len();
    let subsets = subsets_simplest_first(nu);
    let variants = [(0, 0), (1, 2), (3, 1)];
    ctx.space(
        "algebra/small-universe-pairs",
        &(format!("all {0} x {0} ordered pairs of subsets of the {nu}-id universe {universe:?} (smallest first)", subsets.len()) + &format!(" x 6 operator forms {:?} x 3 operand constructions {:?}; result fully observed and used as a live set; operands unchanged; one case = one left operand", FORMS.iter().map(|f| f.0).collect::<Vec<_>>(), variants.iter().map(|(a, b)| format!("a: {}, b: {}", BUILDS[*a], BUILDS[*b])).collect::<Vec<_>>())),
    );
    for &ma in &subsets {
        if !ctx.take() {
            continue;
        }
        let a = pick(universe, ma);
        let mut n = 0;
        let mut nontrivial = 0;
        for &mb in &subsets {
            let b = pick(universe, mb);
            let mut fp = Fp::new();
            n += pair_case(ctx, &a, &b, &variants, ids, ids, &mut fp);
            ctx.outcome(fp.0);
            // non-trivial: neither operand empty, neither contains the other
            if ma & mb != ma && ma & mb != mb {
                nontrivial += 1;
            }
        }
        ctx.states(subsets.len() as u64);
        ctx.nontrivials(nontrivial);
        ctx.transitions(n * (1 + ids.len() as u64));
        ctx.execs(n);
        ctx.validateds(n);
        if ma.count_ones() == 2 {
            ctx.sample(|| json!({"a": a, "b": "each of the 64 subsets", "forms": FORMS.iter().map(|f| f.0).collect::<Vec<_>>(), "operator_executions": n}));
        }
    }

    ctx.space(
        "algebra/small-universe-set-id",
        &(format!("all {} subsets of {universe:?} x {} ids {ids:?} (the possible members + 1 never-member inside the range)", subsets.len(), ids.len()) + &format!(" x forms {:?} x 4 operand constructions {BUILDS:?}; one case = one set", ID_FORMS.iter().map(|f| f.0).collect::<Vec<_>>())),
    );
    for &ma in &subsets {
        if !ctx.take() {
            continue;
        }
        let a = pick(universe, ma);
        let mut n = 0;
        for &id in ids {
            let mut fp = Fp::new();
            n += id_case(ctx, &a, id, &[0, 1, 2, 3], ids, ids, &mut fp);
            ctx.outcome(fp.0);
        }
        ctx.states(ids.len() as u64);
        if ma != 0 {
            ctx.nontrivial();
        }
        ctx.transitions(n * (1 + ids.len() as u64));
        ctx.execs(n);
        ctx.validateds(n);
        if ma.count_ones() == 3 {
            ctx.sample(|| json!({"a": a, "ids": ids, "forms": ID_FORMS.iter().map(|f| f.0).collect::<Vec<_>>()}));
        }
    }
}

const OVERLAPS: [&str; 6] = ["disjoint, a before b", "disjoint, a after b", "interleaved (disjoint, alternating)", "nested (smaller spread inside larger)", "equal / common prefix", "shifted by 1"];

fn grid_sets(na: usize, nb: usize, kind: usize) -> (Vec<u32>, Vec<u32>) {
    let run = |start: u32, step: u32, n: usize| -> Vec<u32> { (0..n as u32).map(|i| start + step * i).collect() };
    match kind {
        0 => (run(1000, 1, na), run(2000, 1, nb)),
        1 => (run(2000, 1, na), run(1000, 1, nb)),
        2 => (run(100, 2, na), run(101, 2, nb)),
        3 => {
            let (big, small) = (na.max(nb), na.min(nb));
            let bigset = run(500, 3, big);
            let smallset: Vec<u32> = (0..small).map(|j| bigset[j * big / small]).collect();
            if na >= nb {
                (bigset, smallset)
            } else {
                (smallset, bigset)
            }
        }
        4 => (run(700, 1, na), run(700, 1, nb)),
        _ => (run(300, 1, na), run(301, 1, nb)),
    }
}

fn algebra_large(ctx: &mut Ctx) {
    let sizes: &[usize] = if ctx.tier.thorough() { &SIZES_THOROUGH } else { &SIZES };
    ctx.space(
        "algebra/large-grid",
        &format!("|a|,|b| in {sizes:?} (inline storage holds 30) x overlap {OVERLAPS:?} x 6 operator forms x 2 operand constructions, plus `&a | id`, `&a + id`, `a + id` for ids below, inside (member and non-member) and above a"),
    );
    let variants = [(0, 1), (2, 3)];
    for kind in 0..OVERLAPS.len() {
        for &na in sizes {
            for &nb in sizes {
                if !ctx.take() {
                    continue;
                }
                let (a, b) = grid_sets(na, nb, kind);
                debug_assert!(strictly_ascending(&a) && strictly_ascending(&b) && a.len() == na && b.len() == nb);
                let mut probes: Vec<u32> = a.iter().chain(b.iter()).copied().collect();
                let (lo, hi) = (probes.iter().min().copied().unwrap_or(50), probes.iter().max().copied().unwrap_or(50));
                probes.extend([0, lo - 1, hi + 1, u32::MAX]);
                probes.sort_unstable();
                probes.dedup();
                let mut futures = vec![lo - 1, lo, hi, hi + 1];
                if let Some(m) = a.get(na / 2) {
                    futures.extend([*m, *m + 1]);
                }
                if let Some(m) = b.get(nb / 2) {
                    futures.extend([*m, *m + 1]);
                }
                futures.sort_unstable();
                futures.dedup();
                let mut fp = Fp::new();
                let mut n = pair_case(ctx, &a, &b, &variants, &probes, &futures, &mut fp);
                for &id in &futures {
                    n += id_case(ctx, &a, id, &[0, 2], &probes, &[lo - 1, hi + 1], &mut fp);
                }
                ctx.outcome(fp.0);
                ctx.state();
                if na > 0 && nb > 0 {
                    ctx.nontrivial();
                }
                ctx.transitions(n * (1 + futures.len() as u64));
                ctx.execs(n);
                ctx.validateds(n);
                if na == 31 && nb == 29 {
                    ctx.sample(|| json!({"size_a": na, "size_b": nb, "overlap": OVERLAPS[kind], "a_head": &a[..4], "b_head": &b[..4], "operator_executions": n}));
                }
            }
        }
    }
}

const IRREGULAR: [&str; 4] = ["multiples of 3 vs multiples of 5", "same stride, b shifted by a third of a", "nested (smaller spread inside larger)", "two LCG-drawn subsets of 0..3*max (seed = sizes)"];

fn irregular_sets(na: usize, nb: usize, kind: usize) -> (Vec<u32>, Vec<u32>) {
    match kind {
        0 => ((0..na as u32).map(|i| 3 * i).collect(), (0..nb as u32).map(|j| 5 * j).collect()),
        1 => ((0..na as u32).map(|i| 7 + 2 * i).collect(), (0..nb as u32).map(|j| 7 + 2 * (j + na as u32 / 3)).collect()),
        2 => grid_sets(na, nb, 3),
        _ => {
            let universe: Vec<u32> = (0..3 * na.max(nb) as u32).collect();
            let mut rng = Lcg(1000 * na as u64 + nb as u64);
            (rng.draw(&universe, na), rng.draw(&universe, nb))
        }
    }
}

/// G3: two large operands with irregular overlap.
fn algebra_large_irregular(ctx: &mut Ctx) {
    let sizes = [64usize, 65, 128, 257];
    ctx.space(
        "algebra/large-irregular",
        &format!("|a|,|b| in {sizes:?} x overlap {IRREGULAR:?} x 6 operator forms x 2 operand constructions; result fully observed, used as a live set, fed into one more `| c` / `& c` and inserted into directly"),
    );
    let variants = [(0, 1), (2, 3)];
    for kind in 0..IRREGULAR.len() {
        for &na in &sizes {
            for &nb in &sizes {
                if !ctx.take() {
                    continue;
                }
                let (a, b) = irregular_sets(na, nb, kind);
                assert!(strictly_ascending(&a) && strictly_ascending(&b) && a.len() == na && b.len() == nb, "harness: irregular_sets");
                let mut probes: Vec<u32> = a.iter().chain(b.iter()).copied().collect();
                let hi = probes.iter().max().copied().unwrap();
                probes.extend([0, 1, 2, hi + 1, u32::MAX]);
                probes.sort_unstable();
                probes.dedup();
                let futures = [0, 1, a[na / 2], a[na / 2] + 1, b[nb / 2], hi, hi + 1];
                let mut fp = Fp::new();
                let n = pair_case(ctx, &a, &b, &variants, &probes, &futures, &mut fp);
                ctx.outcome(fp.0);
                ctx.state();
                ctx.nontrivial();
                ctx.transitions(n * (1 + futures.len() as u64));
                ctx.execs(n);
                ctx.validateds(n);
                if na == 128 && nb == 65 {
                    ctx.sample(|| json!({"size_a": na, "size_b": nb, "overlap": IRREGULAR[kind], "a_head": &a[..6], "b_head": &b[..6]}));
                }
            }
        }
    }
}

/// G4: mid-size operands with arbitrary interleaving.
fn algebra_mid_irregular(ctx: &mut Ctx) {
    let n_pairs = 2000;
    ctx.space(
        "algebra/mid-irregular",
        &format!("a fixed family of {n_pairs} pairs (a, b) drawn by a deterministic LCG (seed = pair number): sizes 7..=28 each, subsets of the 40 ids 100 + 3i; 6 operator forms, operands built by insert resp. From<Vec<u32>>; every result observed completely and the forms compared with each other; one case = 50 pairs"),
    );
    let universe: Vec<u32> = (0..40u32).map(|i| 100 + 3 * i).collect();
    let mut probes = universe.clone();
    probes.extend([0, 99, 101, 218, u32::MAX]);
    probes.sort_unstable();
    for block in 0..n_pairs / 50 {
        if !ctx.take() {
            continue;
        }
        let mut n = 0;
        for k in block * 50..(block + 1) * 50 {
            let mut rng = Lcg(0xC12 + k as u64);
            let (na, nb) = (7 + rng.below(22), 7 + rng.below(22));
            let (a, b) = (rng.draw(&universe, na), rng.draw(&universe, nb));
            let mut fp = Fp::new();
            n += asym_ops(ctx, &a, &b, k % 2, 2 + k % 2, &probes, &mut fp);
            ctx.outcome(fp.0);
        }
        ctx.states(50);
        ctx.nontrivials(50);
        ctx.transitions(n);
        ctx.execs(n);
        ctx.validateds(n);
        if block == 0 {
            let mut rng = Lcg(0xC12);
            let (na, nb) = (7 + rng.below(22), 7 + rng.below(22));
            ctx.sample(|| json!({"pair": 0, "a": rng.draw(&universe, na), "b": rng.draw(&universe, nb)}));
        }
    }

    if !ctx.tier.thorough() {
        return;
    }
    // thorough: every pair of subsets of a 10-id universe for the two by-reference operators
    let u10: Vec<u32> = vec![0, 3, 4, 9, 10, 11, 50, 51, 4000, u32::MAX];
    let subsets = subsets_simplest_first(10);
    ctx.space(
        "algebra/10-universe-pairs",
        &format!("all 1024 x 1024 ordered pairs of subsets of {u10:?} for `&a | &b` and `&a & &b`; every result observed completely (exact ascending content, len, get, contains for all 10 ids, as_bytes); one case = one left operand"),
    );
    for &ma in &subsets {
        if !ctx.take() {
            continue;
        }
        let a = pick(&u10, ma);
        let mut first: Option<(Vec<u32>, usize, Diff)> = None;
        let res = guard(|| {
            let ga = build_operand(&a, 0);
            for &mb in &subsets {
                let b = pick(&u10, mb);
                let gb = build_operand(&b, 2);
                for form in [0usize, 3] {
                    let e = pick(&u10, if form == 0 { ma | mb } else { ma & mb });
                    if let Some(d) = diff(&Snap::of(&apply(form, &ga, &gb), &u10), &Snap::expected(&e, &u10), FORMS[form].1, &u10) {
                        if first.is_none() {
                            first = Some((b.clone(), form, d));
                        }
                    }
                }
            }
        });
        if let Err(msg) = res {
            ctx.violation(at_get(), SIG_PANIC, json!({"a": a, "b": "one of the 1024 subsets", "panic": msg}));
        }
        if let Some((b, form, (site, sig, what))) = first {
            ctx.violation(&site, &sig, json!({"a": a, "b": b, "expression": FORMS[form].0, "difference": what, "rust": rust_algebra(&a, 0, Some((&b, 2)), FORMS[form].0, None)}));
        }
        let mut fp = Fp::new();
        fp.u(ma);
        ctx.outcome(fp.0);
        ctx.states(1024);
        ctx.nontrivials(1024);
        ctx.transitions(2048);
        ctx.execs(2048);
        ctx.validateds(2048);
        if ma == 0b11 {
            ctx.sample(|| json!({"a": a, "b": "each of the 1024 subsets", "forms": [FORMS[0].0, FORMS[3].0]}));
        }
    }
}

// ---- space: one large operand, one tiny operand ---------------------------------------------

const ASYM_SIZES: [usize; 5] = [16, 17, 31, 33, 64];
const SIG_FORMS_DISAGREE: &str = "result differs from the by-reference form of the same operator on the same operands";

/// Large group 10, 20, .. 10*l and the universe around it: every member, every gap id
/// (below: 0 and 5, between: 10i+5, above: 10l+5 and u32::MAX). Both ascending.
fn asym_universe(l: usize) -> (Vec<u32>, Vec<u32>) {
    let large: Vec<u32> = (1..=l as u32).map(|i| 10 * i).collect();
    let mut u: Vec<u32> = vec![0, 5];
    for m in &large {
        u.push(*m);
        u.push(*m + 5);
    }
    u.push(u32::MAX);
    (large, u)
}

/// All subsets of `universe` whose smallest element is universe[first], of size 1..=max,
/// ordered by size, then lexicographically.
fn subsets_starting_at(universe: &[u32], first: usize, max: usize) -> Vec<Vec<u32>> {
    let n = universe.len();
    let mut out = vec![vec![universe[first]]];
    if max >= 2 {
        for j in first + 1..n {
            out.push(vec![universe[first], universe[j]]);
        }
    }
    if max >= 3 {
        for j in first + 1..n {
            for k in j + 1..n {
                out.push(vec![universe[first], universe[j], universe[k]]);
            }
        }
    }
    out
}

/// All six operator forms on (a, b): each result against the model, and the forms among each other.
fn asym_ops(ctx: &mut Ctx, a: &[u32], b: &[u32], va: usize, vb: usize, probes: &[u32], fp: &mut Fp) -> u64 {
    let sa: BTreeSet<u32> = a.iter().copied().collect();
    let sb: BTreeSet<u32> = b.iter().copied().collect();
    let union: Vec<u32> = sa.union(&sb).copied().collect();
    let inter: Vec<u32> = sa.intersection(&sb).copied().collect();
    fp.set(&union);
    fp.set(&inter);
    let (eu, ei) = (Snap::expected(&union, probes), Snap::expected(&inter, probes));
    let r = guard(|| -> Vec<(Option<usize>, Diff)> {
        let mut out = vec![];
        let ga = build_operand(a, va);
        let gb = build_operand(b, vb);
        for (g, set) in [(&ga, a), (&gb, b)] {
            if let Some(d) = diff(&Snap::of(g, probes), &Snap::expected(set, probes), "HpoGroup (operand construction)", probes) {
                out.push((None, d));
                return out;
            }
        }
        let snaps: Vec<Snap> = (0..FORMS.len()).map(|f| Snap::of(&apply(f, &ga, &gb), probes)).collect();
        for f in 0..FORMS.len() {
            if let Some(d) = diff(&snaps[f], if f < 3 { &eu } else { &ei }, FORMS[f].1, probes) {
                out.push((Some(f), d));
            }
        }
        for f in [1usize, 2, 4, 5] {
            let base = if f < 3 { 0 } else { 3 };
            if snaps[f] != snaps[base] {
                out.push((Some(f), (FORMS[f].1.into(), SIG_FORMS_DISAGREE.into(), format!("`{}` gives {:?} (len {}), `{}` gives {:?} (len {})", FORMS[f].0, snaps[f].iter, snaps[f].len, FORMS[base].0, snaps[base].iter, snaps[base].len))));
            }
        }
        out
    });
    let detail = |form: Option<usize>, what: String| {
        let expr = form.map_or("&a | &b", |f| FORMS[f].0);
        let expect = match form {
            Some(f) if f >= 3 => &inter,
            _ => &union,
        };
        json!({"a": a, "b": b, "expression": expr, "operand_construction": [BUILDS[va], BUILDS[vb]], "expected": expect, "difference": what, "rust": rust_algebra(a, va, Some((b, vb)), expr, None)})
    };
    match r {
        Ok(found) => {
            for (form, (site, sig, what)) in found {
                ctx.violation(&site, &sig, detail(form, what));
            }
        }
        Err(msg) => ctx.violation(at_get(), SIG_PANIC, detail(None, format!("panic: {msg}"))),
    }
    FORMS.len() as u64
}

fn algebra_asymmetric(ctx: &mut Ctx) {
    let max = if ctx.tier.thorough() { 3 } else { 2 };
    for &l in &ASYM_SIZES {
        let (large, universe) = asym_universe(l);
        let nu = universe.len();
        ctx.space(
            &format!("algebra/asymmetric/L{l}"),
            &format!("large group of {l} ids 10,20,..,{} x every subset of size <= {max} of the {nu}-id universe (all its members incl. minimum and maximum + every gap id: 0 and 5 below, 10i+5 between, {} and u32::MAX above) as the small group x both operand orders x 6 operator forms {:?}; every result observed completely (exact ascending content, len, get, contains for every universe id, as_bytes) and the forms compared with each other; for 1-id subsets also `&a | id`, `&a + id`, `a + id`; one case = the subsets with a given smallest id", 10 * l, 10 * l + 5, FORMS.iter().map(|f| f.0).collect::<Vec<_>>()),
        );
        // case for the empty small group, then one per smallest element
        for first in std::iter::once(None).chain((0..nu).map(Some)) {
            if !ctx.take() {
                continue;
            }
            let subsets = match first {
                None => vec![vec![]],
                Some(i) => subsets_starting_at(&universe, i, max),
            };
            let (mut n, mut nontrivial) = (0u64, 0u64);
            for (k, small) in subsets.iter().enumerate() {
                let shared = small.iter().filter(|x| large.binary_search(x).is_ok()).count();
                if shared > 0 && shared < small.len() {
                    nontrivial += 1;
                }
                let mut fp = Fp::new();
                // operand constructions alternate so that every way of building a group meets every shape
                let (vl, vs) = if k % 2 == 0 { (0, 2) } else { (3, 1) };
                n += asym_ops(ctx, &large, small, vl, vs, &universe, &mut fp);
                n += asym_ops(ctx, small, &large, vs, vl, &universe, &mut fp);
                if small.len() == 1 {
                    n += id_case(ctx, &large, small[0], &[vl], &universe, &[], &mut fp);
                }
                ctx.outcome(fp.0);
            }
            ctx.states(2 * subsets.len() as u64);
            ctx.nontrivials(nontrivial);
            ctx.transitions(n);
            ctx.execs(n);
            ctx.validateds(n);
            if first == Some(nu - 2) {
                ctx.sample(|| json!({"large": large, "small_groups": subsets, "operand_orders": ["large op small", "small op large"], "forms": FORMS.iter().map(|f| f.0).collect::<Vec<_>>()}));
            }
        }
    }
}

/// Constructor inputs of the same asymmetric shape: a long sorted run plus a few ids
/// (shared and new, below / inside / above the run) before or after it.
fn constructors_asymmetric(ctx: &mut Ctx) {
    const SHAPES: [&str; 3] = ["large ascending ++ small", "small ++ large ascending", "large descending ++ small descending"];
    // the run of 64 costs as much as all the others together: thorough tier only
    let sizes: &[usize] = if ctx.tier.thorough() { &ASYM_SIZES } else { &ASYM_SIZES[..4] };
    for &l in sizes {
        let (large, universe) = asym_universe(l);
        let nu = universe.len();
        ctx.space(
            &format!("constructors/asymmetric/L{l}"),
            &format!("input = run of the {l} ids 10,20,..,{} combined with every subset of size 1..=2 of the same {nu}-id universe as in algebra/asymmetric/L{l}, in the shapes {SHAPES:?} x the constructors From<Vec<HpoTermId>>, From<Vec<u32>>, From<HashSet<HpoTermId>>, FromIterator<HpoTermId> and (when the subset has neither 0 nor u32::MAX) FromIterator<HpoTerm>; result fully observed, then two further inserts; one case = the subsets with a given smallest id", 10 * l),
        );
        let mut ont: Option<Ontology> = None;
        let futures = [5, 10 * l as u32];
        for first in 0..nu {
            if !ctx.take() {
                continue;
            }
            let ont = ont.get_or_insert_with(|| isolated_ontology(&universe[1..nu - 1]));
            for small in subsets_starting_at(&universe, first, 2) {
                let with_terms = !small.contains(&0) && !small.contains(&u32::MAX);
                for shape in 0..SHAPES.len() {
                    let seq: Vec<u32> = match shape {
                        0 => large.iter().chain(small.iter()).copied().collect(),
                        1 => small.iter().chain(large.iter()).copied().collect(),
                        _ => large.iter().rev().chain(small.iter().rev()).copied().collect(),
                    };
                    constructor_case(ctx, &seq, if with_terms { Some(&*ont) } else { None }, &universe, &futures);
                }
            }
            if first == nu - 2 {
                ctx.sample(|| json!({"run": large, "small": subsets_starting_at(&universe, first, 2), "shapes": SHAPES}));
            }
        }
    }
}

// ---- space: operands whose storage is on the heap although they hold <= 30 ids --------------

/// Every operand of the spaces above that holds <= 30 ids sits in the inline storage: `new`, `with_capacity(0)`,
/// `From<Vec>` of <= 30 entries and `FromIterator` never allocate for so few ids, and the owned operator forms
/// are fed `.clone()`s, which move a short group back inline. These three constructions give a group of <= 30
/// ids whose storage is (by the small-vector's documented behaviour; capacity is not observable) on the heap.
const HEAP_BUILDS: [&str; 3] = ["with_capacity(64) + insert ascending", "From<Vec<u32>> of >= 40 entries: the ids descending, repeated", "`&p | &q` of two inline groups with |p| + |q| > 30 (24 ids and more; fewer: with_capacity(64))"];

fn build_heap_short(sorted: &[u32], variant: usize) -> HpoGroup {
    let n = sorted.len();
    match variant {
        1 if n > 0 => {
            at(CONSTRUCTORS[1]);
            let seq: Vec<u32> = (0..40.max(n + 10)).map(|i| sorted[n - 1 - i % n]).collect();
            HpoGroup::from(seq)
        }
        2 if n >= 24 => {
            let k = (2 * n + 2) / 3;
            let (gp, gq) = (build_operand(&sorted[..k], 0), build_operand(&sorted[n - k..], 2));
            at(FORMS[0].1);
            &gp | &gq
        }
        _ => {
            at("HpoGroup::insert");
            let mut g = HpoGroup::with_capacity(64);
            for x in sorted {
                g.insert(*x);
            }
            g
        }
    }
}

fn rust_heap_operand(name: &str, sorted: &[u32], heap: Option<usize>) -> String {
    let n = sorted.len();
    let lit = |v: &[u32]| v.iter().map(|x| format!("{x}u32")).collect::<Vec<_>>().join(", ");
    match heap {
        None => rust_operand(name, sorted, 0),
        Some(1) if n > 0 => {
            let seq: Vec<u32> = (0..40.max(n + 10)).map(|i| sorted[n - 1 - i % n]).collect();
            format!("let {name} = HpoGroup::from(Vec::<u32>::from([{}]));\n", lit(&seq))
        }
        Some(2) if n >= 24 => {
            let k = (2 * n + 2) / 3;
            format!("let {name} = &HpoGroup::from(Vec::<u32>::from([{}])) | &HpoGroup::from(Vec::<u32>::from([{}]));\n", lit(&sorted[..k]), lit(&sorted[n - k..]))
        }
        Some(_) => format!("let mut {name} = HpoGroup::with_capacity(64);\nfor x in Vec::<u32>::from([{}]) {{ {name}.insert(x); }}\n", lit(sorted)),
    }
}

/// The six operator forms with both operands MOVED into the owned forms (no clone in between).
fn apply_moved(form: usize, a: HpoGroup, b: HpoGroup) -> HpoGroup {
    at(FORMS[form].1);
    match form {
        0 => &a | &b,
        1 => a | b,
        2 => a | &b,
        3 => &a & &b,
        4 => a & b,
        _ => a & &b,
    }
}

/// All six operator forms (and, for a one-id `b`, the three set + id forms) on freshly built operands, `heap_a` /
/// `heap_b` = Some(construction of HEAP_BUILDS) or None (new + insert ascending). Returns the operator executions.
fn heap_ops(ctx: &mut Ctx, a: &[u32], b: &[u32], heap_a: Option<usize>, heap_b: Option<usize>, probes: &[u32], fp: &mut Fp) -> u64 {
    let sa: BTreeSet<u32> = a.iter().copied().collect();
    let sb: BTreeSet<u32> = b.iter().copied().collect();
    let union: Vec<u32> = sa.union(&sb).copied().collect();
    let inter: Vec<u32> = sa.intersection(&sb).copied().collect();
    fp.set(&union);
    fp.set(&inter);
    let (eu, ei) = (Snap::expected(&union, probes), Snap::expected(&inter, probes));
    let mk = |set: &[u32], heap: Option<usize>| match heap {
        Some(v) => build_heap_short(set, v),
        None => build_operand(set, 0),
    };
    let with_id = b.len() == 1;
    let r = guard(|| -> Vec<(String, Diff)> {
        let mut out = vec![];
        for (set, heap) in [(a, heap_a), (b, heap_b)] {
            if let Some(d) = diff(&Snap::of(&mk(set, heap), probes), &Snap::expected(set, probes), "HpoGroup (operand construction)", probes) {
                out.push(("a".to_string(), d));
                return out;
            }
        }
        let snaps: Vec<Snap> = (0..FORMS.len()).map(|f| Snap::of(&apply_moved(f, mk(a, heap_a), mk(b, heap_b)), probes)).collect();
        for f in 0..FORMS.len() {
            if let Some(d) = diff(&snaps[f], if f < 3 { &eu } else { &ei }, FORMS[f].1, probes) {
                out.push((FORMS[f].0.to_string(), d));
            }
        }
        for f in [1usize, 2, 4, 5] {
            let base = if f < 3 { 0 } else { 3 };
            if snaps[f] != snaps[base] {
                out.push((FORMS[f].0.to_string(), (FORMS[f].1.into(), SIG_FORMS_DISAGREE.into(), format!("`{}` gives {:?} (len {}), `{}` gives {:?} (len {})", FORMS[f].0, snaps[f].iter, snaps[f].len, FORMS[base].0, snaps[base].iter, snaps[base].len))));
            }
        }
        // the result of a by-reference form is used once more, and the operands are still what they were
        let (ga, gb) = (mk(a, heap_a), mk(b, heap_b));
        at(FORMS[0].1);
        let u = &ga | &gb;
        at(FORMS[3].1);
        let back = &u & &ga;
        if let Some(d) = diff(&Snap::of(&back, probes), &Snap::expected(a, probes), FORMS[3].1, probes) {
            out.push(("&(&a | &b) & &a".to_string(), d));
        }
        for (g, set) in [(&ga, a), (&gb, b)] {
            if let Some((_, sig, w)) = diff(&Snap::of(g, probes), &Snap::expected(set, probes), FORMS[0].1, probes) {
                out.push(("&a | &b".to_string(), (FORMS[0].1.into(), format!("an operand observed after the operation differs from before: {sig}"), w)));
            }
        }
        if with_id {
            let mut e = sa.clone();
            e.insert(b[0]);
            let e: Vec<u32> = e.into_iter().collect();
            for f in 0..ID_FORMS.len() {
                let ga = mk(a, heap_a);
                at(ID_FORMS[f].1);
                let res = match f {
                    0 => &ga | tid(b[0]),
                    1 => &ga + tid(b[0]),
                    _ => ga + tid(b[0]),
                };
                if let Some(d) = diff(&Snap::of(&res, probes), &Snap::expected(&e, probes), ID_FORMS[f].1, probes) {
                    out.push((format!("{} with id = {}", ID_FORMS[f].0, b[0]), d));
                }
            }
        }
        out
    });
    let how = |h: Option<usize>| h.map_or(BUILDS[0], |v| HEAP_BUILDS[v]);
    let detail = |expr: &str, what: String| json!({"a": a, "b": b, "expression": expr, "operand_construction": [how(heap_a), how(heap_b)], "union": union, "intersection": inter, "difference": what, "rust": format!("use hpo::annotations::AnnotationId;\nuse hpo::term::HpoGroup;\nuse hpo::HpoTermId;\n{}{}let id = HpoTermId::from_u32({}u32);\nlet r = {};\nprintln!(\"{{:?}} len={{}}\", r.iter().map(|i| i.as_u32()).collect::<Vec<_>>(), r.len());\n", rust_heap_operand("a", a, heap_a), rust_heap_operand("b", b, heap_b), b.first().copied().unwrap_or(0), expr.split(" with ").next().unwrap_or(expr))});
    match r {
        Ok(found) => {
            for (expr, (site, sig, what)) in found {
                ctx.violation(&site, &sig, detail(&expr, what));
            }
        }
        Err(msg) => ctx.violation(at_get(), SIG_PANIC, detail("&a | &b", format!("panic: {msg}"))),
    }
    (FORMS.len() + 2 + if with_id { ID_FORMS.len() } else { 0 }) as u64
}

fn algebra_heap_short(ctx: &mut Ctx) {
    let universe = &IDS7[..6];
    let subsets = subsets_simplest_first(6);
    ctx.space(
        "algebra/heap-short-operands/small-universe",
        &format!("all 64 x 64 ordered pairs of subsets of {universe:?} where (a | b | both) are groups of <= 30 ids with heap storage (constructions {:?}, alternating) and are MOVED into the owned operator forms: 6 operator forms against the model and each other, `&(&a | &b) & &a`, operands unchanged, and for one-id b the three set + id forms; one case = one left operand", &HEAP_BUILDS[..2]),
    );
    for &ma in &subsets {
        if !ctx.take() {
            continue;
        }
        let a = pick(universe, ma);
        let (mut n, mut nontrivial) = (0u64, 0u64);
        for (k, &mb) in subsets.iter().enumerate() {
            let b = pick(universe, mb);
            let mut fp = Fp::new();
            for (ha, hb) in [(Some(k % 2), None), (None, Some((k + 1) % 2)), (Some((k + 1) % 2), Some(k % 2))] {
                n += heap_ops(ctx, &a, &b, ha, hb, &IDS7, &mut fp);
            }
            ctx.outcome(fp.0);
            if ma & mb != ma && ma & mb != mb {
                nontrivial += 1;
            }
        }
        ctx.states(3 * subsets.len() as u64);
        ctx.nontrivials(nontrivial);
        ctx.transitions(n);
        ctx.execs(n);
        ctx.validateds(n);
        if ma.count_ones() == 2 {
            ctx.sample(|| json!({"a": a, "b": "each of the 64 subsets", "heap_constructions": &HEAP_BUILDS[..2]}));
        }
    }
    let (short, other) = ([1usize, 15, 24, 29, 30], [0usize, 1, 29, 30, 31, 60]);
    ctx.space(
        "algebra/heap-short-operands/grid",
        &format!("a heap-stored group of {short:?} ids (constructions {HEAP_BUILDS:?}) x a group of {other:?} ids (built by insertion; if it holds <= 30 ids also heap-stored) x overlap {OVERLAPS:?} x both operand orders: 6 operator forms with moved operands against the model and each other; one case = (overlap, sizes)"),
    );
    for kind in 0..OVERLAPS.len() {
        for &ns in &short {
            for &no in &other {
                if !ctx.take() {
                    continue;
                }
                let (a, b) = grid_sets(ns, no, kind);
                let mut probes: Vec<u32> = a.iter().chain(b.iter()).copied().collect();
                let (lo, hi) = (probes.iter().min().copied().unwrap_or(50), probes.iter().max().copied().unwrap_or(50));
                probes.extend([0, lo - 1, hi + 1, u32::MAX]);
                probes.sort_unstable();
                probes.dedup();
                let mut fp = Fp::new();
                let mut n = 0;
                for hv in 0..HEAP_BUILDS.len() {
                    n += heap_ops(ctx, &a, &b, Some(hv), None, &probes, &mut fp);
                    n += heap_ops(ctx, &b, &a, None, Some(hv), &probes, &mut fp);
                    if no <= 30 {
                        n += heap_ops(ctx, &a, &b, Some(hv), Some((hv + 1) % 3), &probes, &mut fp);
                    }
                }
                ctx.outcome(fp.0);
                ctx.state();
                if no > 0 {
                    ctx.nontrivial();
                }
                ctx.transitions(n);
                ctx.execs(n);
                ctx.validateds(n);
                if ns == 29 && no == 31 {
                    ctx.sample(|| json!({"heap_stored_size": ns, "other_size": no, "overlap": OVERLAPS[kind], "a_head": &a[..4], "b_head": &b[..4]}));
                }
            }
        }
    }
}

// ---- space: size pairs between the enumerated islands -----------------------------------------

/// Operand sizes the other algebra spaces leave out: a large group of 65 and more ids against a small one of
/// 1..63 ids, and a large group of 31..64 ids against an irregular small one of 3..15 ids (size ratios up to 333).
fn algebra_asymmetric_ratio(ctx: &mut Ctx) {
    let larges = [31usize, 60, 64, 128, 257, 1000];
    let smalls = [3usize, 4, 5, 6, 8, 15, 33, 63];
    ctx.space(
        "algebra/asymmetric-ratio",
        &format!("large group of L in {larges:?} ids 10,20,..,10L x small groups drawn by a deterministic LCG (seed = L, size, number) from the universe of algebra/asymmetric (all members + every gap id + 0, 5, u32::MAX): sizes {smalls:?} (L <= 64: up to 15), 24 groups per size up to 6 and 6 per larger size; for L >= 128 additionally every one-id group (L = 1000: every 7th) and every two-id group over the 20 universe ids next to both ends and the middle of the large group; both operand orders x 6 operator forms, every result observed completely and the forms compared with each other; one case = (L, kind of small group)"),
    );
    for &l in &larges {
        let (large, universe) = asym_universe(l);
        let nu = universe.len();
        // probes: the whole universe (L = 1000: every 5th id of it; the ids of the small group are always added)
        let base_probes: Vec<u32> = if l >= 1000 { universe.iter().copied().step_by(5).chain([u32::MAX]).collect() } else { universe.clone() };
        let border: Vec<u32> = (0..7).chain(nu / 2 - 3..nu / 2 + 3).chain(nu - 7..nu).map(|i| universe[i]).collect();
        for kind in 0..smalls.len() + 2 {
            let groups: Vec<Vec<u32>> = if kind < smalls.len() {
                let k = smalls[kind];
                if l <= 64 && k > 15 {
                    continue;
                }
                (0..if k <= 6 { 24 } else { 6 }).map(|j| Lcg(1_000_000 * l as u64 + 1000 * k as u64 + j).draw(&universe, k)).collect()
            } else if l < 128 {
                continue;
            } else if kind == smalls.len() {
                universe.iter().step_by(if l >= 1000 { 7 } else { 1 }).map(|x| vec![*x]).collect()
            } else {
                let mut v = vec![];
                for i in 0..border.len() {
                    for j in i + 1..border.len() {
                        v.push(vec![border[i], border[j]]);
                    }
                }
                v
            };
            if !ctx.take() {
                continue;
            }
            let (mut n, mut nontrivial) = (0u64, 0u64);
            for (j, small) in groups.iter().enumerate() {
                let shared = small.iter().filter(|x| large.binary_search(x).is_ok()).count();
                if shared > 0 && shared < small.len() {
                    nontrivial += 1;
                }
                let mut probes = base_probes.clone();
                probes.extend(small.iter().copied());
                probes.sort_unstable();
                probes.dedup();
                let (vl, vs) = if j % 2 == 0 { (0, 2) } else { (3, 1) };
                let mut fp = Fp::new();
                n += asym_ops(ctx, &large, small, vl, vs, &probes, &mut fp);
                n += asym_ops(ctx, small, &large, vs, vl, &probes, &mut fp);
                ctx.outcome(fp.0);
            }
            ctx.states(2 * groups.len() as u64);
            ctx.nontrivials(nontrivial);
            ctx.transitions(n);
            ctx.execs(n);
            ctx.validateds(n);
            if l == 257 && kind == 0 {
                ctx.sample(|| json!({"large": "10, 20, .., 2570", "small_groups": &groups[..4], "operand_orders": ["large op small", "small op large"]}));
            }
        }
    }
}

// ------------------------------------------------------------------------------------------
// ancestor queries
// ------------------------------------------------------------------------------------------

/// One finding of the ancestor checks: (site, signature, query text, what)
type AFind = (String, String, String, String);

/// Check the 8 ancestor queries for the ordered pair (a, b); findings are appended to `out`.
fn check_pair(ont: &Ontology, r: &RefOnt, a: u32, b: u32, probes: &[u32], fp: &mut Fp, out: &mut Vec<AFind>) {
    check_pair_across(ont, r, ont, r, a, b, probes, fp, out)
}

/// The same for term `a` of ontology A and term `b` of ontology B (possibly two instances /
/// two releases): the queries take any two term handles; ancestors of `a` are those in A,
/// ancestors of `b` those in B; the iterator twins resolve the resulting ids in A.
#[allow(clippy::too_many_arguments)]
fn check_pair_across(ont: &Ontology, r: &RefOnt, ont_b: &Ontology, r_b: &RefOnt, a: u32, b: u32, probes: &[u32], fp: &mut Fp, out: &mut Vec<AFind>) {
    at("Ontology::hpo");
    let (Some(ta), Some(tb)) = (ont.hpo(a), ont_b.hpo(b)) else {
        out.push(("Ontology::hpo".into(), "a term of a freshly built ontology cannot be fetched".into(), format!("hpo({a}), hpo({b})"), String::new()));
        return;
    };
    let anc_a = &r.terms[&a].ancestors;
    let anc_b = &r_b.terms[&b].ancestors;
    let common: BTreeSet<u32> = anc_a.intersection(anc_b).copied().collect();
    let all_common: BTreeSet<u32> = r.anc_incl(a).intersection(&r_b.anc_incl(b)).copied().collect();
    let union: BTreeSet<u32> = anc_a.union(anc_b).copied().collect();
    let mut union_incl = union.clone();
    union_incl.insert(a);
    union_incl.insert(b);
    let v = |s: &BTreeSet<u32>| -> Vec<u32> { s.iter().copied().collect() };

    // ---- id variants with one documented reading
    let mut twins: Vec<Vec<u32>> = vec![];
    let plain: [(&'static str, &BTreeSet<u32>, &str); 3] = [
        ("HpoTerm::common_ancestor_ids", &common, "anc(a) \u{2229} anc(b)"),
        ("HpoTerm::all_common_ancestor_ids", &all_common, "(anc(a)\u{222a}{a}) \u{2229} (anc(b)\u{222a}{b})"),
        ("HpoTerm::union_ancestor_ids", &union, "anc(a) \u{222a} anc(b)"),
    ];
    for (i, (site, expect, formula)) in plain.iter().enumerate() {
        at(site);
        let g = match i {
            0 => ta.common_ancestor_ids(&tb),
            1 => ta.all_common_ancestor_ids(&tb),
            _ => ta.union_ancestor_ids(&tb),
        };
        let obs = Snap::of(&g, probes);
        fp.set(&obs.iter);
        if let Some((s, sig, what)) = diff(&obs, &Snap::expected(&v(expect), probes), site, probes) {
            // wrong content is blamed on the query (with the formula); an accessor that misreports a correct result keeps its own site
            let sig = if s == *site { format!("{sig}; expected {formula}") } else { sig };
            out.push((s, sig, format!("{site}({a}, {b})"), what));
        }
        if obs.iter.iter().all(|x| r.terms.contains_key(x)) {
            // resolving iterator over a group: HpoGroup::terms yields the terms of exactly the group's ids (order of
            // iteration: as for Combined, the multiset is compared)
            at("HpoGroup::terms");
            let mut resolved: Vec<u32> = g.terms(ont).map(|t| t.id().as_u32()).collect();
            resolved.sort_unstable();
            let mut own = obs.iter.clone();
            own.sort_unstable();
            if resolved != own {
                out.push(("HpoGroup::terms".into(), "yields other terms than the ids of the group".into(), format!("{site}({a}, {b}).terms(ontology)"), format!("yields {resolved:?}, the group holds {own:?} (both sorted)")));
            }
            if i == 2 {
                if let Err((s, sig, what)) = iter_protocol(|| g.terms(ont), |t| t.id().as_u32(), "HpoGroup::terms", true) {
                    out.push((s, sig, format!("{site}({a}, {b}).terms(ontology)"), what));
                }
            }
        }
        twins.push(obs.iter);
    }

    // ---- all_union_ancestor_ids: two accepted readings
    at("HpoTerm::all_union_ancestor_ids");
    let g = ta.all_union_ancestor_ids(&tb);
    let obs = Snap::of(&g, probes);
    fp.set(&obs.iter);
    let (excl, incl) = (v(&union), v(&union_incl));
    let site = "HpoTerm::all_union_ancestor_ids";
    // the reading is bound for terms of ONE ontology only (two instances are outside the quantifier); incl != excl
    // whenever the ontology is acyclic (neither term is its own ancestor), so the reading of an answer is identifiable
    let bind_reading = std::ptr::eq(ont, ont_b) && incl != excl;
    let ids_form_answer = obs.iter.clone();
    if obs.iter == incl || obs.iter == excl {
        if obs.iter != incl {
            out.push((site.into(), SIG_KNOWN_UNION.into(), format!("{site}({a}, {b})"), format!("returned {:?} = anc(a)\u{222a}anc(b); with self and other it would be {:?}", obs.iter, incl)));
        }
        if bind_reading {
            if let Some(sig) = note_reading(if obs.iter == incl { 1 } else { 2 }) {
                out.push((site.into(), sig.into(), format!("{site}({a}, {b})"), format!("returned {:?}; exclusive reading {:?}, inclusive reading {:?}", obs.iter, excl, incl)));
            }
        }
        let reading = obs.iter.clone();
        if let Some((s, sig, what)) = diff(&obs, &Snap::expected(&reading, probes), site, probes) {
            out.push((s, sig, format!("{site}({a}, {b})"), what));
        }
    } else {
        out.push((site.into(), SIG_NEITHER_UNION.into(), format!("{site}({a}, {b})"), format!("returned {:?}; exclusive reading {:?}, inclusive reading {:?}", obs.iter, excl, incl)));
    }

    // ---- iterator twins
    let iters: [(&'static str, Option<usize>); 4] = [("HpoTerm::common_ancestors", Some(0)), ("HpoTerm::all_common_ancestors", Some(1)), ("HpoTerm::union_ancestors", Some(2)), ("HpoTerm::all_union_ancestors", None)];
    for (i, (site, twin)) in iters.iter().enumerate() {
        at(site);
        let c = match i {
            0 => ta.common_ancestors(&tb),
            1 => ta.all_common_ancestors(&tb),
            2 => ta.union_ancestors(&tb),
            _ => ta.all_union_ancestors(&tb),
        };
        // order of iteration is not part of the property: compare the multisets of ids
        let mut ids: Vec<u32> = c.iter().map(|t| t.id().as_u32()).collect();
        ids.sort_unstable();
        let mut ids2: Vec<u32> = vec![];
        for t in &c {
            ids2.push(t.id().as_u32());
        }
        ids2.sort_unstable();
        let (len, is_empty) = (c.len(), c.is_empty());
        if let Err((s, sig, what)) = iter_protocol(|| c.iter(), |t| t.id().as_u32(), "Combined::iter", true) {
            out.push((s, sig, format!("{site}({a}, {b}).iter()"), what));
        }
        if len <= 8 {
            if let Err((s, sig, what)) = iter_protocol(|| (&c).into_iter(), |t| t.id().as_u32(), "<&Combined as IntoIterator>::into_iter", true) {
                out.push((s, sig, format!("{site}({a}, {b}).into_iter()"), what));
            }
        }
        fp.set(&ids);
        let site = site.to_string();
        let q = format!("{site}({a}, {b})");
        match twin {
            Some(t) => {
                let expect = v(plain[*t].1);
                if ids != expect {
                    let sig = if strictly_ascending(&ids) { SIG_MEMBERS } else { "yields an id more than once" };
                    out.push((site, format!("{sig}; expected {}", plain[*t].2), q.clone(), format!("yields {ids:?}, expected {expect:?}")));
                } else {
                    let mut twin_ids = twins[*t].clone();
                    twin_ids.sort_unstable();
                    if ids != twin_ids {
                        out.push((site, SIG_TWIN.into(), q.clone(), format!("yields {ids:?}, twin returns {twin_ids:?} (both sorted)")));
                    }
                }
            }
            None => {
                if ids == incl || ids == excl {
                    if ids != incl {
                        out.push((site.clone(), SIG_KNOWN_UNION.into(), q.clone(), format!("yields {ids:?} = anc(a)\u{222a}anc(b); with self and other it would be {incl:?}")));
                    }
                    // like the other three twins: when both forms answer in one of the two readings, it is the same one
                    if (ids_form_answer == incl || ids_form_answer == excl) && ids != ids_form_answer {
                        out.push((site.clone(), SIG_TWIN.into(), q.clone(), format!("yields {ids:?}, twin returns {ids_form_answer:?} (both sorted)")));
                    }
                    if bind_reading {
                        if let Some(sig) = note_reading(if ids == incl { 1 } else { 2 }) {
                            out.push((site, sig.into(), q.clone(), format!("yields {ids:?}; exclusive reading {excl:?}, inclusive reading {incl:?}")));
                        }
                    }
                } else {
                    out.push((site, SIG_NEITHER_UNION.into(), q.clone(), format!("yields {ids:?}; exclusive reading {excl:?}, inclusive reading {incl:?}")));
                }
            }
        }
        if ids2 != ids {
            out.push(("<&Combined as IntoIterator>::into_iter".into(), "yields something else than iter()".into(), q.clone(), format!("{ids2:?} vs {ids:?}")));
        }
        if len != ids.len() {
            out.push(("Combined::len".into(), "differs from the number of terms iterated".into(), q.clone(), format!("len() = {len}, iter() yields {ids:?}")));
        }
        if is_empty != ids.is_empty() {
            out.push(("Combined::is_empty".into(), "disagrees with the terms iterated".into(), q, format!("is_empty() = {is_empty}, iter() yields {ids:?}")));
        }
    }
}

/// How the ontology of an ancestor case is constructed.
#[derive(Clone, Copy, PartialEq, Eq, Debug)]
enum Via {
    /// Builder + build_minimal
    Builder,
    /// independent encoder (binary v3, carries obsolete flags / replacements) -> Ontology::from_bytes
    Binary,
}

/// Construct the ontology; Ok((ontology, Rust source that yields `ont`)) or the violation to report.
fn construct_ontology(f: &Facts, via: Via) -> Result<(Ontology, String), Viol> {
    match via {
        Via::Builder => match drive::build(f, Mode::Minimal) {
            Ok(ont) => Ok((ont, f.to_rust(false))),
            Err(e) => Err(("Builder".into(), "[builder] construction fails on valid facts".into(), json!({"case": f.to_json(), "observed": e}))),
        },
        Via::Binary => {
            let bytes = encode::encode(f, &EncOpts::v(3));
            let src = if bytes.len() <= 4096 {
                let lit: Vec<String> = bytes.iter().map(|b| b.to_string()).collect();
                format!("// binary v3 file holding the facts of this record (obsolete flags and replacements included)\nlet bytes: Vec<u8> = vec![{}];\nlet ont = hpo::Ontology::from_bytes(&bytes).unwrap();\n", lit.join(","))
            } else {
                format!("// ont = hpo::Ontology::from_bytes(<the {}-byte binary v3 file the harness encoder writes for the facts of this record>); re-run it with `hpo-verif C12 --replay <this file>`\n", bytes.len())
            };
            match drive::from_bytes(&bytes) {
                Ok(Ok(ont)) => Ok((ont, src)),
                Ok(Err(e)) => Err(("Ontology::from_bytes".into(), "[binary v3] rejects a file laid out as documented".into(), json!({"case": f.to_json(), "observed": e, "bytes_len": bytes.len()}))),
                Err(p) => Err(("Ontology::from_bytes".into(), "[binary v3] panics on a file laid out as documented".into(), json!({"case": f.to_json(), "observed": p, "bytes_len": bytes.len()}))),
            }
        }
    }
}

fn rust_query(prelude: &str, query: &str) -> String {
    rust_query2(prelude, query, "ont")
}

/// `other` = name of the variable holding the ontology of the second term
fn rust_query2(prelude: &str, query: &str, other: &str) -> String {
    // query looks like "HpoTerm::xyz(a, b)"
    let (name, args) = query.trim_start_matches("HpoTerm::").split_once('(').unwrap_or((query, "0, 0)"));
    let args = args.split(')').next().unwrap_or("0, 0");
    let (a, b) = args.split_once(", ").unwrap_or(("0", "0"));
    let show = if name.ends_with("_ids") { "r.iter().map(|i| i.as_u32()).collect::<Vec<_>>()" } else { "r.iter().map(|t| t.id().as_u32()).collect::<Vec<_>>()" };
    format!("use hpo::annotations::AnnotationId;\n{prelude}let a = ont.hpo({a}u32).unwrap();\nlet b = {other}.hpo({b}u32).unwrap();\nlet r = a.{name}(&b);\nprintln!(\"{{:?}}\", {show});\n")
}

/// Run the ordered pairs (a in `firsts`, b in `seconds` or, if None, in all terms) on the ontology
/// constructed from `f` by `via`; `r` is the reference closure of `f`.
#[allow(clippy::too_many_arguments)]
fn ancestor_case(ctx: &mut Ctx, seen: &mut BTreeSet<String>, f: &Facts, r: &RefOnt, via: Via, firsts: &[u32], seconds: Option<&[u32]>, shape: &str) {
    let ids: Vec<u32> = r.terms.keys().copied().collect();
    let seconds: &[u32] = seconds.unwrap_or(&ids);
    let npairs = (firsts.len() * seconds.len()) as u64;
    ctx.transitions(f.n_steps() + npairs * 8);
    ctx.execs(npairs * 8);
    ctx.validateds(npairs * 8);
    let (ont, prelude) = match construct_ontology(f, via) {
        Ok(x) => x,
        Err((site, sig, detail)) => {
            ctx.violation(&site, &sig, detail);
            return;
        }
    };
    let mut found: Vec<AFind> = vec![];
    let mut fp = Fp::new();
    reading_new_ontology();
    let res = guard(|| {
        for &a in firsts {
            for &b in seconds {
                check_pair(&ont, r, a, b, &ids, &mut fp, &mut found);
            }
        }
    });
    ctx.outcome(fp.0);
    if let Err(msg) = res {
        ctx.violation(at_get(), SIG_PANIC, json!({"facts": facts_json(f), "shape": shape, "constructed_via": format!("{via:?}"), "panic": msg, "rust": prelude}));
    }
    for (site, sig, query, what) in found {
        // full detail only for the first report of a kind in this process; later ones are only counted
        let key = format!("{site}|{sig}");
        if seen.contains(&key) {
            ctx.violation(&site, &sig, Value::Null);
        } else {
            ctx.violation(&site, &sig, json!({"facts": facts_json(f), "shape": shape, "constructed_via": format!("{via:?}"), "query": query, "difference": what, "rust": rust_query(&prelude, &query)}));
            seen.insert(key);
        }
    }
}

/// Facts as JSON; very large fact sets (the chain of 300) are abbreviated, their shape text describes them.
fn facts_json(f: &Facts) -> Value {
    if f.terms.len() <= 70 {
        f.to_json()
    } else {
        json!({"n_terms": f.terms.len(), "n_links": f.edges.len(), "first_terms": f.terms.iter().take(8).map(|t| t.id).collect::<Vec<_>>(), "first_links (child,parent)": f.edges.iter().take(8).collect::<Vec<_>>(), "last_links (child,parent)": f.edges.iter().rev().take(4).collect::<Vec<_>>()})
    }
}

fn ancestors_dags(ctx: &mut Ctx, seen: &mut BTreeSet<String>) {
    let max_n = if ctx.tier.thorough() { 5 } else { 4 };
    for n in 1..=max_n {
        let dags = all_dags(n);
        ctx.space(
            &format!("ancestors/D{n}/all-ordered-pairs"),
            &format!("{} labelled DAGs on {n} terms (ids {:?}, Builder, build_minimal) x {} ordered pairs (incl. a term with itself) x 8 queries (common/all_common/union/all_union x _ids/iterator)", dags.len(), &POOL[..n], n * n),
        );
        for d in &dags {
            if !ctx.take() {
                continue;
            }
            ctx.state();
            if d.n_edges() > 0 {
                ctx.nontrivial();
            }
            let f = Facts::from_dag(d, &POOL);
            let firsts: Vec<u32> = POOL[..n].to_vec();
            ancestor_case(ctx, seen, &f, &RefOnt::derive(&f), Via::Builder, &firsts, None, &d.describe());
            ctx.sample(|| json!({"dag": d.describe(), "ids": &POOL[..n], "ordered_pairs": n * n}));
        }
    }
}

/// Hand-enumerated large shapes whose ancestor sets cross the inline limit of 30:
/// (name, number of nodes, edges child->parent as node indices)
fn deep_shapes() -> Vec<(&'static str, usize, Vec<(usize, usize)>)> {
    let chain = |from: usize, to: usize| -> Vec<(usize, usize)> { (from + 1..to).map(|i| (i, i - 1)).collect() };
    let mut shapes = vec![];
    shapes.push(("chain of 40", 40, chain(0, 40)));
    // trunk 0..32, two branches of 5 hanging below node 31
    let mut y = chain(0, 32);
    y.push((32, 31));
    y.extend(chain(32, 37));
    y.push((37, 31));
    y.extend(chain(37, 42));
    shapes.push(("Y: trunk of 32, two branches of 5", 42, y));
    // two unrelated chains of 31 and 33
    let mut two = chain(0, 31);
    two.extend(chain(31, 64));
    shapes.push(("two unrelated chains of 31 and 33", 64, two));
    // fan: root 0, 36 children 1..=36; node 37 below 1..=35, node 38 below 3..=36
    let mut fan: Vec<(usize, usize)> = (1..=36).map(|i| (i, 0)).collect();
    fan.extend((1..=35).map(|p| (37, p)));
    fan.extend((3..=36).map(|p| (38, p)));
    shapes.push(("fan: 36 siblings, two terms with 35 and 34 direct parents", 39, fan));
    shapes
}

fn ancestors_deep(ctx: &mut Ctx, seen: &mut BTreeSet<String>) {
    let shapes = deep_shapes();
    ctx.space(
        "ancestors/deep",
        &format!("shapes {:?} x 2 id assignments (10+3i ascending with depth, 5000-7i descending) x all ordered pairs x 8 queries; ancestor sets of up to 39 ids (inline storage holds 30); one case = (shape, ids, first term)", shapes.iter().map(|s| s.0).collect::<Vec<_>>()),
    );
    for (name, n, edges) in &shapes {
        for idkind in 0..2 {
            let id = |i: usize| -> u32 { if idkind == 0 { 10 + 3 * i as u32 } else { 5000 - 7 * i as u32 } };
            let mut f: Option<(Facts, RefOnt)> = None;
            for first in 0..*n {
                if !ctx.take() {
                    continue;
                }
                let (f, r) = f.get_or_insert_with(|| {
                    let f = Facts { terms: (0..*n).map(|i| Facts::term(id(i), &format!("T{}", id(i)))).collect(), edges: edges.iter().map(|(c, p)| (id(*c), id(*p))).collect(), anns: vec![], version: (0, 0, 0) };
                    let r = RefOnt::derive(&f);
                    (f, r)
                });
                ctx.state();
                ctx.nontrivial();
                ancestor_case(ctx, seen, f, r, Via::Builder, &[id(first)], None, name);
                if first == n - 1 {
                    ctx.sample(|| json!({"shape": name, "ids": if idkind == 0 { "10+3i" } else { "5000-7i" }, "first_term": id(first), "second_terms": n}));
                }
            }
        }
    }
}

/// D(2..) through the decoder with obsolete flags / replacements, which only a decoded ontology can carry.
fn ancestors_flagged(ctx: &mut Ctx, seen: &mut BTreeSet<String>) {
    let max_n = if ctx.tier.thorough() { 5 } else { 4 };
    for n in 2..=max_n {
        let dags = all_dags(n);
        ctx.space(
            &format!("ancestors/binary-flags/D{n}/all-ordered-pairs"),
            &format!("{} labelled DAGs on {n} terms (ids {:?}) encoded as binary v3 and decoded by Ontology::from_bytes x {} flag variants (no flags; each single term obsolete + replaced by the next term; all terms obsolete + replaced by the next) x {} ordered pairs x 8 queries; flags must not influence the set algebra; one case = one DAG", dags.len(), &POOL_ROOTS[..n], n + 2, n * n),
        );
        for d in &dags {
            if !ctx.take() {
                continue;
            }
            if d.n_edges() > 0 {
                ctx.nontrivial();
            }
            let mut base = Facts::from_dag(d, &POOL_ROOTS);
            base.version = (2024, 2, 29);
            let r = RefOnt::derive(&base);
            let firsts: Vec<u32> = POOL_ROOTS[..n].to_vec();
            // variant 0: no flags; 1..=n: term v-1 flagged; n+1: all flagged
            for v in 0..n + 2 {
                let mut f = base.clone();
                let mut flagged = vec![];
                for k in 0..n {
                    if v == k + 1 || v == n + 1 {
                        f.terms[k].obsolete = true;
                        f.terms[k].replacement = Some(f.terms[(k + 1) % n].id);
                        flagged.push(f.terms[k].id);
                    }
                }
                // the reference closure does not look at flags
                assert!(RefOnt::derive(&f).terms.iter().all(|(id, t)| t.ancestors == r.terms[id].ancestors), "harness: the reference closure must not look at flags");
                ctx.state();
                ancestor_case(ctx, seen, &f, &r, Via::Binary, &firsts, None, &format!("{}; obsolete+replaced: {:?}", d.describe(), flagged));
            }
            ctx.sample(|| json!({"dag": d.describe(), "ids": &POOL_ROOTS[..n], "flag_variants": n + 2, "ordered_pairs": n * n, "constructed_via": "encode v3 -> Ontology::from_bytes"}));
        }
    }
}

/// Chain of 300 terms (node i is_a node i-1, node 0 the root) = up to 299 ancestors, beyond every
/// 8-bit depth / size counter, with side term X below node 290 and node 5 and side term Y below node 5.
fn ancestors_chain300(ctx: &mut Ctx, seen: &mut BTreeSet<String>) {
    const N: usize = 300;
    let (x, y) = (N, N + 1);
    let mut sel: Vec<usize> = vec![0, 1, 4, 5, 6, 253, 254, 255, 256, 257, 258, 259, 260, 289, 290, 291, 298, 299, x, y];
    sel.sort_unstable();
    let idmaps = ["node i -> HP:(i+1): ids ascend with depth, root = HP:1", "node i -> HP:(302-i): ids descend with depth, root = HP:302"];
    ctx.space(
        "ancestors/chain300",
        &format!("chain of {N} terms (255 / 256 / 257 ancestors lie inside it) + side term X (node {x}) below nodes 290 and 5 + side term Y (node {y}) below node 5, ids 1..=302 (HP:1 and HP:118 present) in 2 assignments {idmaps:?} x constructed via Builder + build_minimal and via binary v3 -> Ontology::from_bytes x all ordered pairs of the {} selected nodes {sel:?} (both ends, 253..=260, the branch points and their neighbours, both side terms) x 8 queries; one case = (ids, construction, first term)", sel.len()),
    );
    for idkind in 0..2 {
        let id = |i: usize| -> u32 { if idkind == 0 { i as u32 + 1 } else { 302 - i as u32 } };
        let mut cache: Option<(Facts, RefOnt)> = None;
        for via in [Via::Builder, Via::Binary] {
            for &first in &sel {
                if !ctx.take() {
                    continue;
                }
                let (f, r) = cache.get_or_insert_with(|| {
                    let mut edges: Vec<(u32, u32)> = (1..N).map(|i| (id(i), id(i - 1))).collect();
                    edges.extend([(id(x), id(290)), (id(x), id(5)), (id(y), id(5))]);
                    let f = Facts { terms: (0..N + 2).map(|i| Facts::term(id(i), &format!("T{}", id(i)))).collect(), edges, anns: vec![], version: (2024, 2, 29) };
                    let r = RefOnt::derive(&f);
                    assert_eq!(r.terms[&id(N - 1)].ancestors.len(), N - 1, "harness: chain closure");
                    assert_eq!(r.terms[&id(x)].ancestors.len(), 291, "harness: side term closure");
                    (f, r)
                });
                ctx.state();
                ctx.nontrivial();
                let seconds: Vec<u32> = sel.iter().map(|i| id(*i)).collect();
                ancestor_case(ctx, seen, f, r, via, &[id(first)], Some(&seconds), &format!("chain of {N} + side terms; {}", idmaps[idkind]));
                if first == N - 1 {
                    ctx.sample(|| json!({"shape": "chain of 300 + 2 side terms", "ids": idmaps[idkind], "constructed_via": format!("{via:?}"), "first_term": id(first), "ancestors_of_first_term": r.terms[&id(first)].ancestors.len(), "second_terms": seconds}));
                }
            }
        }
    }
}

/// Two ontologies (two "releases" over the same ids): every term of A against every term of B.
fn ancestors_across(ctx: &mut Ctx, seen: &mut BTreeSet<String>) {
    for n in [3usize, 4] {
        let dags = all_dags(n);
        let total = dags.len() * dags.len();
        let stride = if n == 4 && !ctx.tier.thorough() { 97 } else { 1 };
        ctx.space(
            &format!("ancestors/two-instances/D{n}xD{n}"),
            &format!("ordered pairs (A, B) of the {} labelled DAGs on the ids {:?}{}: both built as separate Ontology instances (Builder, build_minimal), then for all {} pairs (a in A, b in B), equal ids included, the 8 queries a.query(b): every answer against set algebra on anc_A(a) and anc_B(b), a refused query (panic) is accepted and counted; iterator twins resolve in A (all ids exist in both); one case = one (A, B)", dags.len(), &POOL[..n], if stride == 1 { format!(" (all {total})") } else { format!(" - every {stride}th of the {total} pairs in row-major order") }, n * n),
        );
        if stride != 1 {
            ctx.mark_partial(&format!("ancestors/two-instances/D4xD4: quick tier takes every {stride}th ordered pair of graphs (all pairs in the thorough tier)"));
        }
        let ids: Vec<u32> = POOL[..n].to_vec();
        for (i, da) in dags.iter().enumerate() {
            for (j, db) in dags.iter().enumerate() {
                if (i * dags.len() + j) % stride != 0 {
                    continue;
                }
                if !ctx.take() {
                    continue;
                }
                ctx.state();
                if da != db {
                    ctx.nontrivial();
                }
                let (fa, fb) = (Facts::from_dag(da, &POOL), Facts::from_dag(db, &POOL));
                let (ra, rb) = (RefOnt::derive(&fa), RefOnt::derive(&fb));
                let npairs = (n * n) as u64;
                ctx.transitions(fa.n_steps() + fb.n_steps() + npairs * 8);
                ctx.execs(npairs * 8);
                let shape = format!("A: {}; B: {}", da.describe(), db.describe());
                let (oa, ob) = match (construct_ontology(&fa, Via::Builder), construct_ontology(&fb, Via::Builder)) {
                    (Ok(a), Ok(b)) => (a, b),
                    (Err(v), _) | (_, Err(v)) => {
                        ctx.violation(&v.0, &v.1, v.2);
                        continue;
                    }
                };
                let mut found: Vec<AFind> = vec![];
                let mut fp = Fp::new();
                // the property quantifies over pairs of terms of ONE ontology: a query across two instances may be
                // refused (a panic is the only refusal these signatures allow); every answer that IS given is held
                // to the set algebra on anc_A(a) and anc_B(b)
                let mut refused = 0u64;
                for &a in &ids {
                    for &b in &ids {
                        if guard(|| check_pair_across(&oa.0, &ra, &ob.0, &rb, a, b, &ids, &mut fp, &mut found)).is_err() {
                            refused += 1;
                        }
                    }
                }
                // (validated = queries of pairs that were answered and judged; a refused pair judges nothing)
                ctx.validateds((npairs - refused) * 8);
                ctx.bump("refused: ancestor queries on terms of two Ontology instances panic (pairs of terms, 8 queries each)", refused);
                ctx.bump("two-instances: pairs of terms asked", npairs);
                ctx.outcome(fp.0);
                let prelude = || format!("{}{}", ob.1.replace("let ont = ", "let ont_b = "), oa.1);
                for (site, sig, query, what) in found {
                    let key = format!("{site}|{sig}");
                    if seen.contains(&key) {
                        ctx.violation(&site, &sig, Value::Null);
                    } else {
                        ctx.violation(&site, &sig, json!({"facts_a (first term's ontology)": fa.to_json(), "facts_b (second term's ontology)": fb.to_json(), "shape": shape, "query": query, "difference": what, "rust": rust_query2(&prelude(), &query, "ont_b")}));
                        seen.insert(key);
                    }
                }
                if i == 3 && j == 5 {
                    ctx.sample(|| json!({"A": da.describe(), "B": db.describe(), "ids": &ids, "term_pairs": n * n}));
                }
            }
        }
    }
}

pub fn run(ctx: &mut Ctx) {
    ctx.rule = "histories: every insertion sequence over a 5-id alphabet up to the length bound, shortest first, executed step by step next to a BTreeSet (non-trivial = contains a repeated id and an id smaller than an earlier one), and every such sequence with clear() as a sixth letter that contains a clear() (non-trivial = an insert follows the clear() of a non-empty group); BFS: one case per distinct content, all insertion routes into it compared with each other and the model (non-trivial = at least two routes); inline-limit / constructors / algebra: one case per (order, ids, start) resp. input sequence resp. operand pair (asymmetric spaces: one case per smallest id of the small group / extra ids resp. per (size of the large group, kind of small group), non-trivial = the small group shares an id with the large one and brings a new one; heap-short operands: one case per left operand resp. (overlap, sizes)), distinct by construction (non-trivial: constructor input is not already strictly ascending, i.e. needs sorting or de-duplication; operands neither empty nor nested); ancestors: one case per labelled DAG (all ordered pairs; binary-flags: all flag variants of it) or per (deep shape / chain of 300, ids, construction, first term) (non-trivial = has a link), or per ordered pair of graphs built as two instances (non-trivial = the graphs differ); outcomes are fingerprints of the observed contents / results".into();
    ctx.assumptions = vec![
        "any u32 is a legal id for HpoGroup (0 and u32::MAX included); the documentation states no restriction".into(),
        "HpoGroup::with_capacity: capacity is not observable; only the behaviour of the resulting empty group is checked".into(),
        "From<HashSet<HpoTermId>>: the iteration order of the std HashSet (RandomState) is not controlled; the result must not depend on it".into(),
        "the families named 'LCG' (shuffled constructor inputs, irregular operand pairs) are fixed lists generated by a deterministic generator with constant seeds; they are the same in every run and process and are enumerated completely".into(),
        "operands of the operators are groups built through the public API (insert / From / FromIterator), never hand-crafted unsorted storage".into(),
        "heap-short operands: that with_capacity(n > 30), From<Vec> of more than 30 entries and the result of `|` on operands with more than 30 ids together keep their ids on the heap is the documented behaviour of the small-vector the group is built on; it cannot be observed through the public API and nothing is demanded about it".into(),
        "as_bytes: the byte layout is not part of this property (C07 / C08); it is only demanded that groups of equal content serialise alike".into(),
        "HpoTerm::all_union_ancestor_ids / all_union_ancestors: the documentation contradicts itself (prose: self and other included; doc-test: not included); exactly these two readings are accepted, the exclusive one is reported as the known finding".into(),
        "ancestor queries: acyclic ontologies; built with Builder + build_minimal, and (binary-flags, chain300) also decoded from a binary v3 file written by the independent encoder, where terms may be flagged obsolete / replaced - the property quantifies over all terms of all ontologies and its set algebra does not mention flags, so flagged terms count like any other; both terms belong to the same ontology".into(),
        "two-instances: the ancestor queries accept any two HpoTerm handles, but the statement quantifies over pairs of terms of one ontology: a query on terms of two Ontology instances may be refused (panic); an answer that is given must be the set algebra on each term's ancestors in its own ontology (what the crate's comparison of two releases relies on); both instances hold the same ids, so the resolving twins can resolve every result in the first term's ontology".into(),
        "iterator adaptors (count, size_hint, nth, skip, last) of hpo's iterators must agree with their own forward iteration; size_hint only has to bracket the number of remaining items".into(),
        "Combined (iterator twins): the order of iteration is not part of the property; the multiset of yielded ids is compared (so a repeated id is still caught)".into(),
    ];
    histories(ctx);
    histories_with_clear(ctx);
    bfs(ctx);
    inline_limit(ctx);
    large_live(ctx);
    constructors(ctx);
    constructors_many(ctx);
    algebra_small(ctx);
    algebra_large(ctx);
    algebra_large_irregular(ctx);
    algebra_mid_irregular(ctx);
    algebra_asymmetric(ctx);
    algebra_asymmetric_ratio(ctx);
    algebra_heap_short(ctx);
    constructors_asymmetric(ctx);
    let mut seen: BTreeSet<String> = BTreeSet::new();
    ancestors_dags(ctx, &mut seen);
    ancestors_deep(ctx, &mut seen);
    ancestors_flagged(ctx, &mut seen);
    ancestors_chain300(ctx, &mut seen);
    ancestors_across(ctx, &mut seen);
}
