//! C10 - lookups are exact for every possible id and every name.

use crate::ctx::{guard, Ctx};
use crate::drive;
use crate::model::{Facts, Kind, Mode};
use crate::space::permutations;
use hpo::annotations::{AnnotationId, Disease};
use hpo::{HpoTerm, Ontology};
use serde_json::json;
use std::collections::{BTreeMap, BTreeSet};

const MAX_ID: u32 = 10_000_000;

fn border_keys() -> Vec<u32> {
    let mut v: Vec<u32> = vec![];
    for k in 0..32 {
        let p = 1u32 << k;
        v.extend([p.wrapping_sub(1), p, p.wrapping_add(1)]);
    }
    v.extend(MAX_ID - 3..=MAX_ID + 3);
    v.extend([99_999_999, 100_000_000, 1_000_000_000, u32::MAX - 1, u32::MAX, 0, 1, 2, 3, 117, 118, 119]);
    v.sort_unstable();
    v.dedup();
    v
}

type V = Option<(String, String, String)>;

/// the data a term was added with
#[derive(Clone, Debug, Default, PartialEq)]
struct Want {
    /// every name the id was added with (more than one only when new_term was called twice for the id: which of
    /// the calls counts is not part of the property)
    names: Vec<String>,
    obsolete: bool,
    replacement: Option<u32>,
    /// direct parents, ascending
    parents: Vec<u32>,
}

type Added = BTreeMap<u32, Want>;

fn added_from_facts(f: &Facts) -> Added {
    let mut m: Added = BTreeMap::new();
    for t in &f.terms {
        let w = m.entry(t.id).or_insert_with(|| Want { names: vec![], obsolete: t.obsolete, replacement: t.replacement, parents: vec![] });
        if !w.names.contains(&t.name) {
            w.names.push(t.name.clone());
        }
    }
    for &(c, p) in &f.edges {
        if m.contains_key(&p) {
            if let Some(w) = m.get_mut(&c) {
                if !w.parents.contains(&p) {
                    w.parents.push(p);
                }
            }
        }
    }
    for w in m.values_mut() {
        w.parents.sort_unstable();
    }
    m
}

/// The same facts with the ids INSIDE every record of a binary file in ascending order: the parents of one term
/// and the terms of one gene / disease keep the list positions they have, sorted among themselves (the order of
/// the records - first appearance - stays as it is). `Ontology::as_bytes` writes such lists; the layout tables
/// are silent about other orders.
pub(super) fn with_ascending_lists(f: &Facts) -> Facts {
    let mut g = f.clone();
    let children: BTreeSet<u32> = f.edges.iter().map(|e| e.0).collect();
    for c in children {
        let pos: Vec<usize> = (0..f.edges.len()).filter(|i| f.edges[*i].0 == c).collect();
        let mut ps: Vec<u32> = pos.iter().map(|i| f.edges[*i].1).collect();
        ps.sort_unstable();
        for (k, i) in pos.iter().enumerate() {
            g.edges[*i].1 = ps[k];
        }
    }
    let recs: BTreeSet<(Kind, u32)> = f.anns.iter().map(|a| (a.kind, a.id)).collect();
    for (kind, id) in recs {
        let pos: Vec<usize> = (0..f.anns.len()).filter(|i| f.anns[*i].kind == kind && f.anns[*i].id == id && f.anns[*i].term.is_some()).collect();
        let mut ts: Vec<Option<u32>> = pos.iter().map(|i| f.anns[*i].term).collect();
        ts.sort_unstable();
        for (k, i) in pos.iter().enumerate() {
            g.anns[*i].term = ts[k];
        }
    }
    g
}

/// How often decode_tolerant forgave a refusal because the ascending file was accepted (one process per worker, so
/// this is a per-worker counter; the property that called decode_tolerant books it with take_ascending_retries()).
static ASCENDING_RETRY_ACCEPTED: std::sync::atomic::AtomicU64 = std::sync::atomic::AtomicU64::new(0);

/// Number of forgiven refusals since the last call (to be booked by the caller: ctx.bump("refused: ...", n)).
pub(super) fn take_ascending_retries() -> u64 {
    ASCENDING_RETRY_ACCEPTED.swap(0, std::sync::atomic::Ordering::Relaxed)
}

/// Encode (independent encoder) and decode. A decoder may insist on ascending ids inside a record (no property
/// says that it must take them in any order): when the file is refused AND some list in it is not ascending, the
/// same facts are written once more with ascending lists and that file decides. Err(what the decoder said).
pub(super) fn decode_tolerant(pf: &Facts, o: &crate::encode::EncOpts) -> Result<Ontology, String> {
    use std::sync::atomic::Ordering::Relaxed;
    let flat = |r: Result<Result<Ontology, String>, String>| -> Result<Ontology, String> {
        match r {
            Ok(Ok(o)) => Ok(o),
            Ok(Err(e)) => Err(e),
            Err(p) => Err(format!("panic: {p}")),
        }
    };
    match flat(drive::from_bytes(&crate::encode::encode(pf, o))) {
        Ok(ont) => Ok(ont),
        Err(e) => {
            let asc = with_ascending_lists(pf);
            if asc == *pf {
                Err(e)
            } else {
                let second = flat(drive::from_bytes(&crate::encode::encode(&asc, o))).map_err(|e2| format!("{e2} (ids inside the records ascending; with the ids in supply order: {e})"));
                if second.is_ok() {
                    // forgiven, but counted: the claim "decoded with the ids in supply order" shrinks by this file
                    ASCENDING_RETRY_ACCEPTED.fetch_add(1, Relaxed);
                }
                second
            }
        }
    }
}

/// id, name, flags, replacement and direct parents of a looked-up term against what it was added with
fn same_data(t: &HpoTerm, id: u32, w: &Want, added: &Added) -> Option<String> {
    if t.id().as_u32() != id || !w.names.iter().any(|n| n == t.name()) {
        return Some(format!("id {} name {:?}, added with name {:?}", t.id().as_u32(), t.name(), w.names));
    }
    if t.is_obsolete() != w.obsolete {
        return Some(format!("is_obsolete() = {}, added with {}", t.is_obsolete(), w.obsolete));
    }
    let rep = t.replacement_id().map(|r| r.as_u32());
    if rep != w.replacement {
        return Some(format!("replacement_id() = {rep:?}, added with {:?}", w.replacement));
    }
    let rb = t.replaced_by().map(|r| r.id().as_u32());
    if rb != w.replacement.filter(|r| added.contains_key(r)) {
        return Some(format!("replaced_by() = {rb:?}, added with replacement {:?}", w.replacement));
    }
    let mut parents: Vec<u32> = t.parent_ids().iter().map(|p| p.as_u32()).collect();
    parents.sort_unstable();
    if parents != w.parents {
        return Some(format!("parent_ids() = {parents:?}, added with parents {:?}", w.parents));
    }
    None
}

/// hpo(id) for the given keys: Some exactly for added ids, with the id and the data the term was added with
fn check_keys<I: Iterator<Item = u32>>(ont: &Ontology, added: &Added, keys: I) -> V {
    for id in keys {
        let got = ont.hpo(id);
        match (got, added.get(&id)) {
            (None, None) => {}
            (Some(t), Some(w)) => {
                if let Some(d) = same_data(&t, id, w, added) {
                    return Some(("Ontology::hpo".into(), "returns a term with another id or other data than it was added with".into(), format!("hpo({id}) -> {d}")));
                }
            }
            (Some(t), None) => return Some(("Ontology::hpo".into(), "returns a term for an id that was never added".into(), format!("hpo({id}) -> {}", t.id().as_u32()))),
            (None, Some(_)) => return Some(("Ontology::hpo".into(), "returns nothing for an id that was added".into(), format!("hpo({id})"))),
        }
        match (HpoTerm::try_new(ont, id), added.get(&id)) {
            (Ok(t), Some(w)) => {
                if let Some(d) = same_data(&t, id, w, added) {
                    return Some(("HpoTerm::try_new".into(), "returns a term with another id or other data than it was added with".into(), format!("try_new({id}) -> {d}")));
                }
                // (an id that was added under two names: whichever name counts, both lookups see the same term)
                if w.names.len() > 1 && got.map(|g| g.name() != t.name()).unwrap_or(false) {
                    return Some(("HpoTerm::try_new".into(), "returns a term with another id or other data than it was added with".into(), format!("try_new({id}) has the name {:?}, hpo({id}) the name {:?}", t.name(), got.map(|g| g.name().to_string()))));
                }
            }
            (Err(_), None) => {}
            (r, _) => return Some(("HpoTerm::try_new".into(), "disagrees with the set of added ids".into(), format!("try_new({id}).is_ok() = {}", r.is_ok()))),
        }
    }
    None
}

/// The same lookups on a clone, and on a clone of the clone after the ontologies it was made from are gone.
fn check_clones<'a>(ont: Ontology, added: &Added, keys: &[u32]) -> V {
    let tag = |v: V, what: &str| v.map(|(site, sig, det)| (site, format!("[{what}] {sig}"), det));
    let b = ont.clone();
    if let Some(v) = tag(check_keys(&b, added, keys.iter().copied()).or_else(|| check_iteration(&b, added)), "clone of the ontology") {
        return Some(v);
    }
    // the original is still the same
    if let Some(v) = tag(check_keys(&ont, added, keys.iter().copied()), "ontology after it was cloned") {
        return Some(v);
    }
    let c = b.clone();
    drop(ont);
    drop(b);
    tag(check_keys(&c, added, keys.iter().copied()).or_else(|| check_iteration(&c, added)), "clone of a clone, originals dropped")
}

/// Lookups alternating between two live ontologies: a.hpo(k), b.hpo(k), a.hpo(k) for every key
fn check_interleaved(a: &Ontology, a_added: &Added, b: &Ontology, b_added: &Added, keys: &[u32]) -> V {
    let tag = |v: V, what: &str| v.map(|(site, sig, det)| (site, format!("[lookups alternating between two ontologies] {sig}"), format!("{what}: {det}")));
    for &k in keys {
        if let Some(v) = tag(check_keys(a, a_added, std::iter::once(k)), "previous ontology") {
            return Some(v);
        }
        if let Some(v) = tag(check_keys(b, b_added, std::iter::once(k)), "current ontology, right after the same key on the previous one") {
            return Some(v);
        }
        if let Some(v) = tag(check_keys(a, a_added, std::iter::once(k)), "previous ontology, right after the same key on the current one") {
            return Some(v);
        }
    }
    None
}

fn check_iteration(ont: &Ontology, added: &Added) -> V {
    let mut seen: BTreeSet<u32> = BTreeSet::new();
    let mut n = 0;
    for t in ont.iter() {
        n += 1;
        if !seen.insert(t.id().as_u32()) {
            return Some(("Ontology::iter".into(), "yields a term twice".into(), format!("term {}", t.id().as_u32())));
        }
    }
    let want: BTreeSet<u32> = added.keys().copied().collect();
    if seen != want {
        return Some(("Ontology::iter".into(), "does not yield exactly the added terms".into(), format!("observed {seen:?} expected {want:?}")));
    }
    if n != ont.len() || ont.len() != added.len() {
        return Some(("Ontology::len".into(), "disagrees with iteration / the number of added terms".into(), format!("len {} iterated {} added {}", ont.len(), n, added.len())));
    }
    let a: Vec<u32> = ont.hpos().map(|t| t.id().as_u32()).collect();
    let b: Vec<u32> = (&ont).into_iter().map(|t| t.id().as_u32()).collect();
    let c: Vec<u32> = ont.iter().map(|t| t.id().as_u32()).collect();
    // the three ways to iterate yield the same terms (their relative order is not part of the property)
    let sorted = |v: &Vec<u32>| {
        let mut x = v.clone();
        x.sort_unstable();
        x
    };
    if sorted(&a) != sorted(&c) || sorted(&b) != sorted(&c) {
        return Some(("Ontology::hpos".into(), "hpos() / &ontology / iter() disagree".into(), String::new()));
    }
    // a partly consumed iterator: what is left agrees with len() as well (count, size_hint, last, nth)
    let len = ont.len();
    let cuts: Vec<usize> = if len <= 40 { (0..=len + 1).collect() } else { vec![0, 1, 2, len / 2, len - 1, len, len + 1] };
    for k in cuts {
        let mut it = ont.iter();
        let mut taken = 0;
        for _ in 0..k {
            if it.next().is_some() {
                taken += 1;
            }
        }
        let left = len - taken;
        let (lo, hi) = it.size_hint();
        if lo > left || hi.map_or(false, |h| h < left) {
            return Some(("Ontology::iter".into(), "size_hint of a partly consumed iterator excludes the number of terms left".into(), format!("after {taken} of {len}: size_hint ({lo}, {hi:?})")));
        }
        let counted = it.count();
        if counted != left {
            return Some(("Ontology::iter".into(), "count() of a partly consumed iterator is not the number of terms left".into(), format!("after {taken} of {len}: count() = {counted}")));
        }
        let skipped = ont.hpos().skip(k).count();
        if skipped != len.saturating_sub(k) {
            return Some(("Ontology::hpos".into(), "skip(k).count() is not len() - k".into(), format!("k = {k}, len = {len}: {skipped}")));
        }
        let nth = ont.iter().nth(k).map(|t| t.id().as_u32());
        if nth != c.get(k).copied() {
            return Some(("Ontology::iter".into(), "nth(k) is not the k-th term of the iteration".into(), format!("k = {k}: {nth:?} vs {:?}", c.get(k))));
        }
    }
    if ont.iter().last().map(|t| t.id().as_u32()) != c.last().copied() {
        return Some(("Ontology::iter".into(), "last() is not the last term of the iteration".into(), String::new()));
    }
    None
}

fn term_facts(seq: &[(u32, String)]) -> (Facts, Added) {
    let mut f = Facts::default();
    for (id, name) in seq {
        f.terms.push(Facts::term(*id, name));
    }
    let added = added_from_facts(&f);
    (f, added)
}

fn all_strings(alphabet: &[&str], max_len: usize) -> Vec<String> {
    let mut out = vec![String::new()];
    let mut frontier = vec![String::new()];
    for _ in 0..max_len {
        let mut next = vec![];
        for s in &frontier {
            for a in alphabet {
                next.push(format!("{s}{a}"));
            }
        }
        out.extend(next.iter().cloned());
        frontier = next;
    }
    out
}

/// Every record lookup of one ontology: gene / omim_disease / orpha_disease for every id key, gene_by_name for
/// every symbol key, omim_diseases_by_name / omim_disease_by_name for every query.
#[allow(clippy::too_many_arguments)]
fn check_records(ont: &Ontology, genes: &BTreeMap<u32, String>, omim: &BTreeMap<u32, String>, orpha: &BTreeMap<u32, String>, key_ids: &[u32], symbol_keys: &[String], queries: &[String], strict_subset: &mut bool) -> V {
        for k in key_ids {
            let g = ont.gene(&(*k).into()).map(|g| (g.id().as_u32(), g.name().to_string()));
            if g != genes.get(k).map(|n| (*k, n.clone())) {
                return Some(("Ontology::gene".into(), "does not return the record with that id or nothing".into(), format!("gene({k}) = {g:?}")));
            }
            let o = ont.omim_disease(&(*k).into()).map(|d| (d.id().as_u32(), d.name().to_string()));
            if o != omim.get(k).map(|n| (*k, n.clone())) {
                return Some(("Ontology::omim_disease".into(), "does not return the record with that id or nothing".into(), format!("omim_disease({k}) = {o:?}")));
            }
            let r = ont.orpha_disease(&(*k).into()).map(|d| (d.id().as_u32(), d.name().to_string()));
            if r != orpha.get(k).map(|n| (*k, n.clone())) {
                return Some(("Ontology::orpha_disease".into(), "does not return the record with that id or nothing".into(), format!("orpha_disease({k}) = {r:?}")));
            }
        }
        for s in symbol_keys.iter().map(|s| s.as_str()) {
            let got = ont.gene_by_name(s).map(|g| (g.id().as_u32(), g.name().to_string()));
            let exists = genes.values().any(|n| n == s);
            match got {
                Some((id, name)) => {
                    if name != s || genes.get(&id) != Some(&name) {
                        return Some(("Ontology::gene_by_name".into(), "returns a gene whose symbol is not exactly the query".into(), format!("gene_by_name({s:?}) = ({id}, {name:?})")));
                    }
                }
                None => {
                    if exists {
                        return Some(("Ontology::gene_by_name".into(), "returns nothing although a gene with exactly that symbol exists".into(), format!("gene_by_name({s:?})")));
                    }
                }
            }
        }
        for q in queries {
            let want: BTreeSet<u32> = omim.iter().filter(|(_, n)| n.contains(q.as_str())).map(|(i, _)| *i).collect();
            let got_list: Vec<u32> = ont.omim_diseases_by_name(q).map(|d| d.id().as_u32()).collect();
            let got: BTreeSet<u32> = got_list.iter().copied().collect();
            if got != want || got_list.len() != want.len() {
                return Some(("Ontology::omim_diseases_by_name".into(), "does not return exactly the diseases whose name contains the query".into(), format!("query {q:?}: observed {got_list:?} expected {want:?}")));
            }
            if !want.is_empty() && want.len() < omim.len() {
                *strict_subset = true;
            }
            let one = ont.omim_disease_by_name(q).map(|d| d.id().as_u32());
            match one {
                Some(id) if want.contains(&id) => {}
                None if want.is_empty() => {}
                other => return Some(("Ontology::omim_disease_by_name".into(), "does not return a disease whose name contains the query (or None iff there is none)".into(), format!("query {q:?}: observed {other:?} expected one of {want:?}"))),
            }
        }
        None
}

/// The record lookups alternating KEY BY KEY between two live ontologies: every id key, symbol and query is asked
/// of a, then of b, then of a again (a one-entry memo "last key -> record" that forgets which ontology it belongs
/// to answers the second or third question from the wrong one); then pairs of name searches - one on a, one on b,
/// different queries - are advanced in turns while both are alive.
#[allow(clippy::too_many_arguments)]
fn check_records_alternating(a: &Ontology, am: [&BTreeMap<u32, String>; 3], b: &Ontology, bm: [&BTreeMap<u32, String>; 3], key_ids: &[u32], symbol_keys: &[String], queries: &[String]) -> V {
    let mut unused = false;
    let tag = |v: V, what: &str| v.map(|(site, sig, det)| (site, format!("[lookups alternating between two ontologies] {sig}"), format!("{what}: {det}")));
    let turns = [(a, am, "first ontology"), (b, bm, "second ontology, right after the same key on the first"), (a, am, "first ontology, right after the same key on the second")];
    for k in key_ids {
        for (ont, m, what) in &turns {
            if let Some(v) = tag(check_records(ont, m[0], m[1], m[2], std::slice::from_ref(k), &[], &[], &mut unused), what) {
                return Some(v);
            }
        }
    }
    for s in symbol_keys {
        for (ont, m, what) in &turns {
            if let Some(v) = tag(check_records(ont, m[0], m[1], m[2], &[], std::slice::from_ref(s), &[], &mut unused), what) {
                return Some(v);
            }
        }
    }
    for q in queries {
        for (ont, m, what) in &turns {
            if let Some(v) = tag(check_records(ont, m[0], m[1], m[2], &[], &[], std::slice::from_ref(q), &mut unused), what) {
                return Some(v);
            }
        }
    }
    // two searches alive at the same time, advanced in turns
    for w in queries.windows(2) {
        let (qa, qb) = (&w[0], &w[1]);
        let (mut ia, mut ib) = (a.omim_diseases_by_name(qa), b.omim_diseases_by_name(qb));
        let (mut ga, mut gb): (Vec<u32>, Vec<u32>) = (vec![], vec![]);
        loop {
            let (x, y) = (ia.next(), ib.next());
            if let Some(d) = x {
                ga.push(d.id().as_u32());
            }
            if let Some(d) = y {
                gb.push(d.id().as_u32());
            }
            if x.is_none() && y.is_none() {
                break;
            }
        }
        for (got, m, q, what) in [(&mut ga, am[1], qa, "first ontology"), (&mut gb, bm[1], qb, "second ontology")] {
            got.sort_unstable();
            let want: Vec<u32> = m.iter().filter(|(_, n)| n.contains(q.as_str())).map(|(i, _)| *i).collect();
            if *got != want {
                return Some(("Ontology::omim_diseases_by_name".into(), "[two searches advanced in turns] does not return exactly the diseases whose name contains the query".into(), format!("{what}, query {q:?} (the other search: {:?}): observed {got:?} expected {want:?}", if what == "first ontology" { qb } else { qa })));
            }
        }
    }
    None
}

pub fn run(ctx: &mut Ctx) {
    let thorough = ctx.tier.thorough();
    ctx.rule = "terms: case = one ontology (id set x insertion order, repeated ids included) with hpo(id)/try_new for every id of 0..10^7 (canonical order of each id set) or the border keys (other orders, clones, two live ontologies alternating), comparing id, name, flags, replacement and direct parents, plus iteration/len; the same id sets through the binary decoder and the text loader; records: case = one record set (<= 4 genes / 13 diseases exhaustively, <= 2 of 10 periodic disease names, 31 ... 300 generated ones) in two ontologies with every id key and every query string, asked ontology by ontology, key by key in turns, and on a clone; distinct by construction; non-trivial = ontology with at least one id at a border of the id space or a repeated id, resp. a record set where some query matches a strict subset".into();
    ctx.assumptions = vec![
        "term ids are < 10^7 (documented id range; new_term with a larger id panics and is outside the quantifier)".into(),
        "new_term called twice for one id: which call counts is not part of the property (the public documentation is silent) - the id must be stored once, under one of the names it was added with, and a builder that refuses such a call is not judged".into(),
        "HP:0000000 as a term of its own: a constructor (Builder, decoder, text loader) that refuses it is not judged; when it constructs, every lookup demand holds".into(),
        "binary files: a decoder that refuses a file whose ids inside a record are not ascending is not judged here - the same facts with ascending lists decide".into(),
        "gene_by_name / omim_disease_by_name return some matching record when several match".into(),
    ];
    let borders = border_keys();
    let pool: [u32; 6] = [0, 1, 2, 118, 9_999_998, 9_999_999];

    // ---- all subsets of the border pool; full id sweep on the canonical order, border keys on all other orders
    ctx.space("terms/border-pool-subsets", "all 64 subsets of {0,1,2,118,9999998,9999999}: full sweep hpo(id) for every id 0..10^7+10^4 on the ascending insertion order; every insertion order (<= 4 elements) or rotation/reverse (more) and every single repeated id (added a second time under another name: stored once, under either name) checked on the border keys, each of these ontologies also alternating key by key with the previous one of the case (same ids, other slots), which is kept alive; border keys and iteration again on ont.clone() and on a clone of the clone after the originals are dropped (canonical order and the last repeated-id order of every subset)");
    for mask in 0u32..64 {
        let ids: Vec<u32> = crate::space::bits(mask, 6).iter().map(|i| pool[*i]).collect();
        // canonical: full sweep, one case per subset
        if ctx.take() {
            ctx.state();
            if ids.iter().any(|i| *i == 0 || *i >= 9_999_998) {
                ctx.nontrivial();
            }
            let seq: Vec<(u32, String)> = ids.iter().map(|i| (*i, format!("T{i}"))).collect();
            let (f, added) = term_facts(&seq);
            ctx.transitions(f.n_steps() + (MAX_ID as u64 + 10_000));
            match drive::build(&f, Mode::Minimal) {
                // (a builder that refuses HP:0000000 as a term adds nothing, so there is nothing to look up)
                Err(_) if ids.contains(&0) => ctx.bump("construction_refused_with_term_id_0", 1),
                Err(e) => ctx.violation("Builder::new_term", "construction fails", json!({"ids": ids, "observed": e})),
                Ok(ont) => {
                    let r = guard(|| check_keys(&ont, &added, 0..MAX_ID + 10_000).or_else(|| check_keys(&ont, &added, borders.iter().copied())).or_else(|| check_keys(&ont, &added, u32::MAX - 10_000..=u32::MAX)).or_else(|| check_iteration(&ont, &added)));
                    ctx.execs(MAX_ID as u64 + 20_000);
                    ctx.validateds(MAX_ID as u64 + 20_000);
                    // ... and the border keys and the iteration on a clone, and on a clone of the clone once the
                    // ontologies it was made from are dropped
                    let r = match r {
                        Ok(None) => guard(|| check_clones(ont, &added, &borders)),
                        other => other,
                    };
                    ctx.execs(3 * borders.len() as u64);
                    ctx.validateds(3 * borders.len() as u64);
                    match r {
                        Ok(None) => {}
                        Ok(Some((site, sig, det))) => ctx.violation(&site, &sig, json!({"term_ids_added": ids, "difference": det, "rust": f.to_rust(false)})),
                        Err(p) => ctx.violation("Ontology::hpo", "panics", json!({"term_ids_added": ids, "observed": p})),
                    }
                    ctx.outcome(mask as u64);
                }
            }
            ctx.sample(|| json!({"term_ids_added": ids, "keys": "0..10^7+10^4, borders, u32::MAX-10^4..=u32::MAX"}));
        }
        // other orders and repeats: border keys only, one case per subset
        if ids.len() >= 2 && ctx.take() {
            ctx.state();
            ctx.nontrivial();
            let orders = if ids.len() <= 4 { permutations(ids.len()) } else { crate::space::rotations_and_reverse(ids.len()) };
            let mut seqs: Vec<Vec<(u32, String)>> = orders.iter().skip(1).map(|p| p.iter().map(|i| (ids[*i], format!("T{}", ids[*i]))).collect()).collect();
            // every single repeated id (with another name), at the end and right after the original
            for i in 0..ids.len() {
                let mut s: Vec<(u32, String)> = ids.iter().map(|x| (*x, format!("T{x}"))).collect();
                s.push((ids[i], "repeated".into()));
                seqs.push(s);
                let mut s: Vec<(u32, String)> = ids.iter().map(|x| (*x, format!("T{x}"))).collect();
                s.insert(i + 1, (ids[i], "repeated".into()));
                seqs.push(s);
            }
            // the previous ontology of the case stays alive: same ids in other slots (other insertion order)
            let mut prev: Option<(Ontology, Added, Vec<(u32, String)>)> = None;
            let n_seqs = seqs.len();
            for (si, seq) in seqs.into_iter().enumerate() {
                let (f, added) = term_facts(&seq);
                ctx.transitions(f.n_steps() + 4 * borders.len() as u64);
                ctx.exec();
                match drive::build(&f, Mode::Minimal) {
                    // (refusing a second new_term for one id, or HP:0000000 as a term, is not judged)
                    Err(_) if added.len() < seq.len() => ctx.bump("construction_refused_for_a_repeated_id", 1),
                    Err(_) if ids.contains(&0) => ctx.bump("construction_refused_with_term_id_0", 1),
                    Err(e) => ctx.violation("Builder::new_term", "construction fails", json!({"new_term calls": seq, "observed": e})),
                    Ok(ont) => {
                        ctx.validated();
                        let r = guard(|| {
                            check_keys(&ont, &added, borders.iter().copied()).or_else(|| check_iteration(&ont, &added)).or_else(|| match &prev {
                                Some((pont, padded, _)) => check_interleaved(pont, padded, &ont, &added, &borders),
                                None => None,
                            })
                        });
                        match r {
                            Ok(None) => {}
                            Ok(Some((site, sig, det))) => ctx.violation(&site, &sig, json!({"new_term calls": seq, "difference": det, "rust": f.to_rust(false), "previous ontology of the case (still alive), new_term calls": prev.as_ref().map(|p| p.2.clone())})),
                            Err(p) => ctx.violation("Ontology::hpo", "panics", json!({"new_term calls": seq, "observed": p})),
                        }
                        if si + 1 == n_seqs {
                            // the last one (a repeated id right after the original) once more through clones
                            prev = None;
                            match guard(|| check_clones(ont, &added, &borders)) {
                                Ok(None) => {}
                                Ok(Some((site, sig, det))) => ctx.violation(&site, &sig, json!({"new_term calls": seq, "difference": det, "rust": f.to_rust(false)})),
                                Err(p) => ctx.violation("Ontology::clone", "panics", json!({"new_term calls": seq, "observed": p})),
                            }
                        } else {
                            prev = Some((ont, added, seq));
                        }
                    }
                }
            }
            ctx.sample(|| json!({"term_ids": ids, "orders_and_repeats": true}));
        }
    }

    // ---- ids at binary block boundaries: every power of two below 10^7 with its two neighbours, every multiple
    // of 2^16 up to 2^20 and of 2^20 up to 10^7 - a lookup table that is paged, grown or narrowed has its seams here
    {
        let mut special: Vec<u32> = vec![];
        for k in 0..24u32 {
            let p = 1u32 << k;
            for v in [p.wrapping_sub(1), p, p + 1] {
                if v < MAX_ID {
                    special.push(v);
                }
            }
        }
        for j in 1..=16u32 {
            special.push(j << 16);
        }
        for j in 1..=9u32 {
            special.extend([(j << 20) - 1, j << 20, (j << 20) + 1]);
        }
        special.sort_unstable();
        special.dedup();
        let singles: Vec<Vec<u32>> = (1..=9u32).map(|j| vec![j << 20]).chain((16..24u32).map(|k| vec![1u32 << k])).collect();
        ctx.space("terms/block-boundary-ids", &format!("one ontology over {} ids (2^k-1, 2^k, 2^k+1 for k < 24; j*2^16 for j <= 16; j*2^20-1, j*2^20, j*2^20+1 for j <= 9) in ascending, descending and rotated insertion order, and {} ontologies holding a single such id: hpo(id) for every listed id +-2, the border keys, iteration, len", special.len(), singles.len()));
        let n = special.len();
        let mut id_sets: Vec<(Vec<u32>, &str)> = vec![(special.clone(), "ascending"), (special.iter().rev().copied().collect(), "descending"), ((0..n).map(|i| special[(i + n / 2) % n]).collect(), "rotated by half")];
        for one in &singles {
            id_sets.push((one.clone(), "single id"));
        }
        let mut keys: Vec<u32> = vec![];
        for v in &special {
            for d in -2i64..=2 {
                let k = *v as i64 + d;
                if k >= 0 {
                    keys.push(k as u32);
                }
            }
        }
        keys.extend(borders.iter().copied());
        for (ids, order) in &id_sets {
            if !ctx.take() {
                continue;
            }
            ctx.state();
            ctx.nontrivial();
            let seq: Vec<(u32, String)> = ids.iter().map(|i| (*i, format!("T{i}"))).collect();
            let (mut f, mut added) = term_facts(&seq);
            ctx.transitions(f.n_steps() + keys.len() as u64);
            ctx.execs(keys.len() as u64);
            let mut built = drive::build(&f, Mode::Minimal);
            if built.is_err() && ids.contains(&0) {
                // (a builder that refuses HP:0000000 as a term is not judged - but all three many-block ontologies
                // hold id 0 (2^0 - 1): the same ids without it, in the same order, are built and judged strictly,
                // so that a failure with another cause is not excused along with it)
                ctx.bump("construction_refused_with_term_id_0", 1);
                f.terms.retain(|t| t.id != 0);
                added.remove(&0);
                built = drive::build(&f, Mode::Minimal);
            }
            match built {
                Err(e) => ctx.violation("Builder::new_term", "construction fails", json!({"term_ids_added": ids, "insertion_order": order, "observed": e})),
                Ok(ont) => {
                    ctx.validateds(keys.len() as u64);
                    match guard(|| check_keys(&ont, &added, keys.iter().copied()).or_else(|| check_iteration(&ont, &added))) {
                        Ok(None) => {}
                        Ok(Some((site, sig, det))) => ctx.violation(&site, &sig, json!({"term_ids_added": ids, "insertion_order": order, "difference": det})),
                        Err(p) => ctx.violation("Ontology::hpo", "panics", json!({"term_ids_added": ids, "insertion_order": order, "observed": p})),
                    }
                }
            }
            ctx.sample(|| json!({"ids": ids.len(), "insertion_order": order, "keys": keys.len()}));
        }
    }

    // ---- ontologies built by the binary decoder and the text loader (names incl. the empty one, every record order)
    {
        let family = crate::props::common::format_family(4, if thorough { 1 } else { 8 });
        ctx.space("terms/decoded-ontologies", &format!("{} small fact sets (names \"\", x, é, a: b; flags; records) decoded from binary v1/v2/v3 in every term-record order (a file with descending ids inside a record that is refused is written again with ascending ones) and from hp.obo in every stanza order: hpo(id) / try_new(id) for 0..1200, the border keys and every added id, comparing id, name, obsolete flag, replacement and direct parents with the facts; iteration; len", family.len()));
        for (f, what) in &family {
            if !ctx.take() {
                continue;
            }
            ctx.state();
            if f.terms.iter().any(|t| t.name.is_empty()) {
                ctx.nontrivial();
            }
            let n = f.terms.len();
            let mut keys: Vec<u32> = (0..1200).collect();
            keys.extend(borders.iter().copied());
            keys.extend(f.terms.iter().map(|t| t.id));
            for p in permutations(n) {
                let g = Facts { terms: crate::space::apply_perm(&f.terms, &p), ..f.clone() };
                for version in [3u8, 2, 1] {
                    if version < 3 && !(p.windows(2).all(|w| w[0] < w[1]) || p.windows(2).all(|w| w[0] > w[1])) {
                        continue;
                    }
                    let pf = crate::encode::project(&g, version);
                    // name, obsolete flag, replacement and direct parents as this format version carries them
                    let added = added_from_facts(&pf);
                    ctx.transitions(pf.n_steps() + keys.len() as u64);
                    ctx.exec();
                    match decode_tolerant(&pf, &crate::encode::EncOpts::list_order(version)) {
                        Ok(ont) => match {
                            ctx.validated();
                            guard(|| check_keys(&ont, &added, keys.iter().copied()).or_else(|| check_iteration(&ont, &added)))
                        } {
                            Ok(None) => {}
                            Ok(Some((site, sig, det))) => ctx.violation(&site, &format!("[decoded from binary v{version}] {sig}"), json!({"family": what, "facts": pf.to_json(), "term_record_order": p, "difference": det})),
                            Err(pn) => ctx.violation("Ontology::hpo", "panics", json!({"family": what, "facts": pf.to_json(), "observed": pn})),
                        },
                        Err(e) => ctx.violation("Ontology::from_bytes", "rejects a file laid out as documented", json!({"family": what, "facts": pf.to_json(), "observed": e})),
                    }
                }
                // text path (no empty names there)
                if p.windows(2).all(|w| w[0] < w[1]) || p.windows(2).all(|w| w[0] > w[1]) || p[n - 1] == 0 {
                    let mut tf = g.clone();
                    tf.anns.retain(|a| a.term.is_some());
                    for t in tf.terms.iter_mut() {
                        if t.name.is_empty() {
                            t.name = "n".into();
                        }
                    }
                    let tadded = added_from_facts(&tf);
                    ctx.transitions(tf.n_steps() + keys.len() as u64);
                    ctx.exec();
                    // stanza layouts alternate: plain, extra tags, tags (and the flags) between id and name
                    let mut jo = crate::jax::JaxOpts::default();
                    match (p[0] + p[n - 1]) % 3 {
                        1 => jo.distractors = vec![crate::jax::Distractor::ExtraTags],
                        2 => jo.distractors = vec![crate::jax::Distractor::TagsBeforeName],
                        _ => {}
                    }
                    match crate::jax::load_with(&crate::jax::render(&tf, &jo), false, crate::jax::OtherGeneFile::Absent) {
                        Ok(Ok(ont)) => match {
                            ctx.validated();
                            guard(|| check_keys(&ont, &tadded, keys.iter().copied()).or_else(|| check_iteration(&ont, &tadded)))
                        } {
                            Ok(None) => {}
                            Ok(Some((site, sig, det))) => ctx.violation(&site, &format!("[loaded from hp.obo] {sig}"), json!({"family": what, "facts": tf.to_json(), "stanza_order": p, "stanza_layout": format!("{:?}", jo.distractors), "difference": det})),
                            Err(pn) => ctx.violation("Ontology::hpo", "panics", json!({"family": what, "facts": tf.to_json(), "observed": pn})),
                        },
                        other => ctx.violation("Ontology::from_standard", "rejects valid JAX files", json!({"family": what, "facts": tf.to_json(), "observed": format!("{:?}", other.map(|r| r.map(|_| ())))})),
                    }
                }
            }
            ctx.sample(|| json!({"family": what, "facts": f.to_json(), "term_record_orders": permutations(n).len()}));
        }
        crate::jax::cleanup();
    }

    // ---- the border pool through the decoders: ids 0, 2, 9 999 998, 9 999 999 as term record, parent, replacement
    {
        ctx.space("terms/decoded-border-ids", "all 64 subsets of {0,1,2,118,9999998,9999999} plus the two roots 1 and 118, linked as a chain in id order (the largest term also is_a HP:1; the largest term obsolete and replaced by the next smaller one; the next smaller one names the largest as replacement without being obsolete): decoded from binary v1, v2, v3 and loaded from hp.obo, each in ascending and descending order of the records and of the parent ids inside a record (a descending file that is refused is written again with ascending ids inside the records): hpo(id) / try_new(id) with id, name, flags, replacement and direct parents for 0..300, every id +-2, the border keys; iteration; len; the v3 ontology also through clones");
        for mask in 0u32..64 {
            if !ctx.take() {
                continue;
            }
            ctx.state();
            let mut ids: Vec<u32> = crate::space::bits(mask, 6).iter().map(|i| pool[*i]).collect();
            ids.extend([1, 118]);
            ids.sort_unstable();
            ids.dedup();
            if ids.iter().any(|i| *i == 0 || *i >= 9_999_998) {
                ctx.nontrivial();
            }
            let mut f = Facts::default();
            f.version = (2024, 2, 29);
            for id in &ids {
                f.terms.push(Facts::term(*id, &format!("T{id}")));
            }
            // HP:1 is the top; HP:0 and the smallest other term hang below HP:1, every further term below the next smaller one
            let mut below_one: Vec<u32> = ids.iter().copied().filter(|i| *i > 1).collect();
            if ids.contains(&0) {
                f.edges.push((0, 1));
            }
            let mut prev = 1u32;
            for id in below_one.drain(..) {
                f.edges.push((id, prev));
                prev = id;
            }
            let largest = *ids.last().unwrap();
            if !f.edges.contains(&(largest, 1)) {
                f.edges.push((largest, 1));
            }
            if ids.len() >= 3 && largest > 118 {
                let next = ids[ids.len() - 2];
                let k = f.terms.len();
                f.terms[k - 1].obsolete = true;
                f.terms[k - 1].replacement = Some(next);
                if next > 118 {
                    f.terms[k - 2].replacement = Some(largest);
                }
            }
            let mut keys: Vec<u32> = (0..300).collect();
            for v in &ids {
                for d in -2i64..=2 {
                    let k = *v as i64 + d;
                    if k >= 0 {
                        keys.push(k as u32);
                    }
                }
            }
            keys.extend(borders.iter().copied());
            let has_zero = ids.contains(&0);
            for descending in [false, true] {
                // ascending: term records, parent records and the parent ids inside a record ascending;
                // descending: all three descending
                let mut g = with_ascending_lists(&f);
                if descending {
                    g.terms.reverse();
                    g.edges.reverse();
                }
                for version in [3u8, 2, 1] {
                    let pf = crate::encode::project(&g, version);
                    let added = added_from_facts(&pf);
                    ctx.transitions(pf.n_steps() + keys.len() as u64);
                    ctx.execs(keys.len() as u64);
                    match decode_tolerant(&pf, &crate::encode::EncOpts::list_order(version)) {
                        Ok(ont) => {
                            ctx.validateds(keys.len() as u64);
                            let r = guard(|| {
                                let first = check_keys(&ont, &added, keys.iter().copied()).or_else(|| check_iteration(&ont, &added));
                                if first.is_none() && version == 3 && !descending {
                                    check_clones(ont, &added, &keys)
                                } else {
                                    first
                                }
                            });
                            match r {
                                Ok(None) => {}
                                Ok(Some((site, sig, det))) => ctx.violation(&site, &format!("[decoded from binary v{version}] {sig}"), json!({"facts": pf.to_json(), "term_records": if descending { "descending ids" } else { "ascending ids" }, "difference": det})),
                                Err(pn) => ctx.violation("Ontology::hpo", &format!("[decoded from binary v{version}] panics"), json!({"facts": pf.to_json(), "observed": pn})),
                            }
                        }
                        // (a decoder that refuses HP:0000000 as a term is not judged)
                        Err(_) if has_zero => ctx.bump("construction_refused_with_term_id_0", 1),
                        Err(e) => ctx.violation("Ontology::from_bytes", "rejects a file laid out as documented", json!({"facts": pf.to_json(), "format_version": version, "observed": e})),
                    }
                }
                let added = added_from_facts(&g);
                ctx.transitions(g.n_steps() + keys.len() as u64);
                ctx.execs(keys.len() as u64);
                let mut jo = crate::jax::JaxOpts::default();
                if mask % 2 == 1 {
                    jo.distractors = vec![crate::jax::Distractor::ExtraTags];
                }
                match crate::jax::load_with(&crate::jax::render(&g, &jo), descending, crate::jax::OtherGeneFile::Absent) {
                    Ok(Ok(ont)) => match {
                        ctx.validateds(keys.len() as u64);
                        guard(|| check_keys(&ont, &added, keys.iter().copied()).or_else(|| check_iteration(&ont, &added)))
                    } {
                        Ok(None) => {}
                        Ok(Some((site, sig, det))) => ctx.violation(&site, &format!("[loaded from hp.obo] {sig}"), json!({"facts": g.to_json(), "stanzas": if descending { "descending ids" } else { "ascending ids" }, "difference": det})),
                        Err(pn) => ctx.violation("Ontology::hpo", "[loaded from hp.obo] panics", json!({"facts": g.to_json(), "observed": pn})),
                    },
                    _ if has_zero => ctx.bump("construction_refused_with_term_id_0", 1),
                    other => ctx.violation("Ontology::from_standard", "rejects valid JAX files", json!({"facts": g.to_json(), "observed": format!("{:?}", other.map(|r| r.map(|_| ())))})),
                }
            }
            ctx.sample(|| json!({"term_ids": ids, "facts": f.to_json()}));
        }
        crate::jax::cleanup();
    }

    // ---- records: lookups by id, symbol, name substring
    let rec_ids: [u32; 4] = [0, 1, 77, u32::MAX];
    let symbols: [&str; 7] = ["", "A", "a", "AB", "\u{e9}", "A1", "A-B"];
    let dnames: [&str; 13] = ["", "A", "a", "AB", "BA", "A B", "\u{e9}", "a\u{e9}", "ABA", "A,B", "A-B", "A1", "A, B"];
    const NS: usize = 7;
    const ND: usize = 13;
    let queries = all_strings(&["A", "a", "B", "\u{e9}", " ", ",", "-", "1"], 3);
    // the ids around the records, and every 2^k-1, 2^k, 2^k+1 (a key narrowed to 16 / 24 / 31 bits, or carrying a
    // kind tag in its top bits, folds one of these onto the records 0, 1 and u32::MAX)
    let mut key_ids: Vec<u32> = vec![0, 1, 2, 76, 77, 78, 255, 256, 65_535, 65_536, u32::MAX - 1, u32::MAX];
    key_ids.extend(borders.iter().copied());
    key_ids.sort_unstable();
    key_ids.dedup();
    let symbol_keys: Vec<String> = symbols.iter().copied().chain(["B", "ab", "A ", " A", "AA", "a1", "A1 ", "A-b", "AB-", "A-", "1", "-"]).map(String::from).collect();
    ctx.space("records/ids-symbols-names", "gene sets: all 16 subsets of ids {0,1,77,u32::MAX} x 7 symbol rotations (duplicate symbols included; symbols with digit and hyphen); OMIM/ORPHA sets: all subsets of <= 3 of 13 names (with comma, hyphen, digit, comma+blank) plus the full set, records with and without terms; per case two Builder-built ontologies with the same record ids but the next symbols / names, looked up in the order first, second, first, then the first one decoded from binary v3, then first / second / first again key by key (and pairs of name searches advanced in turns), every 16th case (thorough: every case) also on a clone of the first after the first is dropped; every id key (the ids around the records and every 2^k-1, 2^k, 2^k+1), every symbol, all 585 query strings over {A,a,B,é,space,comma,hyphen,1} up to length 3");
    // disease name subsets
    let mut name_sets: Vec<Vec<usize>> = vec![vec![]];
    for a in 0..ND {
        name_sets.push(vec![a]);
        for b in a + 1..ND {
            name_sets.push(vec![a, b]);
            for c in b + 1..ND {
                name_sets.push(vec![a, b, c]);
            }
        }
    }
    name_sets.push((0..ND).collect());
    for (si, ns) in name_sets.iter().enumerate() {
        if !ctx.take() {
            continue;
        }
        ctx.state();
        let gmask = (si % 16) as u32;
        // two ontologies per case with the same record ids and counts: in the second one every symbol and
        // name is the next one of the rotation. Looked up in the order first, second, first again (a lookup
        // must not depend on what was looked up before, in this or in another ontology)
        struct Variant {
            f: Facts,
            genes: BTreeMap<u32, String>,
            omim: BTreeMap<u32, String>,
            orpha: BTreeMap<u32, String>,
        }
        let mut variants: Vec<Variant> = vec![];
        for shift in 0..2usize {
            let rot = (si + shift) % NS;
            let mut f = Facts::default();
            f.terms = vec![Facts::term(1, "All"), Facts::term(118, "Phenotypic abnormality")];
            f.edges = vec![(118, 1)];
            let mut genes: BTreeMap<u32, String> = BTreeMap::new();
            for (i, gid) in rec_ids.iter().enumerate() {
                if gmask >> i & 1 == 1 {
                    // symbols rotate; every third set gives two genes the same symbol
                    let sym = if si % 3 == 0 && i >= 2 { symbols[rot] } else { symbols[(i + rot) % NS] };
                    genes.insert(*gid, sym.to_string());
                    f.anns.push(Facts::ann(Kind::Gene, *gid, sym, if i % 2 == 0 { Some(118) } else { None }));
                }
            }
            let mut omim: BTreeMap<u32, String> = BTreeMap::new();
            let mut orpha: BTreeMap<u32, String> = BTreeMap::new();
            for (j, ni) in ns.iter().enumerate() {
                let id = if j + 1 == ns.len() && ns.len() > 1 { u32::MAX } else { j as u32 * 77 };
                omim.insert(id, dnames[(*ni + 2 * shift) % ND].to_string());
                f.anns.push(Facts::ann(Kind::Omim, id, dnames[(*ni + 2 * shift) % ND], if (j + si) % 2 == 0 { Some(1) } else { None }));
                orpha.insert(id, dnames[(*ni + 1 + 2 * shift) % ND].to_string());
                f.anns.push(Facts::ann(Kind::Orpha, id, dnames[(*ni + 1 + 2 * shift) % ND], None));
            }
            variants.push(Variant { f, genes, omim, orpha });
        }
        let per = (queries.len() * 2 + 3 * key_ids.len() + symbol_keys.len()) as u64;
        ctx.transitions(2 * variants[0].f.n_steps() + variants[1].f.n_steps() + 4 * per);
        ctx.execs(4 * per);
        ctx.validateds(4 * per);
        let mut onts = vec![];
        for v in &variants {
            match drive::build(&v.f, Mode::Minimal) {
                Ok(o) => onts.push(o),
                Err(_) => ctx.violation("Builder", "construction fails on valid facts", json!({"facts": v.f.to_json()})),
            }
        }
        if onts.len() != 2 {
            continue;
        }
        // the first ontology once more, decoded from the binary format (records without terms included)
        match drive::from_bytes(&crate::encode::encode(&variants[0].f, &crate::encode::EncOpts::list_order(3))) {
            Ok(Ok(o)) => onts.push(o),
            other => {
                ctx.violation("Ontology::from_bytes", "cannot decode a file laid out as documented", json!({"facts": variants[0].f.to_json(), "observed": format!("{:?}", other.map(|r| r.map(|_| ())))}));
                continue;
            }
        }
        let mut strict_subset = false;
        let mut failed = false;
        for (step, which) in [0usize, 1, 0, 2].into_iter().enumerate() {
            let vi = if which == 2 { 0 } else { which };
            let (ont, genes, omim, orpha) = (&onts[which], &variants[vi].genes, &variants[vi].omim, &variants[vi].orpha);
            let res = guard(|| check_records(ont, genes, omim, orpha, &key_ids, &symbol_keys, &queries, &mut strict_subset));
            let order = ["first ontology", "second ontology (same record ids, next symbols / names) after the first", "first ontology again after the second", "first ontology decoded from binary v3"][step];
            match res {
                Ok(None) => {}
                Ok(Some((site, sig, det))) => {
                    ctx.violation(&site, &sig, json!({"facts": variants[vi].f.to_json(), "difference": det, "looked_up_as": order, "other_ontology": variants[1 - vi].f.to_json()}));
                    failed = true;
                    break;
                }
                Err(p) => {
                    ctx.violation("Ontology lookups", "panics", json!({"facts": variants[vi].f.to_json(), "observed": p, "looked_up_as": order}));
                    failed = true;
                    break;
                }
            }
        }
        if !failed {
            let (va, vb) = (&variants[0], &variants[1]);
            let res = guard(|| {
                check_records_alternating(&onts[0], [&va.genes, &va.omim, &va.orpha], &onts[1], [&vb.genes, &vb.omim, &vb.orpha], &key_ids, &symbol_keys, &queries).or_else(|| {
                    // (a clone copies the 80 MB id table: every 16th case in the quick tier)
                    if !thorough && si % 16 != 0 {
                        return None;
                    }
                    // the record lookups on a clone, after the ontology it was made from is gone
                    let first = onts.remove(0);
                    let c = first.clone();
                    drop(first);
                    check_records(&c, &va.genes, &va.omim, &va.orpha, &key_ids, &symbol_keys, &queries, &mut strict_subset).map(|(site, sig, det)| (site, format!("[clone of the ontology, original dropped] {sig}"), det))
                })
            });
            ctx.execs(3 * per / 2);
            ctx.validateds(3 * per / 2);
            match res {
                Ok(None) => {}
                Ok(Some((site, sig, det))) => ctx.violation(&site, &sig, json!({"first ontology": va.f.to_json(), "second ontology": vb.f.to_json(), "difference": det})),
                Err(p) => ctx.violation("Ontology lookups", "panics", json!({"first ontology": va.f.to_json(), "second ontology": vb.f.to_json(), "observed": p, "looked_up_as": "alternating key by key / on a clone"})),
            }
        }
        if strict_subset {
            ctx.nontrivial();
        }
        ctx.outcome(si as u64);
        ctx.sample(|| json!({"genes": variants[0].genes, "omim": variants[0].omim, "orpha": variants[0].orpha, "second ontology genes": variants[1].genes, "queries": queries.len()}));
    }
    // ---- disease names in which a proper prefix of the query re-occurs right before the match (a hand-written
    // substring search that does not back up after a partial match finds "AB" in "AB" but not in "AAB")
    {
        let pnames: [&str; 10] = ["AAB", "ABAB", "ABAAB", "aa\u{e9}", "AABAAB", "ABABC", "ABCABD", "a\u{e9}a\u{e9}\u{e9}", "AAAB", "ABABAC"];
        let mut pqueries: Vec<String> = all_strings(&["A", "B"], 5);
        pqueries.extend(all_strings(&["a", "\u{e9}"], 4));
        pqueries.extend(all_strings(&["A", "B", "C", "D"], 3));
        for name in pnames {
            let cuts: Vec<usize> = name.char_indices().map(|c| c.0).chain([name.len()]).collect();
            for (x, a) in cuts.iter().enumerate() {
                for b in &cuts[x + 1..] {
                    pqueries.push(name[*a..*b].to_string());
                }
            }
        }
        let mut seen = BTreeSet::new();
        pqueries.retain(|q| seen.insert(q.clone()));
        let mut sets: Vec<Vec<usize>> = vec![];
        for a in 0..pnames.len() {
            sets.push(vec![a]);
            for b in a + 1..pnames.len() {
                sets.push(vec![a, b]);
            }
        }
        sets.push((0..pnames.len()).collect());
        ctx.space("records/periodic-names", &format!("OMIM sets: every subset of <= 2 of the 10 names {pnames:?} plus the full set; per case a second Builder-built ontology with the same ids and the next names, looked up first, second, first, then key by key in turns; {} queries: all strings over {{A,B}} up to length 5, over {{a,é}} up to length 4, over {{A,B,C,D}} up to length 3, every substring of every name", pqueries.len()));
        let none: BTreeMap<u32, String> = BTreeMap::new();
        for (si, ns) in sets.iter().enumerate() {
            if !ctx.take() {
                continue;
            }
            ctx.state();
            let mut maps: Vec<BTreeMap<u32, String>> = vec![];
            let mut facts: Vec<Facts> = vec![];
            for shift in 0..2usize {
                let mut f = Facts::default();
                f.terms = vec![Facts::term(1, "All"), Facts::term(118, "Phenotypic abnormality")];
                f.edges = vec![(118, 1)];
                let mut omim: BTreeMap<u32, String> = BTreeMap::new();
                for (j, ni) in ns.iter().enumerate() {
                    let id = 600_000 + 7 * j as u32;
                    let name = pnames[(*ni + 3 * shift) % pnames.len()];
                    omim.insert(id, name.to_string());
                    f.anns.push(Facts::ann(Kind::Omim, id, name, if (j + si) % 2 == 0 { Some(118) } else { None }));
                }
                maps.push(omim);
                facts.push(f);
            }
            let per = 2 * pqueries.len() as u64;
            ctx.transitions(facts[0].n_steps() + facts[1].n_steps() + 6 * per);
            ctx.execs(6 * per);
            ctx.validateds(6 * per);
            let onts: Vec<Ontology> = facts.iter().filter_map(|f| drive::build(f, Mode::Minimal).ok()).collect();
            if onts.len() != 2 {
                ctx.violation("Builder", "construction fails on valid facts", json!({"facts": facts[0].to_json()}));
                continue;
            }
            let mut strict_subset = false;
            let res = guard(|| {
                let mut r = None;
                for which in [0usize, 1, 0] {
                    r = r.or_else(|| check_records(&onts[which], &none, &maps[which], &none, &[], &[], &pqueries, &mut strict_subset));
                }
                r.or_else(|| check_records_alternating(&onts[0], [&none, &maps[0], &none], &onts[1], [&none, &maps[1], &none], &[], &[], &pqueries))
            });
            match res {
                Ok(None) => {}
                Ok(Some((site, sig, det))) => ctx.violation(&site, &sig, json!({"omim diseases": maps[0], "second ontology": maps[1], "difference": det})),
                Err(p) => ctx.violation("Ontology lookups", "panics", json!({"omim diseases": maps[0], "second ontology": maps[1], "observed": p})),
            }
            if strict_subset {
                ctx.nontrivial();
            }
            ctx.outcome(0x9e37 ^ si as u64);
            ctx.sample(|| json!({"omim": maps[0], "second ontology omim": maps[1], "queries": pqueries.len()}));
        }
    }
    // ---- large record sets with systematically generated names (a name index that only exists above some size)
    {
        let sizes: Vec<usize> = if thorough { vec![31, 32, 33, 40, 64, 65, 100, 128, 129, 255, 256, 257, 300, 1000, 1024, 1025, 3000] } else { vec![31, 32, 33, 40, 64, 65, 100, 128, 129, 255, 256, 257, 300] };
        ctx.space("records/large-sets", &format!("record sets of {sizes:?} genes, OMIM and ORPHA diseases each, with generated symbols (stems GEN/Gen/ABC/AB/A/ZNF/orf/C1orf + number; every 7th a duplicate of its neighbour, every 5th a lower-case twin, some with é or a hyphen; many prefixes of each other) and disease names (hyphenated eponyms, commas, digits, upper/lower-case nouns, duplicates); two Builder-built ontologies with the same ids and the next names, looked up first, second, first, then the first decoded from binary v3, then first / second / first again key by key (every 3rd query; thorough every query), then on a clone of the first after the first is dropped; keys: every id +-1, every 2^k-1, 2^k, 2^k+1, every symbol and 8 variants of it (case, prefix, extended, blank), every disease name, every substring of four names, 10 rewritings of 24 names (case, punctuation dropped, hyphen as blank, blanks doubled, padded, words reversed), hand-written queries"));
        let stem = |j: usize| -> String { format!("{}{}", ["GEN", "Gen", "ABC", "AB", "A", "ZNF", "orf", "C1orf"][j % 8], j) };
        let symbol = |j: usize| -> String {
            if j % 7 == 6 {
                stem(j - 1)
            } else if j % 5 == 4 {
                stem(j - 1).to_lowercase()
            } else if j % 11 == 10 {
                format!("{}\u{e9}", stem(j))
            } else if j % 13 == 12 {
                format!("{}-{}", stem(j), j % 3)
            } else {
                stem(j)
            }
        };
        let dname = |j: usize| -> String {
            let j = if j % 9 == 8 { j - 1 } else { j };
            format!("{} {} type {}{}", ["Ehlers-Danlos", "Charcot-Marie-Tooth", "Bardet-Biedl", "Beh\u{e7}et", "Marfan", "Long QT", "3-M", "Ehlers Danlos"][j % 8], ["syndrome", "disease", "dysplasia", "syndrome,", "SYNDROME"][j % 5], j / 3, ["", "A", "b", ", autosomal recessive"][j % 4])
        };
        for &n in &sizes {
            if !ctx.take() {
                continue;
            }
            ctx.state();
            struct Variant {
                f: Facts,
                genes: BTreeMap<u32, String>,
                omim: BTreeMap<u32, String>,
                orpha: BTreeMap<u32, String>,
            }
            let mut variants: Vec<Variant> = vec![];
            for shift in 0..2usize {
                let mut f = Facts::default();
                f.terms = vec![Facts::term(1, "All"), Facts::term(118, "Phenotypic abnormality")];
                f.edges = vec![(118, 1)];
                let (mut genes, mut omim, mut orpha) = (BTreeMap::new(), BTreeMap::new(), BTreeMap::new());
                for i in 0..n {
                    let gid = if i + 1 == n { u32::MAX } else { 1 + 7 * i as u32 };
                    let sym = symbol(i + shift);
                    f.anns.push(Facts::ann(Kind::Gene, gid, &sym, if i % 2 == 0 { Some(118) } else { None }));
                    genes.insert(gid, sym);
                    let oid = 100_000 + 13 * i as u32;
                    let name = dname(i + shift);
                    f.anns.push(Facts::ann(Kind::Omim, oid, &name, if i % 3 == 0 { Some(1) } else { None }));
                    omim.insert(oid, name);
                    let rid = 5 + 13 * i as u32;
                    let name = dname(i + 1 + shift);
                    f.anns.push(Facts::ann(Kind::Orpha, rid, &name, None));
                    orpha.insert(rid, name);
                }
                variants.push(Variant { f, genes, omim, orpha });
            }
            // keys
            let mut key_ids: Vec<u32> = vec![0, u32::MAX - 1, u32::MAX];
            for i in 0..n as u32 {
                for base in [1 + 7 * i, 100_000 + 13 * i, 5 + 13 * i] {
                    key_ids.extend([base - 1, base, base + 1]);
                }
            }
            key_ids.extend(borders.iter().copied());
            key_ids.sort_unstable();
            key_ids.dedup();
            let dedup = |v: Vec<String>| -> Vec<String> {
                let mut seen = BTreeSet::new();
                v.into_iter().filter(|x| seen.insert(x.clone())).collect()
            };
            let mut symbol_keys: Vec<String> = vec![String::new()];
            for v in &variants {
                for sname in v.genes.values() {
                    let mut cut = sname.clone();
                    cut.pop();
                    let mut tail = sname.clone();
                    if !tail.is_empty() {
                        tail.remove(0);
                    }
                    symbol_keys.extend([sname.clone(), sname.to_lowercase(), sname.to_uppercase(), cut, tail, format!("{sname}A"), format!("{sname}0"), format!("{sname} "), format!(" {sname}")]);
                }
            }
            let symbol_keys = dedup(symbol_keys);
            let mut queries: Vec<String> = ["", " ", "-", ",", "Danlos syndrome type", "Ehlers Danlos", "type 4,", "type 1", "type 10", "e 1", "\u{e7}", "Behcet", "beh\u{e7}et", "QT", "3-M", "3 M", "M s", "syndrome, type", "SYNDROME type 1", "Syndrome", "recessive", ", autosomal recessive ", "EhlersDanlos", "Ehlers-Danlos  syndrome"].iter().map(|x| x.to_string()).collect();
            let all_names: Vec<String> = dedup(variants.iter().flat_map(|v| v.omim.values().cloned()).collect());
            queries.extend(all_names.iter().cloned());
            for k in [0, all_names.len() / 3, 2 * all_names.len() / 3, all_names.len() - 1] {
                let name = &all_names[k];
                let cuts: Vec<usize> = name.char_indices().map(|c| c.0).chain([name.len()]).collect();
                for (x, a) in cuts.iter().enumerate() {
                    for b in &cuts[x + 1..] {
                        queries.push(name[*a..*b].to_string());
                    }
                }
            }
            for name in all_names.iter().take(24) {
                let words: Vec<&str> = name.split(' ').collect();
                queries.extend([
                    name.to_lowercase(),
                    name.to_uppercase(),
                    name.replace([',', '-'], ""),
                    name.replace('-', " "),
                    name.replace(' ', "  "),
                    format!(" {name}"),
                    format!("{name} "),
                    words.iter().rev().copied().collect::<Vec<_>>().join(" "),
                    words[..2.min(words.len())].join(" "),
                    words[words.len().saturating_sub(2)..].join(" "),
                ]);
            }
            let queries = dedup(queries);
            let per = (queries.len() * 2 + 3 * key_ids.len() + symbol_keys.len()) as u64;
            ctx.transitions(2 * variants[0].f.n_steps() + variants[1].f.n_steps() + 4 * per);
            ctx.execs(4 * per);
            ctx.validateds(4 * per);
            let mut onts = vec![];
            for v in &variants {
                match drive::build(&v.f, Mode::Minimal) {
                    Ok(o) => onts.push(o),
                    Err(e) => ctx.violation("Builder", "construction fails on valid facts", json!({"records_per_kind": n, "observed": e})),
                }
            }
            if onts.len() != 2 {
                continue;
            }
            match drive::from_bytes(&crate::encode::encode(&variants[0].f, &crate::encode::EncOpts::list_order(3))) {
                Ok(Ok(o)) => onts.push(o),
                other => {
                    ctx.violation("Ontology::from_bytes", "cannot decode a file laid out as documented", json!({"records_per_kind": n, "observed": format!("{:?}", other.map(|r| r.map(|_| ())))}));
                    continue;
                }
            }
            let mut strict_subset = false;
            let mut failed = false;
            for (step, which) in [0usize, 1, 0, 2].into_iter().enumerate() {
                let vi = if which == 2 { 0 } else { which };
                let (ont, v) = (&onts[which], &variants[vi]);
                let res = guard(|| check_records(ont, &v.genes, &v.omim, &v.orpha, &key_ids, &symbol_keys, &queries, &mut strict_subset));
                let order = ["first ontology", "second ontology (same record ids, next symbols / names) after the first", "first ontology again after the second", "first ontology decoded from binary v3"][step];
                let show = |m: &BTreeMap<u32, String>| -> Vec<(u32, String)> { m.iter().take(40).map(|(k, v)| (*k, v.clone())).collect() };
                match res {
                    Ok(None) => {}
                    Ok(Some((site, sig, det))) => {
                        ctx.violation(&site, &sig, json!({"records_per_kind": n, "difference": det, "looked_up_as": order, "first 40 genes": show(&v.genes), "first 40 omim": show(&v.omim)}));
                        failed = true;
                        break;
                    }
                    Err(p) => {
                        ctx.violation("Ontology lookups", "panics", json!({"records_per_kind": n, "observed": p, "looked_up_as": order}));
                        failed = true;
                        break;
                    }
                }
            }
            if !failed {
                let (va, vb) = (&variants[0], &variants[1]);
                // key by key between the two Builder-built ontologies (every id key and symbol, every 3rd query -
                // thorough: every query), then everything on a clone of the first one after the first is dropped
                let some_queries: Vec<String> = queries.iter().step_by(if thorough { 1 } else { 3 }).cloned().collect();
                let res = guard(|| {
                    check_records_alternating(&onts[0], [&va.genes, &va.omim, &va.orpha], &onts[1], [&vb.genes, &vb.omim, &vb.orpha], &key_ids, &symbol_keys, &some_queries).or_else(|| {
                        let first = onts.remove(0);
                        let c = first.clone();
                        drop(first);
                        check_records(&c, &va.genes, &va.omim, &va.orpha, &key_ids, &symbol_keys, &queries, &mut strict_subset).map(|(site, sig, det)| (site, format!("[clone of the ontology, original dropped] {sig}"), det))
                    })
                });
                ctx.execs(2 * per);
                ctx.validateds(2 * per);
                let show = |m: &BTreeMap<u32, String>| -> Vec<(u32, String)> { m.iter().take(40).map(|(k, v)| (*k, v.clone())).collect() };
                match res {
                    Ok(None) => {}
                    Ok(Some((site, sig, det))) => ctx.violation(&site, &sig, json!({"records_per_kind": n, "difference": det, "first 40 genes": show(&va.genes), "first 40 omim": show(&va.omim), "second ontology, first 40 omim": show(&vb.omim)})),
                    Err(p) => ctx.violation("Ontology lookups", "panics", json!({"records_per_kind": n, "observed": p, "looked_up_as": "alternating key by key / on a clone"})),
                }
            }
            if strict_subset {
                ctx.nontrivial();
            }
            ctx.sample(|| json!({"records_per_kind": n, "id_keys": key_ids.len(), "symbol_keys": symbol_keys.len(), "queries": queries.len(), "some symbols": variants[0].genes.values().take(16).collect::<Vec<_>>(), "some names": variants[0].omim.values().take(8).collect::<Vec<_>>()}));
        }
    }
    // ---- dense and sparse id sets, full sweep
    ctx.space("terms/dense-and-sparse", "dense block 1..=2000; sparse sets id_k = (k*7919+1) mod 10^7 (5000 ids) and every 37th id up to 10^7 (270271 ids); full sweep of 0..10^7+10^4 plus borders, iteration and len");
    let sets: Vec<(&str, Vec<u32>)> = vec![
        ("dense 1..=2000", (1..=2000).collect()),
        ("sparse k*7919+1 mod 10^7", (0..5000u32).map(|k| ((k as u64 * 7919 + 1) % MAX_ID as u64) as u32).collect()),
        ("every 37th id", (0..MAX_ID).step_by(37).collect()),
        ("top of the id space 9990000..10^7", (9_990_000..MAX_ID).collect()),
    ];
    for (name, ids) in &sets {
        if !ctx.take() {
            continue;
        }
        ctx.state();
        ctx.nontrivial();
        let seq: Vec<(u32, String)> = ids.iter().map(|i| (*i, format!("T{i}"))).collect();
        let (mut f, mut added) = term_facts(&seq);
        ctx.transitions(f.n_steps() + MAX_ID as u64);
        let mut built = drive::build(&f, Mode::Minimal);
        if built.is_err() && ids.contains(&0) {
            // (a builder that refuses HP:0000000 as a term is not judged: the same set without it)
            ctx.bump("construction_refused_with_term_id_0", 1);
            f.terms.retain(|t| t.id != 0);
            added.remove(&0);
            built = drive::build(&f, Mode::Minimal);
        }
        match built {
            Err(e) => ctx.violation("Builder::new_term", "construction fails", json!({"id_set": name, "observed": e})),
            Ok(ont) => {
                let r = guard(|| check_keys(&ont, &added, 0..MAX_ID + 10_000).or_else(|| check_keys(&ont, &added, borders.iter().copied())).or_else(|| check_iteration(&ont, &added)));
                ctx.execs(MAX_ID as u64 + 10_000);
                ctx.validateds(MAX_ID as u64 + 10_000);
                match r {
                    Ok(None) => {}
                    Ok(Some((site, sig, det))) => ctx.violation(&site, &sig, json!({"id_set": name, "difference": det})),
                    Err(p) => ctx.violation("Ontology::hpo", "panics", json!({"id_set": name, "observed": p})),
                }
            }
        }
        ctx.sample(|| json!({"id_set": name, "n_terms": ids.len()}));
        crate::ctx::trim_heap();
    }

    // ---- the whole u32 key space on two ontologies (thorough)
    if thorough {
        ctx.space("terms/full-u32-sweep", "hpo(id) for every 32-bit id on the ontologies {1,118,9999999} and {0,2,9999998}; one case per 2^24 keys");
        for ids in [vec![1u32, 118, 9_999_999], vec![0u32, 2, 9_999_998]] {
            let seq: Vec<(u32, String)> = ids.iter().map(|i| (*i, format!("T{i}"))).collect();
            let (f, added) = term_facts(&seq);
            let mut ont: Option<Ontology> = None;
            for chunk in 0..256u32 {
                if !ctx.take() {
                    continue;
                }
                ctx.state();
                if ont.is_none() {
                    match drive::build(&f, Mode::Minimal) {
                        Ok(o) => ont = Some(o),
                        // (a builder that refuses HP:0000000 as a term is not judged)
                        Err(_) if ids.contains(&0) => {
                            ctx.bump("construction_refused_with_term_id_0", 1);
                            continue;
                        }
                        Err(e) => {
                            ctx.violation("Builder::new_term", "construction fails", json!({"term_ids_added": ids, "observed": e}));
                            continue;
                        }
                    }
                }
                let lo = chunk << 24;
                let hi = lo | 0x00ff_ffff;
                ctx.transitions(1 << 24);
                ctx.execs(1 << 24);
                ctx.validateds(1 << 24);
                match guard(|| check_keys(ont.as_ref().unwrap(), &added, lo..=hi)) {
                    Ok(None) => {}
                    Ok(Some((site, sig, det))) => ctx.violation(&site, &sig, json!({"term_ids_added": ids, "difference": det})),
                    Err(p) => ctx.violation("Ontology::hpo", "panics", json!({"term_ids_added": ids, "observed": p})),
                }
                ctx.sample(|| json!({"term_ids_added": ids, "keys": [lo, hi]}));
            }
        }
    }

    // ---- records that came in through the annotation files (both loaders): every gene / disease of the files is
    // found by its id and (genes) by its symbol, nothing else is
    {
        let symbols = ["-", "A-1", "C1orf2", "GENE", "g"];
        let dnames = ["Disease one", "MARFAN SYNDROME; MFS", "X-linked thing, type 2", "Brachydactyly-syndactyly"];
        let gene_ids = [1u32, 77, 100_132_596, u32::MAX];
        let omim_ids = [1u32, 154_700, 600_001];
        let orpha_ids = [1u32, 77, 558];
        let term_of = [10u32, 20, 10, 1];
        ctx.space("records/loaded-from-annotation-files", &format!("terms 1, 118, 10, 20; genes {gene_ids:?} with every rotation of the symbols {symbols:?} (the symbol `-` occurs in the published gene file), OMIM {omim_ids:?} and ORPHA {orpha_ids:?} with every rotation of the names {dnames:?}, one row each; loaded by from_standard and by from_standard_transitive: every id +-1, every symbol and 8 name queries"));
        for rot in 0..symbols.len() {
            for transitive in [false, true] {
                if !ctx.take() {
                    continue;
                }
                ctx.state();
                ctx.nontrivial();
                let mut f = Facts { terms: vec![Facts::term(1, "All"), Facts::term(118, "Phenotypic abnormality"), Facts::term(10, "T10"), Facts::term(20, "T20")], edges: vec![(118, 1), (10, 118), (20, 118)], anns: vec![], version: (2024, 2, 29) };
                let (mut genes, mut omim, mut orpha) = (BTreeMap::new(), BTreeMap::new(), BTreeMap::new());
                for (i, id) in gene_ids.iter().enumerate() {
                    let name = symbols[(i + rot) % symbols.len()];
                    f.anns.push(Facts::ann(Kind::Gene, *id, name, Some(term_of[i])));
                    genes.insert(*id, name.to_string());
                }
                for (i, id) in omim_ids.iter().enumerate() {
                    let name = dnames[(i + rot) % dnames.len()];
                    f.anns.push(Facts::ann(Kind::Omim, *id, name, Some(term_of[i])));
                    omim.insert(*id, name.to_string());
                }
                for (i, id) in orpha_ids.iter().enumerate() {
                    let name = dnames[(i + rot + 1) % dnames.len()];
                    f.anns.push(Facts::ann(Kind::Orpha, *id, name, Some(term_of[i + 1])));
                    orpha.insert(*id, name.to_string());
                }
                let mut key_ids: Vec<u32> = vec![0, 2, 10, 20];
                for id in gene_ids.iter().chain(&omim_ids).chain(&orpha_ids) {
                    key_ids.extend([id.wrapping_sub(1), *id, id.wrapping_add(1)]);
                }
                key_ids.sort_unstable();
                key_ids.dedup();
                let symbol_keys: Vec<String> = symbols.iter().map(|s| s.to_string()).chain(["A".to_string(), "--".to_string(), "gene".to_string(), "G".to_string()]).collect();
                let queries: Vec<String> = ["Disease", "MARFAN", "-", "type 2", "zzz", "syndactyly", "; ", "one"].iter().map(|s| s.to_string()).collect();
                ctx.exec();
                ctx.transitions(f.n_steps() + (key_ids.len() + symbol_keys.len() + queries.len()) as u64);
                let loader = if transitive { "Ontology::from_standard_transitive" } else { "Ontology::from_standard" };
                match crate::jax::load(&crate::jax::render(&f, &crate::jax::JaxOpts::default()), transitive) {
                    Ok(Ok(ont)) => {
                        ctx.validated();
                        let mut strict = false;
                        match guard(|| check_records(&ont, &genes, &omim, &orpha, &key_ids, &symbol_keys, &queries, &mut strict)) {
                            Ok(None) => {}
                            Ok(Some((site, sig, det))) => ctx.violation(&site, &format!("[loaded from the annotation files] {sig}"), json!({"facts": f.to_json(), "loader": loader, "difference": det})),
                            Err(p) => ctx.violation("Ontology lookups", "panics", json!({"facts": f.to_json(), "loader": loader, "observed": p})),
                        }
                    }
                    other => ctx.violation(loader, "rejects valid JAX files", json!({"facts": f.to_json(), "observed": format!("{:?}", other.map(|r| r.map(|_| ())))})),
                }
                ctx.sample(|| json!({"facts": f.to_json(), "loader": loader}));
            }
        }
        crate::jax::cleanup();
    }

    // ---- lookup keys given in their textual form: the key `HP:<digits>` that the crate itself prints for an id
    // names that id and no other (a reader may refuse a form it does not accept; it must not name another term)
    {
        ctx.space("keys/textual-form", "every border key (2^k-1, 2^k, 2^k+1, 10^7 +- 3, 10^8 - 1, 10^8, 10^9, u32::MAX - 1, u32::MAX, ...) and every multiple of 10^6 and of 10^7 in the u32 range, +-1: HpoTermId::try_from of the text the crate prints for the id (and of the zero-padded `HP:%07d` form) is refused or yields exactly that id; on the ontology {1, 118, 1000000, 4294967, 9999999} the lookup through the parsed key finds a term if and only if that id was added");
        if ctx.take() {
            ctx.state();
            ctx.nontrivial();
            let mut keys = border_keys();
            for m in 0..=4294u32 {
                let x = m * 1_000_000;
                keys.extend([x.wrapping_sub(1), x, x.wrapping_add(1)]);
            }
            keys.extend([1_000_000, 4_294_967, 429_496, 42_949_672, 999_999, 9_999_999, 10_000_000, 10_000_001, 10_000_118, 20_000_001, 4_290_000_118]);
            keys.sort_unstable();
            keys.dedup();
            let ids = vec![1u32, 118, 1_000_000, 4_294_967, 9_999_999];
            let seq: Vec<(u32, String)> = ids.iter().map(|i| (*i, format!("T{i}"))).collect();
            let (f, added) = term_facts(&seq);
            match drive::build(&f, Mode::Minimal) {
                Err(e) => ctx.violation("Builder::new_term", "construction fails", json!({"term_ids_added": ids, "observed": e})),
                Ok(ont) => {
                    let res = guard(|| -> V {
                        for &k in &keys {
                            let printed = hpo::HpoTermId::from_u32(k).to_string();
                            let padded = format!("HP:{k:07}");
                            for text in [printed, padded] {
                                if let Ok(id) = hpo::HpoTermId::try_from(text.as_str()) {
                                    if id.as_u32() != k {
                                        return Some(("HpoTermId::try_from(&str)".into(), "the textual key of one id is read as another id".into(), format!("key {text:?} (id {k}) is read as id {}", id.as_u32())));
                                    }
                                    let found = ont.hpo(id).map(|t| t.id().as_u32());
                                    let want = if added.contains_key(&k) { Some(k) } else { None };
                                    if found != want {
                                        return Some(("Ontology::hpo".into(), "lookup through the textual key: wrong presence".into(), format!("key {text:?}: found {found:?}, added {want:?}")));
                                    }
                                }
                            }
                        }
                        None
                    });
                    ctx.execs(2 * keys.len() as u64);
                    ctx.validateds(2 * keys.len() as u64);
                    ctx.transitions(2 * keys.len() as u64);
                    match res {
                        Ok(None) => {}
                        Ok(Some((site, sig, det))) => ctx.violation(&site, &sig, json!({"term_ids_added": ids, "difference": det})),
                        Err(p) => ctx.violation("HpoTermId::try_from(&str)", "panics", json!({"term_ids_added": ids, "observed": p})),
                    }
                }
            }
            ctx.sample(|| json!({"term_ids_added": [1, 118, 1_000_000, 4_294_967, 9_999_999], "keys": "textual"}));
        }
    }

    let n = take_ascending_retries();
    if n > 0 {
        ctx.bump("refused: ids inside a record not ascending, the same facts with ascending lists accepted", n);
    }
}
