//! C10 - lookups are exact for every possible id and every name.

use crate::ctx::{guard, Ctx};
use crate::drive;
use crate::model::{Facts, Kind, Mode};
use crate::space::permutations;
use hpo::annotations::{AnnotationId, Disease};
use hpo::{HpoTerm, Ontology};
use serde_json::json;
use std::collections::{BTreeMap, BTreeSet};

const MAX_ID: u32 = 10_000_000;

fn border_keys() -> Vec<u32> {
    let mut v: Vec<u32> = vec![];
    for k in 0..32 {
        let p = 1u32 << k;
        v.extend([p.wrapping_sub(1), p, p.wrapping_add(1)]);
    }
    v.extend(MAX_ID - 3..=MAX_ID + 3);
    v.extend([99_999_999, 100_000_000, 1_000_000_000, u32::MAX - 1, u32::MAX, 0, 1, 2, 3, 117, 118, 119]);
    v.sort_unstable();
    v.dedup();
    v
}

type V = Option<(String, String, String)>;

/// hpo(id) for the given keys: Some exactly for added ids, with the right id and name
fn check_keys<I: Iterator<Item = u32>>(ont: &Ontology, added: &BTreeMap<u32, String>, keys: I) -> V {
    for id in keys {
        let got = ont.hpo(id);
        match (got, added.get(&id)) {
            (None, None) => {}
            (Some(t), Some(name)) => {
                if t.id().as_u32() != id || t.name() != name {
                    return Some(("Ontology::hpo".into(), "returns a term with another id or other data than it was added with".into(), format!("hpo({id}) -> id {} name {:?}, added with name {:?}", t.id().as_u32(), t.name(), name)));
                }
            }
            (Some(t), None) => return Some(("Ontology::hpo".into(), "returns a term for an id that was never added".into(), format!("hpo({id}) -> {}", t.id().as_u32()))),
            (None, Some(_)) => return Some(("Ontology::hpo".into(), "returns nothing for an id that was added".into(), format!("hpo({id})"))),
        }
        let tn = HpoTerm::try_new(ont, id).is_ok();
        if tn != added.contains_key(&id) {
            return Some(("HpoTerm::try_new".into(), "disagrees with the set of added ids".into(), format!("try_new({id}).is_ok() = {tn}")));
        }
    }
    None
}

fn check_iteration(ont: &Ontology, added: &BTreeMap<u32, String>) -> V {
    let mut seen: BTreeSet<u32> = BTreeSet::new();
    let mut n = 0;
    for t in ont.iter() {
        n += 1;
        if !seen.insert(t.id().as_u32()) {
            return Some(("Ontology::iter".into(), "yields a term twice".into(), format!("term {}", t.id().as_u32())));
        }
    }
    let want: BTreeSet<u32> = added.keys().copied().collect();
    if seen != want {
        return Some(("Ontology::iter".into(), "does not yield exactly the added terms".into(), format!("observed {seen:?} expected {want:?}")));
    }
    if n != ont.len() || ont.len() != added.len() {
        return Some(("Ontology::len".into(), "disagrees with iteration / the number of added terms".into(), format!("len {} iterated {} added {}", ont.len(), n, added.len())));
    }
    let a: Vec<u32> = ont.hpos().map(|t| t.id().as_u32()).collect();
    let b: Vec<u32> = (&ont).into_iter().map(|t| t.id().as_u32()).collect();
    let c: Vec<u32> = ont.iter().map(|t| t.id().as_u32()).collect();
    if a != c || b != c {
        return Some(("Ontology::hpos".into(), "hpos() / &ontology / iter() disagree".into(), String::new()));
    }
    // a partly consumed iterator: what is left agrees with len() as well (count, size_hint, last, nth)
    let len = ont.len();
    let cuts: Vec<usize> = if len <= 40 { (0..=len + 1).collect() } else { vec![0, 1, 2, len / 2, len - 1, len, len + 1] };
    for k in cuts {
        let mut it = ont.iter();
        let mut taken = 0;
        for _ in 0..k {
            if it.next().is_some() {
                taken += 1;
            }
        }
        let left = len - taken;
        let (lo, hi) = it.size_hint();
        if lo > left || hi.map_or(false, |h| h < left) {
            return Some(("Ontology::iter".into(), "size_hint of a partly consumed iterator excludes the number of terms left".into(), format!("after {taken} of {len}: size_hint ({lo}, {hi:?})")));
        }
        let counted = it.count();
        if counted != left {
            return Some(("Ontology::iter".into(), "count() of a partly consumed iterator is not the number of terms left".into(), format!("after {taken} of {len}: count() = {counted}")));
        }
        let skipped = ont.hpos().skip(k).count();
        if skipped != len.saturating_sub(k) {
            return Some(("Ontology::hpos".into(), "skip(k).count() is not len() - k".into(), format!("k = {k}, len = {len}: {skipped}")));
        }
        let nth = ont.iter().nth(k).map(|t| t.id().as_u32());
        if nth != c.get(k).copied() {
            return Some(("Ontology::iter".into(), "nth(k) is not the k-th term of the iteration".into(), format!("k = {k}: {nth:?} vs {:?}", c.get(k))));
        }
    }
    if ont.iter().last().map(|t| t.id().as_u32()) != c.last().copied() {
        return Some(("Ontology::iter".into(), "last() is not the last term of the iteration".into(), String::new()));
    }
    None
}

fn term_facts(seq: &[(u32, String)]) -> (Facts, BTreeMap<u32, String>) {
    let mut f = Facts::default();
    let mut added = BTreeMap::new();
    for (id, name) in seq {
        f.terms.push(Facts::term(*id, name));
        added.entry(*id).or_insert_with(|| name.clone());
    }
    (f, added)
}

fn all_strings(alphabet: &[&str], max_len: usize) -> Vec<String> {
    let mut out = vec![String::new()];
    let mut frontier = vec![String::new()];
    for _ in 0..max_len {
        let mut next = vec![];
        for s in &frontier {
            for a in alphabet {
                next.push(format!("{s}{a}"));
            }
        }
        out.extend(next.iter().cloned());
        frontier = next;
    }
    out
}

pub fn run(ctx: &mut Ctx) {
    let thorough = ctx.tier.thorough();
    ctx.rule = "terms: case = one ontology (id set x insertion order, repeated ids included) with hpo(id)/try_new for every id of 0..10^7 (canonical order of each id set) or the border keys (other orders), plus iteration/len; records: case = one record set with every id key and every query string; distinct by construction; non-trivial = ontology with at least one id at a border of the id space or a repeated id, resp. a record set where some query matches a strict subset".into();
    ctx.assumptions = vec![
        "term ids are < 10^7 (documented id range; new_term with a larger id panics and is outside the quantifier)".into(),
        "new_term with an id that was already added does nothing (documented): the first name wins".into(),
        "gene_by_name / omim_disease_by_name return some matching record when several match".into(),
    ];
    let borders = border_keys();
    let pool: [u32; 6] = [0, 1, 2, 118, 9_999_998, 9_999_999];

    // ---- all subsets of the border pool; full id sweep on the canonical order, border keys on all other orders
    ctx.space("terms/border-pool-subsets", "all 64 subsets of {0,1,2,118,9999998,9999999}: full sweep hpo(id) for every id 0..10^7+10^4 on the ascending insertion order; every insertion order (<= 4 elements) or rotation/reverse (more) and every single repeated id checked on the border keys");
    for mask in 0u32..64 {
        let ids: Vec<u32> = crate::space::bits(mask, 6).iter().map(|i| pool[*i]).collect();
        // canonical: full sweep, one case per subset
        if ctx.take() {
            ctx.state();
            if ids.iter().any(|i| *i == 0 || *i >= 9_999_998) {
                ctx.nontrivial();
            }
            let seq: Vec<(u32, String)> = ids.iter().map(|i| (*i, format!("T{i}"))).collect();
            let (f, added) = term_facts(&seq);
            ctx.transitions(f.n_steps() + (MAX_ID as u64 + 10_000));
            match drive::build(&f, Mode::Minimal) {
                Err(e) => ctx.violation("Builder::new_term", "construction fails", json!({"ids": ids, "observed": e})),
                Ok(ont) => {
                    let r = guard(|| check_keys(&ont, &added, 0..MAX_ID + 10_000).or_else(|| check_keys(&ont, &added, borders.iter().copied())).or_else(|| check_keys(&ont, &added, u32::MAX - 10_000..=u32::MAX)).or_else(|| check_iteration(&ont, &added)));
                    ctx.execs(MAX_ID as u64 + 20_000);
                    ctx.validateds(MAX_ID as u64 + 20_000);
                    match r {
                        Ok(None) => {}
                        Ok(Some((site, sig, det))) => ctx.violation(&site, &sig, json!({"term_ids_added": ids, "difference": det, "rust": f.to_rust(false)})),
                        Err(p) => ctx.violation("Ontology::hpo", "panics", json!({"term_ids_added": ids, "observed": p})),
                    }
                    ctx.outcome(mask as u64);
                }
            }
            ctx.sample(|| json!({"term_ids_added": ids, "keys": "0..10^7+10^4, borders, u32::MAX-10^4..=u32::MAX"}));
        }
        // other orders and repeats: border keys only, one case per subset
        if ids.len() >= 2 && ctx.take() {
            ctx.state();
            ctx.nontrivial();
            let orders = if ids.len() <= 4 { permutations(ids.len()) } else { crate::space::rotations_and_reverse(ids.len()) };
            let mut seqs: Vec<Vec<(u32, String)>> = orders.iter().skip(1).map(|p| p.iter().map(|i| (ids[*i], format!("T{}", ids[*i]))).collect()).collect();
            // every single repeated id (with another name), at the end and right after the original
            for i in 0..ids.len() {
                let mut s: Vec<(u32, String)> = ids.iter().map(|x| (*x, format!("T{x}"))).collect();
                s.push((ids[i], "repeated".into()));
                seqs.push(s);
                let mut s: Vec<(u32, String)> = ids.iter().map(|x| (*x, format!("T{x}"))).collect();
                s.insert(i + 1, (ids[i], "repeated".into()));
                seqs.push(s);
            }
            for seq in seqs {
                let (f, added) = term_facts(&seq);
                ctx.transitions(f.n_steps() + borders.len() as u64);
                ctx.exec();
                ctx.validated();
                match drive::build(&f, Mode::Minimal) {
                    Err(e) => ctx.violation("Builder::new_term", "construction fails", json!({"new_term calls": seq, "observed": e})),
                    Ok(ont) => match guard(|| check_keys(&ont, &added, borders.iter().copied()).or_else(|| check_iteration(&ont, &added))) {
                        Ok(None) => {}
                        Ok(Some((site, sig, det))) => ctx.violation(&site, &sig, json!({"new_term calls": seq, "difference": det, "rust": f.to_rust(false)})),
                        Err(p) => ctx.violation("Ontology::hpo", "panics", json!({"new_term calls": seq, "observed": p})),
                    },
                }
            }
            ctx.sample(|| json!({"term_ids": ids, "orders_and_repeats": true}));
        }
    }

    // ---- ids at binary block boundaries: every power of two below 10^7 with its two neighbours, every multiple
    // of 2^16 up to 2^20 and of 2^20 up to 10^7 - a lookup table that is paged, grown or narrowed has its seams here
    {
        let mut special: Vec<u32> = vec![];
        for k in 0..24u32 {
            let p = 1u32 << k;
            for v in [p.wrapping_sub(1), p, p + 1] {
                if v < MAX_ID {
                    special.push(v);
                }
            }
        }
        for j in 1..=16u32 {
            special.push(j << 16);
        }
        for j in 1..=9u32 {
            special.extend([(j << 20) - 1, j << 20, (j << 20) + 1]);
        }
        special.sort_unstable();
        special.dedup();
        let singles: Vec<Vec<u32>> = (1..=9u32).map(|j| vec![j << 20]).chain((16..24u32).map(|k| vec![1u32 << k])).collect();
        ctx.space("terms/block-boundary-ids", &format!("one ontology over {} ids (2^k-1, 2^k, 2^k+1 for k < 24; j*2^16 for j <= 16; j*2^20-1, j*2^20, j*2^20+1 for j <= 9) in ascending, descending and rotated insertion order, and {} ontologies holding a single such id: hpo(id) for every listed id +-2, the border keys, iteration, len", special.len(), singles.len()));
        let n = special.len();
        let mut id_sets: Vec<(Vec<u32>, &str)> = vec![(special.clone(), "ascending"), (special.iter().rev().copied().collect(), "descending"), ((0..n).map(|i| special[(i + n / 2) % n]).collect(), "rotated by half")];
        for one in &singles {
            id_sets.push((one.clone(), "single id"));
        }
        let mut keys: Vec<u32> = vec![];
        for v in &special {
            for d in -2i64..=2 {
                let k = *v as i64 + d;
                if k >= 0 {
                    keys.push(k as u32);
                }
            }
        }
        keys.extend(borders.iter().copied());
        for (ids, order) in &id_sets {
            if !ctx.take() {
                continue;
            }
            ctx.state();
            ctx.nontrivial();
            let seq: Vec<(u32, String)> = ids.iter().map(|i| (*i, format!("T{i}"))).collect();
            let (f, added) = term_facts(&seq);
            ctx.transitions(f.n_steps() + keys.len() as u64);
            ctx.execs(keys.len() as u64);
            ctx.validateds(keys.len() as u64);
            match drive::build(&f, Mode::Minimal) {
                Err(e) => ctx.violation("Builder::new_term", "construction fails", json!({"term_ids_added": ids, "insertion_order": order, "observed": e})),
                Ok(ont) => match guard(|| check_keys(&ont, &added, keys.iter().copied()).or_else(|| check_iteration(&ont, &added))) {
                    Ok(None) => {}
                    Ok(Some((site, sig, det))) => ctx.violation(&site, &sig, json!({"term_ids_added": ids, "insertion_order": order, "difference": det})),
                    Err(p) => ctx.violation("Ontology::hpo", "panics", json!({"term_ids_added": ids, "insertion_order": order, "observed": p})),
                },
            }
            ctx.sample(|| json!({"ids": ids.len(), "insertion_order": order, "keys": keys.len()}));
        }
    }

    // ---- ontologies built by the binary decoder and the text loader (names incl. the empty one, every record order)
    {
        let family = crate::props::common::format_family(4, if thorough { 1 } else { 8 });
        ctx.space("terms/decoded-ontologies", &format!("{} small fact sets (names \"\", x, é, a: b; flags; records) decoded from binary v1/v2/v3 in every term-record order and from hp.obo in every stanza order: hpo(id) for 0..1200, the border keys and every added id; iteration; len", family.len()));
        for (f, what) in &family {
            if !ctx.take() {
                continue;
            }
            ctx.state();
            if f.terms.iter().any(|t| t.name.is_empty()) {
                ctx.nontrivial();
            }
            let added: BTreeMap<u32, String> = f.terms.iter().map(|t| (t.id, t.name.clone())).collect();
            let n = f.terms.len();
            let mut keys: Vec<u32> = (0..1200).collect();
            keys.extend(borders.iter().copied());
            keys.extend(added.keys().copied());
            for p in permutations(n) {
                let g = Facts { terms: crate::space::apply_perm(&f.terms, &p), ..f.clone() };
                for version in [3u8, 2, 1] {
                    if version < 3 && !(p.windows(2).all(|w| w[0] < w[1]) || p.windows(2).all(|w| w[0] > w[1])) {
                        continue;
                    }
                    let pf = crate::encode::project(&g, version);
                    let bytes = crate::encode::encode(&pf, &crate::encode::EncOpts::v(version));
                    ctx.transitions(pf.n_steps() + keys.len() as u64);
                    ctx.exec();
                    ctx.validated();
                    match drive::from_bytes(&bytes) {
                        Ok(Ok(ont)) => match guard(|| check_keys(&ont, &added, keys.iter().copied()).or_else(|| check_iteration(&ont, &added))) {
                            Ok(None) => {}
                            Ok(Some((site, sig, det))) => ctx.violation(&site, &format!("[decoded from binary v{version}] {sig}"), json!({"family": what, "facts": pf.to_json(), "term_record_order": p, "difference": det})),
                            Err(pn) => ctx.violation("Ontology::hpo", "panics", json!({"family": what, "facts": pf.to_json(), "observed": pn})),
                        },
                        other => ctx.violation("Ontology::from_bytes", "rejects a file laid out as documented", json!({"family": what, "facts": pf.to_json(), "observed": format!("{:?}", other.map(|r| r.map(|_| ())))})),
                    }
                }
                // text path (no empty names there)
                if p.windows(2).all(|w| w[0] < w[1]) || p.windows(2).all(|w| w[0] > w[1]) || p[n - 1] == 0 {
                    let mut tf = g.clone();
                    tf.anns.retain(|a| a.term.is_some());
                    for t in tf.terms.iter_mut() {
                        if t.name.is_empty() {
                            t.name = "n".into();
                        }
                    }
                    let tadded: BTreeMap<u32, String> = tf.terms.iter().map(|t| (t.id, t.name.clone())).collect();
                    ctx.transitions(tf.n_steps() + keys.len() as u64);
                    ctx.exec();
                    ctx.validated();
                    // stanza layouts alternate: plain, extra tags, tags (and the flags) between id and name
                    let mut jo = crate::jax::JaxOpts::default();
                    match (p[0] + p[n - 1]) % 3 {
                        1 => jo.distractors = vec![crate::jax::Distractor::ExtraTags],
                        2 => jo.distractors = vec![crate::jax::Distractor::TagsBeforeName],
                        _ => {}
                    }
                    match crate::jax::load(&crate::jax::render(&tf, &jo), false) {
                        Ok(Ok(ont)) => match guard(|| check_keys(&ont, &tadded, keys.iter().copied()).or_else(|| check_iteration(&ont, &tadded))) {
                            Ok(None) => {}
                            Ok(Some((site, sig, det))) => ctx.violation(&site, &format!("[loaded from hp.obo] {sig}"), json!({"family": what, "facts": tf.to_json(), "stanza_order": p, "stanza_layout": format!("{:?}", jo.distractors), "difference": det})),
                            Err(pn) => ctx.violation("Ontology::hpo", "panics", json!({"family": what, "facts": tf.to_json(), "observed": pn})),
                        },
                        other => ctx.violation("Ontology::from_standard", "rejects valid JAX files", json!({"family": what, "facts": tf.to_json(), "observed": format!("{:?}", other.map(|r| r.map(|_| ())))})),
                    }
                }
            }
            ctx.sample(|| json!({"family": what, "facts": f.to_json(), "term_record_orders": permutations(n).len()}));
        }
        crate::jax::cleanup();
    }

    // ---- records: lookups by id, symbol, name substring
    let rec_ids: [u32; 4] = [0, 1, 77, u32::MAX];
    let symbols: [&str; 5] = ["", "A", "a", "AB", "\u{e9}"];
    let dnames: [&str; 9] = ["", "A", "a", "AB", "BA", "A B", "\u{e9}", "a\u{e9}", "ABA"];
    let queries = all_strings(&["A", "a", "B", "\u{e9}", " "], 3);
    let key_ids: Vec<u32> = vec![0, 1, 2, 76, 77, 78, 255, 256, 65_535, 65_536, u32::MAX - 1, u32::MAX];
    ctx.space("records/ids-symbols-names", "gene sets: all 16 subsets of ids {0,1,77,u32::MAX} x 5 symbol rotations (duplicate symbols included); OMIM/ORPHA sets: all subsets of <= 3 of 9 names plus the full set, records with and without terms; per case two Builder-built ontologies with the same record ids but the next symbols / names, looked up in the order first, second, first, then the first one decoded from binary v3; every id key, every symbol, all 156 query strings over {A,a,B,é,space} up to length 3");
    // disease name subsets
    let mut name_sets: Vec<Vec<usize>> = vec![vec![]];
    for a in 0..9 {
        name_sets.push(vec![a]);
        for b in a + 1..9 {
            name_sets.push(vec![a, b]);
            for c in b + 1..9 {
                name_sets.push(vec![a, b, c]);
            }
        }
    }
    name_sets.push((0..9).collect());
    for (si, ns) in name_sets.iter().enumerate() {
        if !ctx.take() {
            continue;
        }
        ctx.state();
        let gmask = (si % 16) as u32;
        // two ontologies per case with the same record ids and counts: in the second one every symbol and
        // name is the next one of the rotation. Looked up in the order first, second, first again (a lookup
        // must not depend on what was looked up before, in this or in another ontology)
        struct Variant {
            f: Facts,
            genes: BTreeMap<u32, String>,
            omim: BTreeMap<u32, String>,
            orpha: BTreeMap<u32, String>,
        }
        let mut variants: Vec<Variant> = vec![];
        for shift in 0..2usize {
            let rot = (si + shift) % 5;
            let mut f = Facts::default();
            f.terms = vec![Facts::term(1, "All"), Facts::term(118, "Phenotypic abnormality")];
            f.edges = vec![(118, 1)];
            let mut genes: BTreeMap<u32, String> = BTreeMap::new();
            for (i, gid) in rec_ids.iter().enumerate() {
                if gmask >> i & 1 == 1 {
                    // symbols rotate; every third set gives two genes the same symbol
                    let sym = if si % 3 == 0 && i >= 2 { symbols[rot] } else { symbols[(i + rot) % 5] };
                    genes.insert(*gid, sym.to_string());
                    f.anns.push(Facts::ann(Kind::Gene, *gid, sym, if i % 2 == 0 { Some(118) } else { None }));
                }
            }
            let mut omim: BTreeMap<u32, String> = BTreeMap::new();
            let mut orpha: BTreeMap<u32, String> = BTreeMap::new();
            for (j, ni) in ns.iter().enumerate() {
                let id = if j + 1 == ns.len() && ns.len() > 1 { u32::MAX } else { j as u32 * 77 };
                omim.insert(id, dnames[(*ni + 2 * shift) % 9].to_string());
                f.anns.push(Facts::ann(Kind::Omim, id, dnames[(*ni + 2 * shift) % 9], if (j + si) % 2 == 0 { Some(1) } else { None }));
                orpha.insert(id, dnames[(*ni + 1 + 2 * shift) % 9].to_string());
                f.anns.push(Facts::ann(Kind::Orpha, id, dnames[(*ni + 1 + 2 * shift) % 9], None));
            }
            variants.push(Variant { f, genes, omim, orpha });
        }
        let per = (queries.len() * 2 + 3 * key_ids.len() + symbols.len()) as u64;
        ctx.transitions(2 * variants[0].f.n_steps() + variants[1].f.n_steps() + 4 * per);
        ctx.execs(4 * per);
        ctx.validateds(4 * per);
        let mut onts = vec![];
        for v in &variants {
            match drive::build(&v.f, Mode::Minimal) {
                Ok(o) => onts.push(o),
                Err(_) => ctx.violation("Builder", "construction fails on valid facts", json!({"facts": v.f.to_json()})),
            }
        }
        if onts.len() != 2 {
            continue;
        }
        // the first ontology once more, decoded from the binary format (records without terms included)
        match drive::from_bytes(&crate::encode::encode(&variants[0].f, &crate::encode::EncOpts::v(3))) {
            Ok(Ok(o)) => onts.push(o),
            other => {
                ctx.violation("Ontology::from_bytes", "cannot decode a file laid out as documented", json!({"facts": variants[0].f.to_json(), "observed": format!("{:?}", other.map(|r| r.map(|_| ())))}));
                continue;
            }
        }
        let mut strict_subset = false;
        for (step, which) in [0usize, 1, 0, 2].into_iter().enumerate() {
            let vi = if which == 2 { 0 } else { which };
            let (ont, genes, omim, orpha) = (&onts[which], &variants[vi].genes, &variants[vi].omim, &variants[vi].orpha);
            let res = guard(|| -> V {
                for k in &key_ids {
                    let g = ont.gene(&(*k).into()).map(|g| (g.id().as_u32(), g.name().to_string()));
                    if g != genes.get(k).map(|n| (*k, n.clone())) {
                        return Some(("Ontology::gene".into(), "does not return the record with that id or nothing".into(), format!("gene({k}) = {g:?}")));
                    }
                    let o = ont.omim_disease(&(*k).into()).map(|d| (d.id().as_u32(), d.name().to_string()));
                    if o != omim.get(k).map(|n| (*k, n.clone())) {
                        return Some(("Ontology::omim_disease".into(), "does not return the record with that id or nothing".into(), format!("omim_disease({k}) = {o:?}")));
                    }
                    let r = ont.orpha_disease(&(*k).into()).map(|d| (d.id().as_u32(), d.name().to_string()));
                    if r != orpha.get(k).map(|n| (*k, n.clone())) {
                        return Some(("Ontology::orpha_disease".into(), "does not return the record with that id or nothing".into(), format!("orpha_disease({k}) = {r:?}")));
                    }
                }
                for s in symbols.iter().copied().chain(["B", "ab", "A ", " A", "AA"]) {
                    let got = ont.gene_by_name(s).map(|g| (g.id().as_u32(), g.name().to_string()));
                    let exists = genes.values().any(|n| n == s);
                    match got {
                        Some((id, name)) => {
                            if name != s || genes.get(&id) != Some(&name) {
                                return Some(("Ontology::gene_by_name".into(), "returns a gene whose symbol is not exactly the query".into(), format!("gene_by_name({s:?}) = ({id}, {name:?})")));
                            }
                        }
                        None => {
                            if exists {
                                return Some(("Ontology::gene_by_name".into(), "returns nothing although a gene with exactly that symbol exists".into(), format!("gene_by_name({s:?})")));
                            }
                        }
                    }
                }
                for q in &queries {
                    let want: BTreeSet<u32> = omim.iter().filter(|(_, n)| n.contains(q.as_str())).map(|(i, _)| *i).collect();
                    let got_list: Vec<u32> = ont.omim_diseases_by_name(q).map(|d| d.id().as_u32()).collect();
                    let got: BTreeSet<u32> = got_list.iter().copied().collect();
                    if got != want || got_list.len() != want.len() {
                        return Some(("Ontology::omim_diseases_by_name".into(), "does not return exactly the diseases whose name contains the query".into(), format!("query {q:?}: observed {got_list:?} expected {want:?}")));
                    }
                    if !want.is_empty() && want.len() < omim.len() {
                        strict_subset = true;
                    }
                    let one = ont.omim_disease_by_name(q).map(|d| d.id().as_u32());
                    match one {
                        Some(id) if want.contains(&id) => {}
                        None if want.is_empty() => {}
                        other => return Some(("Ontology::omim_disease_by_name".into(), "does not return a disease whose name contains the query (or None iff there is none)".into(), format!("query {q:?}: observed {other:?} expected one of {want:?}"))),
                    }
                }
                None
            });
            let order = ["first ontology", "second ontology (same record ids, next symbols / names) after the first", "first ontology again after the second", "first ontology decoded from binary v3"][step];
            match res {
                Ok(None) => {}
                Ok(Some((site, sig, det))) => {
                    ctx.violation(&site, &sig, json!({"facts": variants[vi].f.to_json(), "difference": det, "looked_up_as": order, "other_ontology": variants[1 - vi].f.to_json()}));
                    break;
                }
                Err(p) => {
                    ctx.violation("Ontology lookups", "panics", json!({"facts": variants[vi].f.to_json(), "observed": p, "looked_up_as": order}));
                    break;
                }
            }
        }
        if strict_subset {
            ctx.nontrivial();
        }
        ctx.outcome(si as u64);
        ctx.sample(|| json!({"genes": variants[0].genes, "omim": variants[0].omim, "orpha": variants[0].orpha, "second ontology genes": variants[1].genes, "queries": queries.len()}));
    }
    // ---- dense and sparse id sets, full sweep
    ctx.space("terms/dense-and-sparse", "dense block 1..=2000; sparse sets id_k = (k*7919+1) mod 10^7 (5000 ids) and every 37th id up to 10^7 (270271 ids); full sweep of 0..10^7+10^4 plus borders, iteration and len");
    let sets: Vec<(&str, Vec<u32>)> = vec![
        ("dense 1..=2000", (1..=2000).collect()),
        ("sparse k*7919+1 mod 10^7", (0..5000u32).map(|k| ((k as u64 * 7919 + 1) % MAX_ID as u64) as u32).collect()),
        ("every 37th id", (0..MAX_ID).step_by(37).collect()),
        ("top of the id space 9990000..10^7", (9_990_000..MAX_ID).collect()),
    ];
    for (name, ids) in &sets {
        if !ctx.take() {
            continue;
        }
        ctx.state();
        ctx.nontrivial();
        let seq: Vec<(u32, String)> = ids.iter().map(|i| (*i, format!("T{i}"))).collect();
        let (f, added) = term_facts(&seq);
        ctx.transitions(f.n_steps() + MAX_ID as u64);
        match drive::build(&f, Mode::Minimal) {
            Err(e) => ctx.violation("Builder::new_term", "construction fails", json!({"id_set": name, "observed": e})),
            Ok(ont) => {
                let r = guard(|| check_keys(&ont, &added, 0..MAX_ID + 10_000).or_else(|| check_keys(&ont, &added, borders.iter().copied())).or_else(|| check_iteration(&ont, &added)));
                ctx.execs(MAX_ID as u64 + 10_000);
                ctx.validateds(MAX_ID as u64 + 10_000);
                match r {
                    Ok(None) => {}
                    Ok(Some((site, sig, det))) => ctx.violation(&site, &sig, json!({"id_set": name, "difference": det})),
                    Err(p) => ctx.violation("Ontology::hpo", "panics", json!({"id_set": name, "observed": p})),
                }
            }
        }
        ctx.sample(|| json!({"id_set": name, "n_terms": ids.len()}));
        crate::ctx::trim_heap();
    }

    // ---- the whole u32 key space on two ontologies (thorough)
    if thorough {
        ctx.space("terms/full-u32-sweep", "hpo(id) for every 32-bit id on the ontologies {1,118,9999999} and {0,2,9999998}; one case per 2^24 keys");
        for ids in [vec![1u32, 118, 9_999_999], vec![0u32, 2, 9_999_998]] {
            let seq: Vec<(u32, String)> = ids.iter().map(|i| (*i, format!("T{i}"))).collect();
            let (f, added) = term_facts(&seq);
            let mut ont: Option<Ontology> = None;
            for chunk in 0..256u32 {
                if !ctx.take() {
                    continue;
                }
                ctx.state();
                if ont.is_none() {
                    ont = Some(drive::build(&f, Mode::Minimal).expect("build"));
                }
                let lo = chunk << 24;
                let hi = lo | 0x00ff_ffff;
                ctx.transitions(1 << 24);
                ctx.execs(1 << 24);
                ctx.validateds(1 << 24);
                match guard(|| check_keys(ont.as_ref().unwrap(), &added, lo..=hi)) {
                    Ok(None) => {}
                    Ok(Some((site, sig, det))) => ctx.violation(&site, &sig, json!({"term_ids_added": ids, "difference": det})),
                    Err(p) => ctx.violation("Ontology::hpo", "panics", json!({"term_ids_added": ids, "observed": p})),
                }
                ctx.sample(|| json!({"term_ids_added": ids, "keys": [lo, hi]}));
            }
        }
    }

}
