//! C05 - set similarity combines the pairwise matrix as funSimAvg / funSimMax / BMA.

use crate::ctx::{guard, Ctx};
use crate::drive;
use crate::model::{Facts, Mode};
use hpo::matrix::Matrix;
use hpo::similarity::{CachedSimilarity, GroupSimilarity, Similarity, SimilarityCombiner, StandardCombiner};
use hpo::term::HpoGroup;
use hpo::{HpoSet, HpoTerm, Ontology};
use serde_json::json;
use std::cell::RefCell;
use std::rc::Rc;

const BASE: u32 = 10;
const N_TERMS: usize = 8;

/// User-supplied similarity: a table look-up by the two term ids (asymmetric in general), recording every call.
#[derive(Clone)]
struct Table {
    grid: [[f32; N_TERMS]; N_TERMS],
    calls: Rc<RefCell<Vec<(u32, u32)>>>,
    /// per call: does the first / second term handed in belong to the twin instance (twin names start with "twin")
    owners: Rc<RefCell<Vec<(bool, bool)>>>,
    /// the ids of the ontology in use; a term id is mapped to its position here
    ids: Rc<Vec<u32>>,
}

thread_local! {
    static CURRENT_IDS: RefCell<Rc<Vec<u32>>> = RefCell::new(Rc::new((0..N_TERMS as u32).map(|i| BASE + i).collect()));
}

fn slot(ids: &[u32], id: u32) -> usize {
    ids.iter().position(|x| *x == id).expect("term id of the test ontology")
}

impl Table {
    fn new() -> Table {
        Table { grid: [[f32::NAN; N_TERMS]; N_TERMS], calls: Rc::new(RefCell::new(vec![])), owners: Rc::new(RefCell::new(vec![])), ids: CURRENT_IDS.with(|c| c.borrow().clone()) }
    }
}

impl Similarity for Table {
    fn calculate(&self, a: &HpoTerm, b: &HpoTerm) -> f32 {
        use hpo::annotations::AnnotationId;
        let (x, y) = (a.id().as_u32(), b.id().as_u32());
        self.calls.borrow_mut().push((x, y));
        self.owners.borrow_mut().push((a.name().starts_with("twin"), b.name().starts_with("twin")));
        self.grid[slot(&self.ids, x)][slot(&self.ids, y)]
    }
}

const COMBINERS: [StandardCombiner; 3] = [StandardCombiner::FunSimAvg, StandardCombiner::FunSimMax, StandardCombiner::Bma];

/// documented combination, in f64
fn reference(comb: StandardCombiner, m: &[Vec<f32>], r: usize, c: usize) -> f64 {
    if r == 0 || c == 0 {
        return 0.0;
    }
    let row_max: Vec<f64> = (0..r).map(|i| (0..c).map(|j| m[i][j] as f64).fold(f64::NEG_INFINITY, f64::max)).collect();
    let col_max: Vec<f64> = (0..c).map(|j| (0..r).map(|i| m[i][j] as f64).fold(f64::NEG_INFINITY, f64::max)).collect();
    let (sr, sc): (f64, f64) = (row_max.iter().sum(), col_max.iter().sum());
    match comb {
        StandardCombiner::FunSimAvg => (sr / r as f64 + sc / c as f64) / 2.0,
        StandardCombiner::FunSimMax => (sr / r as f64).max(sc / c as f64),
        StandardCombiner::Bma => (sr + sc) / (r + c) as f64,
    }
}

fn close(x: f32, want: f64) -> bool {
    if want.is_infinite() {
        // infinite similarities are legal values of a user-supplied function, but the statement does not say what
        // the combination of non-finite entries is: the IEEE value of the documented formula, or NaN (a running or
        // compensated mean meets inf - inf as soon as two maxima are infinite). A finite result is wrong in any reading
        return x as f64 == want || x.is_nan();
    }
    x.is_finite() && (x as f64 - want).abs() <= 1e-6 + 1e-6 * want.abs()
}

/// `close` with the absolute part scaled to the matrix: the combinations are homogeneous of degree one (a matrix
/// scaled by s gives every intermediate, and so every rounding error, scaled by s), so the absolute slack that
/// is right for entries of order 1 is 1e-6 * s for entries of order s. `scale` = largest finite |entry|; above 1
/// the band of `close` is kept. An all-zero matrix demands exactly 0.
fn close_scaled(x: f32, want: f64, scale: f64) -> bool {
    if want.is_infinite() {
        return close(x, want);
    }
    x.is_finite() && (x as f64 - want).abs() <= 1e-6 * scale.min(1.0) + 1e-6 * want.abs()
}

fn set<'a>(ont: &'a Ontology, ids: &[u32]) -> HpoSet<'a> {
    let mut g = HpoGroup::new();
    for i in ids {
        g.insert(*i);
    }
    HpoSet::new(ont, g)
}

type V = Option<(String, String, String)>;

thread_local! {
    /// evidence only: comparisons with the second set on a twin instance in which the user function was handed a
    /// term of the first instance as its second argument (the statement fixes the value, not whose handle is passed)
    static TWIN_TERM_FROM_OTHER_INSTANCE: std::cell::Cell<u64> = std::cell::Cell::new(0);
}

// (check_matrix below: all checks for one matrix under one id assignment)
thread_local! {
    /// a second Ontology instance with the same content as the one in use (built from the same facts)
    static TWIN: RefCell<Option<Rc<Ontology>>> = RefCell::new(None);
    /// comparisons with the second set on the CURRENT twin instance: (answered, refused by a panic). A library may
    /// refuse sets of two instances, but then it refuses all of them: both counts non-zero is a violation
    static TWIN_VERDICTS: std::cell::Cell<(u64, u64)> = std::cell::Cell::new((0, 0));
    /// refused comparisons over all twins of this process (evidence, surfaced by the supervisor)
    static TWIN_REFUSED: std::cell::Cell<u64> = std::cell::Cell::new(0);
}

fn set_twin(t: Option<Rc<Ontology>>) {
    TWIN.with(|x| *x.borrow_mut() = t);
    TWIN_VERDICTS.with(|c| c.set((0, 0)));
}

fn check_matrix(ont: &Ontology, m: &[Vec<f32>], r: usize, c: usize, a_ids: &[u32], b_ids: &[u32], what: &str) -> V {
    let v = |site: &str, sig: &str, det: String| Some((site.to_string(), sig.to_string(), format!("{what}: {det}")));
    let twin: Option<Rc<Ontology>> = TWIN.with(|t| t.borrow().clone());
    let mut table = Table::new();
    for i in 0..r {
        for j in 0..c {
            table.grid[slot(&table.ids, a_ids[i])][slot(&table.ids, b_ids[j])] = m[i][j];
        }
    }
    let a = set(ont, a_ids);
    let b = set(ont, b_ids);
    // every case starts with a larger, unrelated comparison on the same thread (all scores 0.95): a
    // comparison must not depend on what was compared before (no state may leak between calls)
    {
        let ids = table.ids.clone();
        let mut warm = Table::new();
        for x in 0..N_TERMS {
            for y in 0..N_TERMS {
                warm.grid[x][y] = 0.95;
            }
        }
        let wa = set(ont, &ids[..4]);
        let wb = set(ont, &ids[4..]);
        let w = GroupSimilarity::new(StandardCombiner::FunSimAvg, warm).calculate(&wa, &wb);
        if !close(w, 0.95) {
            return v("GroupSimilarity::calculate", "result is not the documented combination of the pairwise matrix", format!("4x4 matrix of 0.95: {w}"));
        }
    }
    let data: Vec<f32> = (0..r).flat_map(|i| (0..c).map(move |j| (i, j))).map(|(i, j)| m[i][j]).collect();
    let scale = data.iter().filter(|x| x.is_finite()).fold(0f64, |acc, x| acc.max(x.abs() as f64));
    // "0 if either set is empty" is a fixed value, not a computed one: exactly 0
    let close = |x: f32, want: f64| if r == 0 || c == 0 { x == 0.0 } else { close_scaled(x, want, scale) };
    for comb in COMBINERS {
        let want = reference(comb, m, r, c);
        // 1. HpoSet::similarity
        table.calls.borrow_mut().clear();
        let s1 = a.similarity(&b, table.clone(), comb);
        let calls: Vec<(u32, u32)> = table.calls.borrow().clone();
        if !close(s1, want) {
            return v("HpoSet::similarity", "result is not the documented combination of the pairwise matrix", format!("{comb:?} matrix {m:?}: observed {s1} expected {want}"));
        }
        // the user function is asked for every pair (a in A, b in B), in that argument order: an arbitrary function
        // cannot be combined without asking. How often a pair is evaluated, and whether further questions are asked
        // (a symmetry probe, the diagonal), is not fixed by the property - every undefined entry of the table is
        // NaN, so a wrong pair that is USED shows in the value
        let want_calls: std::collections::BTreeSet<(u32, u32)> = a_ids.iter().flat_map(|x| b_ids.iter().map(move |y| (*x, *y))).collect();
        let got_calls: std::collections::BTreeSet<(u32, u32)> = calls.iter().copied().collect();
        if !want_calls.is_subset(&got_calls) {
            return v("GroupSimilarity::calculate", "term similarity is not evaluated for every pair (a in A, b in B) in that argument order", format!("calls {calls:?}"));
        }
        // 2. GroupSimilarity::calculate: the same documented value (each entry point's value is fixed, not that the
        // two share one order of evaluation - they are compared up to rounding, not bit for bit)
        let s2 = GroupSimilarity::new(comb, table.clone()).calculate(&a, &b);
        if !close(s2, want) {
            return v("GroupSimilarity::calculate", "result is not the documented combination of the pairwise matrix", format!("{comb:?} matrix {m:?}: observed {s2} expected {want}"));
        }
        // 1b. the second set living on another Ontology instance with the same content (another release of the same terms: same ids, other names): the combination is defined on the terms, not on the instance
        // (an implementation that refuses sets of two instances by panicking is tolerated; a silently different value is not)
        if let Some(tw) = twin.as_ref() {
            let b2 = set(tw, b_ids);
            table.owners.borrow_mut().clear();
            let answered = crate::ctx::guard(|| a.similarity(&b2, table.clone(), comb));
            let (n_ok, n_refused) = TWIN_VERDICTS.with(|c| {
                let (x, y) = c.get();
                let now = if answered.is_ok() { (x + 1, y) } else { (x, y + 1) };
                c.set(now);
                now
            });
            if answered.is_err() {
                TWIN_REFUSED.with(|c| c.set(c.get() + 1));
            }
            if n_ok > 0 && n_refused > 0 {
                return v("HpoSet::similarity", "a second set on another Ontology instance with the same content is answered for some pairs of sets and refused (panic) for others", format!("{comb:?} matrix {m:?}: this comparison {}; so far {n_ok} answered, {n_refused} refused on this pair of instances", if answered.is_ok() { "is answered" } else { "panics" }));
            }
            if let Ok(s1b) = answered {
                // whose handle the user function receives for a term of the second set (the twin's, or the term of that id
                // re-resolved in the first instance) is not fixed by the statement - every id-keyed similarity gives the
                // same matrix either way; it is counted as evidence, the value carries the demand
                if table.owners.borrow().iter().any(|o| *o != (false, true)) {
                    TWIN_TERM_FROM_OTHER_INSTANCE.with(|c| c.set(c.get() + 1));
                }
                if s1b.to_bits() != s1.to_bits() {
                    return v("HpoSet::similarity", "result differs when the second set belongs to another Ontology instance with the same content", format!("{comb:?} matrix {m:?}: {s1b} vs {s1}"));
                }
                // (the first entry point answered: a panic of the second one is no refusal of two instances)
                let s2b = GroupSimilarity::new(comb, table.clone()).calculate(&a, &b2);
                if s2b.to_bits() != s2.to_bits() {
                    return v("GroupSimilarity::calculate", "result differs when the second set belongs to another Ontology instance with the same content", format!("{comb:?} matrix {m:?}: {s2b} vs {s2}"));
                }
            }
        }
        // 3. SimilarityCombiner::calculate on the Matrix
        let s3 = comb.calculate(&Matrix::new(r, c, &data));
        if !close(s3, want) {
            return v("SimilarityCombiner::calculate", "result is not the documented combination of the matrix", format!("{comb:?} matrix {m:?}: observed {s3} expected {want}"));
        }
        // 4. caching adaptor never changes a result, also when one cache serves (A,B), (B,A), (A,B)
        let mut full = table.clone();
        // make the table total and asymmetric where the matrix did not define it: T(y,x) := transposed-and-shifted values
        for i in 0..r {
            for j in 0..c {
                let (x, y) = (slot(&table.ids, a_ids[i]), slot(&table.ids, b_ids[j]));
                if full.grid[y][x].is_nan() {
                    full.grid[y][x] = m[(i + 1) % r][(j + 1) % c] * 0.5 + 0.125;
                }
            }
        }
        let plain_ab = GroupSimilarity::new(comb, full.clone()).calculate(&a, &b);
        let plain_ba = GroupSimilarity::new(comb, full.clone()).calculate(&b, &a);
        let cached = GroupSimilarity::new(comb, CachedSimilarity::new(full.clone()));
        let c1 = cached.calculate(&a, &b);
        let c2 = cached.calculate(&b, &a);
        let c3 = cached.calculate(&a, &b);
        if c1.to_bits() != plain_ab.to_bits() || c3.to_bits() != plain_ab.to_bits() {
            return v("CachedSimilarity", "caching adaptor changes the result", format!("{comb:?} matrix {m:?}: (A,B) plain {plain_ab}, cached first {c1}, cached again {c3}"));
        }
        if c2.to_bits() != plain_ba.to_bits() {
            return v("CachedSimilarity", "caching adaptor changes the result when the arguments are swapped on a warm cache", format!("{comb:?} matrix {m:?}: (B,A) plain {plain_ba}, cached {c2}"));
        }
        // (the completed table agrees with the original one on every pair (a in A, b in B), so the plain result of
        // the same entry point is s1)
        let s_cached = a.similarity(&b, CachedSimilarity::new(full.clone()), comb);
        if s_cached.to_bits() != s1.to_bits() && !(s_cached.is_nan() && s1.is_nan()) {
            return v("CachedSimilarity", "caching adaptor changes the result", format!("{comb:?} matrix {m:?}: HpoSet::similarity plain {s1} cached {s_cached}"));
        }
        // 4b. the documented use of the adaptor: ONE cache, one set against SEVERAL partner sets. C = B with its
        // last member replaced by a term that occurs in neither set (same size, all keys but one column shared,
        // T(a, new) != T(a, replaced)) - or, when the two sets use all eight terms, B without its last member -
        // then B again.
        // (the cache does not depend on the combiner: one of the three per matrix, in rotation)
        if c > 0 && r > 0 && comb == COMBINERS[(r + 2 * c + data.iter().filter(|x| **x == data[0]).count()) % 3] {
            let mut partners: Vec<(Vec<u32>, &str)> = vec![];
            if let Some(fresh) = table.ids.iter().rev().copied().find(|x| !a_ids.contains(x) && !b_ids.contains(x)) {
                let u = slot(&table.ids, fresh);
                for i in 0..r {
                    let x = slot(&table.ids, a_ids[i]);
                    // a value the replaced column does not hold in this row
                    full.grid[x][u] = if m[i][c - 1] == 0.75 { 0.375 } else { 0.75 };
                    full.grid[u][x] = 0.0625;
                }
                let mut cset: Vec<u32> = b_ids[..c - 1].to_vec();
                cset.push(fresh);
                cset.sort_unstable();
                partners.push((cset, "B with its last member replaced by another term"));
            } else {
                partners.push((b_ids[..c - 1].to_vec(), "B without its last member"));
            }
            partners.push((b_ids.to_vec(), "B again"));
            let cached = GroupSimilarity::new(comb, CachedSimilarity::new(full.clone()));
            let first = cached.calculate(&a, &b);
            if first.to_bits() != plain_ab.to_bits() {
                return v("CachedSimilarity", "caching adaptor changes the result", format!("{comb:?} matrix {m:?}: (A,B) plain {plain_ab}, cached {first}"));
            }
            for (p_ids, pname) in &partners {
                let pset = set(ont, p_ids);
                let plain = GroupSimilarity::new(comb, full.clone()).calculate(&a, &pset);
                let got = cached.calculate(&a, &pset);
                if got.to_bits() != plain.to_bits() && !(got.is_nan() && plain.is_nan()) {
                    return v("CachedSimilarity", "caching adaptor changes the result when one cache serves several partner sets", format!("{comb:?} matrix {m:?}: after (A,B) on the same cache, (A, {pname} = {p_ids:?}): plain {plain}, cached {got}"));
                }
            }
        }
        // 5. symmetric term similarity => argument order does not matter (only meaningful if A and B do not overlap in a conflicting way)
        let mut sym = Table::new();
        let mut conflict = false;
        for i in 0..r {
            for j in 0..c {
                let (x, y) = (slot(&table.ids, a_ids[i]), slot(&table.ids, b_ids[j]));
                for (p, q) in [(x, y), (y, x)] {
                    if !sym.grid[p][q].is_nan() && sym.grid[p][q] != m[i][j] {
                        conflict = true;
                    }
                    sym.grid[p][q] = m[i][j];
                }
            }
        }
        if !conflict && r > 0 && c > 0 {
            let ab = a.similarity(&b, sym.clone(), comb);
            let ba = b.similarity(&a, sym.clone(), comb);
            // (relative to the entries like every value; non-finite only with non-finite - then `close` above has
            // accepted the IEEE value or NaN for either order)
            let ok = ab == ba || (!ab.is_finite() && !ba.is_finite()) || (ab.is_finite() && ba.is_finite() && ((ab - ba).abs() as f64) <= 1e-6 * scale.min(1.0) + 1e-6 * (ab.abs().max(ba.abs()) as f64));
            if !ok {
                return v("HpoSet::similarity", "depends on argument order although the term similarity is symmetric", format!("{comb:?} matrix {m:?}: (A,B) {ab} (B,A) {ba}"));
            }
        }
    }
    None
}

fn nontrivial(m: &[Vec<f32>], r: usize, c: usize) -> bool {
    // transposing or swapping rows/columns changes some combiner's score: not all entries equal, and r,c >= 1
    if r == 0 || c == 0 {
        return false;
    }
    let first = m[0][0];
    (0..r).any(|i| (0..c).any(|j| m[i][j] != first))
}

pub fn run(ctx: &mut Ctx) {
    let thorough = ctx.tier.thorough();
    ctx.rule = "case = block of consecutive r x c matrices (row-major base-|alphabet| counting) over the alphabet; each matrix is checked under three id assignments (A below B, interleaved, A above B; square matrices additionally A = B) x 3 combiners x {HpoSet::similarity, GroupSimilarity, SimilarityCombiner on Matrix, cached, cache reused for (A,B),(B,A),(A,B) and (one combiner per matrix) for A against B, a second partner set and B again, symmetric table}; distinct by construction; non-trivial = not all entries equal".into();
    ctx.assumptions = vec![
        "entries are dyadic rationals so the reference is exact up to the final division; results compared with 1e-6 relative plus 1e-6 x min(1, largest |entry|) absolute (the combinations are homogeneous, so the slack scales with the entries); matrices/magnitudes: relative only, down to subnormal entries; an empty set demands exactly 0".into(),
        "a second set on a twin instance: a panic is tolerated only as an all-or-nothing refusal (counted); a pair of instances on which some comparisons are answered and others panic is a violation".into(),
        "negative similarities are legal values of a user-supplied term similarity".into(),
        "the entry points are compared with the documented value up to rounding, not with each other bit for bit; bit-identity is demanded only between a plain and a cached evaluation through the same entry point".into(),
        "the user function must be asked for every pair (a in A, b in B); further questions and repeated questions are not excluded".into(),
        "non-finite entries: the statement is silent - the IEEE value of the formula or NaN is accepted, a finite result is not".into(),
        "which names StandardCombiner::try_from accepts beyond the three lower-case ones is not stated (counted as evidence)".into(),
        "two sets that live on two Ontology instances with the same content are an ordinary pair of term sets (the API accepts them and compares terms by id)".into(),
        "sizes: the crate documents a panic ('Matrix too large') above 65 535 rows or columns; sets stay at or below that".into(),
    ];
    let ids: Vec<u32> = (0..N_TERMS as u32).map(|i| BASE + i).collect();
    let mut f = Facts::default();
    f.terms.push(Facts::term(1, "root"));
    for i in &ids {
        f.terms.push(Facts::term(*i, &format!("T{i}")));
        f.edges.push((*i, 1));
    }
    let ont = drive::build(&f, Mode::Minimal).expect("flat ontology must build");
    let twin_of = |f: &Facts| -> Facts {
        let mut g = f.clone();
        for t in g.terms.iter_mut() {
            t.name = format!("twin {}", t.name);
        }
        g
    };
    set_twin(Some(Rc::new(drive::build(&twin_of(&f), Mode::Minimal).expect("flat ontology must build"))));

    let alpha4: [f32; 4] = [0.0, 0.25, 1.0, -0.5];
    let alpha3: [f32; 3] = [0.0, 0.25, 1.0];
    let alpha2: [f32; 2] = [0.25, 1.0];
    let max_dim = if thorough { 4 } else { 3 };
    for r in 0..=max_dim {
        for c in 0..=max_dim {
            let cells = r * c;
            let alphabet: &[f32] = if cells <= 9 { &alpha4 } else if cells <= 12 { &alpha3 } else { &alpha2 };
            let total: u64 = (alphabet.len() as u64).pow(cells as u32);
            let block: u64 = 512;
            ctx.space(&format!("matrices/{r}x{c}"), &format!("all {total} matrices of shape {r}x{c} over {alphabet:?}"));
            let mut start = 0u64;
            while start < total {
                let end = (start + block).min(total);
                if !ctx.take() {
                    start = end;
                    continue;
                }
                for idx in start..end {
                    ctx.state();
                    let mut k = idx;
                    let mut m = vec![vec![0f32; c]; r];
                    for i in 0..r {
                        for j in 0..c {
                            m[i][j] = alphabet[(k % alphabet.len() as u64) as usize];
                            k /= alphabet.len() as u64;
                        }
                    }
                    if nontrivial(&m, r, c) {
                        ctx.nontrivial();
                    }
                    // id assignments (all ascending lists)
                    let lo: Vec<u32> = ids[..r].to_vec();
                    let hi: Vec<u32> = ids[4..4 + c].to_vec();
                    let even: Vec<u32> = (0..r).map(|i| ids[2 * i]).collect();
                    let odd: Vec<u32> = (0..c).map(|j| ids[2 * j + 1]).collect();
                    let mut assignments: Vec<(Vec<u32>, Vec<u32>, &str)> = vec![(lo.clone(), hi.clone(), "A below B"), (even, odd, "interleaved ids"), (ids[4..4 + r].to_vec(), ids[..c].to_vec(), "A above B")];
                    if r == c && r > 0 {
                        assignments.push((lo.clone(), lo.clone(), "A = B"));
                        // partial overlap
                        if r >= 2 {
                            assignments.push((ids[..r].to_vec(), ids[r - 1..r - 1 + c].to_vec(), "A and B share one term"));
                        }
                    }
                    for (a_ids, b_ids, what) in assignments {
                        ctx.exec();
                        ctx.validated();
                        ctx.transitions((3 * 9) as u64);
                        match guard(|| check_matrix(&ont, &m, r, c, &a_ids, &b_ids, what)) {
                            Ok(None) => {}
                            Ok(Some((site, sig, det))) => ctx.violation(&site, &sig, json!({"rows": r, "cols": c, "matrix": m, "A": a_ids, "B": b_ids, "difference": det})),
                            Err(p) => ctx.violation("HpoSet::similarity", "panics", json!({"rows": r, "cols": c, "matrix": m, "A": a_ids, "B": b_ids, "observed": p})),
                        }
                    }
                    if idx == start {
                        ctx.sample(|| json!({"shape": [r, c], "first_matrix_of_block": m, "block": [start, end]}));
                    }
                    ctx.outcome(crate::ctx::fnv_str(&format!("{:?}", reference(StandardCombiner::FunSimAvg, &m, r, c).to_bits())) % 65536);
                }
                start = end;
            }
        }
    }

    // ---- infinite scores (1/distance of identical terms, ln of a zero similarity): all matrices up to 2x2 over
    // {1/4, 1, +inf} and over {1/4, -1/2, -inf} (the two signs are not mixed: inf - inf has no value)
    // ... and scores above 1 (a user-supplied similarity is not bounded by 1: counts, log-odds, information
    // content): all matrices up to 3x3 over {1/2, 1, 2} - a scan for a maximum may not stop at the first 1
    // ... and values with a full mantissa (1/3, 0.7, 0.95): everything else here is dyadic with <= 13 significant
    // bits, which a matrix stored in half precision or maxima accumulated in fixed point would carry unharmed
    for (tag, alphabet) in [("plus-infinity", [0.25f32, 1.0, f32::INFINITY]), ("minus-infinity", [0.25f32, -0.5, f32::NEG_INFINITY]), ("above-one", [1.0f32, 2.0, 0.5]), ("non-dyadic", [1.0f32 / 3.0, 0.7, 0.95])] {
        let max_shape = if tag == "above-one" || tag == "non-dyadic" { 3usize } else { 2 };
        for r in 1..=max_shape {
            for c in 1..=max_shape {
                let cells = r * c;
                let total: u64 = 3u64.pow(cells as u32);
                ctx.space(&format!("matrices/{tag}/{r}x{c}"), &format!("all {total} matrices of shape {r}x{c} over {alphabet:?}; id assignments as above"));
                // (case = block of 1024 consecutive matrices)
                for start in (0..total).step_by(1024) {
                    if !ctx.take() {
                        continue;
                    }
                    for idx in start..(start + 1024).min(total) {
                        ctx.state();
                        let mut k = idx;
                        let mut m = vec![vec![0f32; c]; r];
                        for i in 0..r {
                            for j in 0..c {
                                m[i][j] = alphabet[(k % 3) as usize];
                                k /= 3;
                            }
                        }
                        if tag == "non-dyadic" || m.iter().flatten().any(|v| v.is_infinite() || *v > 1.0) {
                            ctx.nontrivial();
                        }
                        let lo: Vec<u32> = ids[..r].to_vec();
                        let hi: Vec<u32> = ids[4..4 + c].to_vec();
                        for (a_ids, b_ids, what) in [(lo.clone(), hi.clone(), "scores beyond [0, 1]: A below B"), (ids[4..4 + r].to_vec(), ids[..c].to_vec(), "scores beyond [0, 1]: A above B")] {
                            ctx.exec();
                            ctx.validated();
                            ctx.transitions(27);
                            match guard(|| check_matrix(&ont, &m, r, c, &a_ids, &b_ids, what)) {
                                Ok(None) => {}
                                Ok(Some((site, sig, det))) => ctx.violation(&site, &sig, json!({"rows": r, "cols": c, "matrix": format!("{m:?}"), "A": a_ids, "B": b_ids, "difference": det})),
                                Err(p) => ctx.violation("HpoSet::similarity", "panics", json!({"rows": r, "cols": c, "matrix": format!("{m:?}"), "A": a_ids, "B": b_ids, "observed": p})),
                            }
                        }
                    }
                    ctx.sample(|| json!({"shape": [r, c], "alphabet": format!("{alphabet:?}"), "matrices": total, "block_start": start}));
                }
            }
        }
    }

    // ---- the same sweep on term ids that collide under plausible key-packing schemes of a cache
    // (a*10^6+b, a<<16|b, a<<20|b): (2,3000005)~(5,5), (2,70000)~(3,4464), (2,1100000)~(3,51424)
    let ids2: Vec<u32> = vec![2, 3, 5, 4464, 51_424, 70_000, 1_100_000, 3_000_005];
    let mut f2 = Facts::default();
    f2.terms.push(Facts::term(1, "root"));
    for i in &ids2 {
        f2.terms.push(Facts::term(*i, &format!("T{i}")));
        f2.edges.push((*i, 1));
    }
    let ont2 = drive::build(&f2, Mode::Minimal).expect("flat ontology must build");
    set_twin(Some(Rc::new(drive::build(&twin_of(&f2), Mode::Minimal).expect("flat ontology must build"))));
    CURRENT_IDS.with(|c| *c.borrow_mut() = Rc::new(ids2.clone()));
    let b_choices: [[u32; 3]; 4] = [[5, 3_000_005, 70_000], [4464, 70_000, 3_000_005], [51_424, 1_100_000, 3_000_005], [5, 4464, 51_424]];
    for r in 1..=3usize {
        for c in 1..=3usize {
            let cells = r * c;
            let total: u64 = 4u64.pow(cells as u32);
            ctx.space(&format!("matrices/collision-prone-ids/{r}x{c}"), &format!("all {total} matrices of shape {r}x{c} over {alpha4:?} with A = first {r} of [2,3,5] and B = first {c} ids of four choices from {{5, 4464, 51424, 70000, 1100000, 3000005}}"));
            let block: u64 = 512;
            let mut start = 0u64;
            while start < total {
                let end = (start + block).min(total);
                if !ctx.take() {
                    start = end;
                    continue;
                }
                for idx in start..end {
                    ctx.state();
                    let mut k = idx;
                    let mut m = vec![vec![0f32; c]; r];
                    for i in 0..r {
                        for j in 0..c {
                            m[i][j] = alpha4[(k % 4) as usize];
                            k /= 4;
                        }
                    }
                    if nontrivial(&m, r, c) {
                        ctx.nontrivial();
                    }
                    for bc in &b_choices {
                        let a_ids: Vec<u32> = ids2[..r].to_vec();
                        let mut b_ids: Vec<u32> = bc[..c].to_vec();
                        b_ids.sort_unstable();
                        ctx.exec();
                        ctx.validated();
                        ctx.transitions(27);
                        match guard(|| check_matrix(&ont2, &m, r, c, &a_ids, &b_ids, "collision-prone ids")) {
                            Ok(None) => {}
                            Ok(Some((site, sig, det))) => ctx.violation(&site, &sig, json!({"rows": r, "cols": c, "matrix": m, "A": a_ids, "B": b_ids, "difference": det})),
                            Err(p) => ctx.violation("HpoSet::similarity", "panics", json!({"rows": r, "cols": c, "matrix": m, "A": a_ids, "B": b_ids, "observed": p})),
                        }
                    }
                    if idx == start {
                        ctx.sample(|| json!({"shape": [r, c], "first_matrix_of_block": m, "A": &ids2[..r], "B_choices": b_choices}));
                    }
                }
                start = end;
            }
        }
    }
    // ---- sets that contain terms flagged obsolete and / or replaced (only a decoded ontology can carry the
    // flags): the combination is defined on the members of the two sets as given - nothing is dropped
    'flagged: {
        CURRENT_IDS.with(|c| *c.borrow_mut() = Rc::new(ids.clone()));
        let mut f3 = Facts::default();
        f3.version = (2024, 2, 29);
        f3.terms.push(Facts::term(1, "All"));
        f3.terms.push(Facts::term(118, "Phenotypic abnormality"));
        f3.edges.push((118, 1));
        for (k, i) in ids.iter().enumerate() {
            let mut t = Facts::term(*i, &format!("T{i}"));
            // terms 0, 1 and 5 of the eight are obsolete; 1 and 2 are replaced
            t.obsolete = k == 0 || k == 1 || k == 5;
            if k == 1 || k == 2 {
                t.replacement = Some(ids[3]);
            }
            f3.terms.push(t);
            f3.edges.push((*i, 118));
        }
        let bytes = crate::encode::encode(&f3, &crate::encode::EncOpts::v(3));
        let ont3 = match drive::from_bytes(&bytes) {
            Ok(Ok(o)) => o,
            other => {
                ctx.space("matrices/flagged-terms", "decoded ontology with obsolete / replaced terms");
                ctx.violation("Ontology::from_bytes", "cannot decode a file laid out as documented", json!({"facts": f3.to_json(), "observed": format!("{:?}", other.map(|r| r.map(|_| ())))}));
                // only this block needs the decoded ontology: the spaces after it are declared and run
                ctx.bump("skipped: matrices/flagged-terms (the v3 file with flagged terms is not decoded)", 1);
                set_twin(None);
                break 'flagged;
            }
        };
        // the twin is the same file with other names: as valid as the first one
        let twin3 = drive::from_bytes(&crate::encode::encode(&twin_of(&f3), &crate::encode::EncOpts::v(3))).ok().and_then(|r| r.ok()).map(Rc::new);
        if twin3.is_none() {
            ctx.space("matrices/flagged-terms", "decoded ontology with obsolete / replaced terms");
            ctx.violation("Ontology::from_bytes", "cannot decode a file laid out as documented", json!({"facts": twin_of(&f3).to_json(), "role": "second instance with the same content (other names)"}));
            ctx.bump("skipped: twin-instance comparisons of matrices/flagged-terms (twin file not decoded)", 1);
        }
        set_twin(twin3);
        let max3 = if thorough { 3 } else { 2 };
        for r in 0..=max3 {
            for c in 0..=max3 {
                let cells = r * c;
                let alphabet: &[f32] = if cells <= 4 { &alpha4 } else { &alpha3 };
                let total: u64 = (alphabet.len() as u64).pow(cells as u32);
                ctx.space(&format!("matrices/flagged-terms/{r}x{c}"), &format!("all {total} matrices of shape {r}x{c} over {alphabet:?} on a decoded (v3) ontology in which T10, T11, T15 are obsolete and T11, T12 replaced; id assignments as above, so sets are all-obsolete, mixed, or unflagged"));
                let block: u64 = 256;
                let mut start = 0u64;
                while start < total {
                    let end = (start + block).min(total);
                    if !ctx.take() {
                        start = end;
                        continue;
                    }
                    for idx in start..end {
                        ctx.state();
                        let mut k = idx;
                        let mut m = vec![vec![0f32; c]; r];
                        for i in 0..r {
                            for j in 0..c {
                                m[i][j] = alphabet[(k % alphabet.len() as u64) as usize];
                                k /= alphabet.len() as u64;
                            }
                        }
                        if nontrivial(&m, r, c) {
                            ctx.nontrivial();
                        }
                        let lo: Vec<u32> = ids[..r].to_vec();
                        let hi: Vec<u32> = ids[4..4 + c].to_vec();
                        let even: Vec<u32> = (0..r).map(|i| ids[2 * i]).collect();
                        let odd: Vec<u32> = (0..c).map(|j| ids[2 * j + 1]).collect();
                        let mut assignments: Vec<(Vec<u32>, Vec<u32>, &str)> = vec![(lo.clone(), hi.clone(), "flagged terms: A below B"), (even, odd, "flagged terms: interleaved ids"), (ids[4..4 + r].to_vec(), ids[..c].to_vec(), "flagged terms: A above B")];
                        if r == c && r > 0 {
                            assignments.push((lo.clone(), lo.clone(), "flagged terms: A = B"));
                        }
                        for (a_ids, b_ids, what) in assignments {
                            ctx.exec();
                            ctx.validated();
                            ctx.transitions(27);
                            match guard(|| check_matrix(&ont3, &m, r, c, &a_ids, &b_ids, what)) {
                                Ok(None) => {}
                                Ok(Some((site, sig, det))) => ctx.violation(&site, &sig, json!({"rows": r, "cols": c, "matrix": m, "A": a_ids, "B": b_ids, "obsolete": [ids[0], ids[1], ids[5]], "difference": det})),
                                Err(p) => ctx.violation("HpoSet::similarity", "panics", json!({"rows": r, "cols": c, "matrix": m, "A": a_ids, "B": b_ids, "observed": p})),
                            }
                        }
                        if idx == start {
                            ctx.sample(|| json!({"shape": [r, c], "first_matrix_of_block": m, "obsolete": [ids[0], ids[1], ids[5]]}));
                        }
                    }
                    start = end;
                }
            }
        }
    }
    // ---- combiner selection by name
    {
        ctx.space("names/StandardCombiner::try_from", "the three names funsimavg, funsimmax, bma in lower case: the named combiner (value on a 1x2 and a 2x1 matrix that separates the three); the default is funSimAvg; other spellings (UPPER, Mixed) and 6 other strings are only counted as evidence - which further names are accepted is stated nowhere");
        if ctx.take() {
            ctx.state();
            ctx.exec();
            ctx.validated();
            let (mut other_spelling_refused, mut other_name_accepted) = (0u64, 0u64);
            let res = guard(|| -> V {
                let data = [0.25f32, 1.0];
                for (name, comb) in [("funsimavg", StandardCombiner::FunSimAvg), ("funsimmax", StandardCombiner::FunSimMax), ("bma", StandardCombiner::Bma)] {
                    let mixed: String = name.chars().enumerate().map(|(i, c)| if i % 2 == 0 { c.to_ascii_uppercase() } else { c }).collect();
                    for spelled in [name.to_string(), name.to_uppercase(), mixed] {
                        let Ok(got) = StandardCombiner::try_from(spelled.as_str()) else {
                            if spelled == name {
                                return Some(("StandardCombiner::try_from".into(), "refuses the name of a combiner".into(), format!("{spelled:?}")));
                            }
                            // whether the parser ignores case is not stated
                            other_spelling_refused += 1;
                            continue;
                        };
                        for (r, c) in [(1usize, 2usize), (2, 1)] {
                            let (x, y) = (got.calculate(&Matrix::new(r, c, &data)), comb.calculate(&Matrix::new(r, c, &data)));
                            if x.to_bits() != y.to_bits() {
                                return Some(("StandardCombiner::try_from".into(), "the name selects another combiner".into(), format!("{spelled:?} on a {r}x{c} matrix [1/4, 1]: {x} vs {y}")));
                            }
                        }
                    }
                }
                // aliases ("max", "average"), trimmed input and the like are a maintainer's choice
                for other in ["", "funsim", "funsimavg ", "max", "bma2", "average"] {
                    if StandardCombiner::try_from(other).is_ok() {
                        other_name_accepted += 1;
                    }
                }
                let d = StandardCombiner::default().calculate(&Matrix::new(1, 2, &data));
                if d.to_bits() != StandardCombiner::FunSimAvg.calculate(&Matrix::new(1, 2, &data)).to_bits() {
                    return Some(("StandardCombiner::default".into(), "the default is not funSimAvg".into(), format!("{d}")));
                }
                None
            });
            match res {
                Ok(None) => {}
                Ok(Some((site, sig, det))) => ctx.violation(&site, &sig, json!({"difference": det})),
                Err(p) => ctx.violation("StandardCombiner::try_from", "panics", json!({"observed": p})),
            }
            ctx.bump("try_from_other_spelling_refused", other_spelling_refused);
            ctx.bump("try_from_other_name_accepted", other_name_accepted);
        }
    }
    // ---- medium sizes (between the exhaustive 4x4 and the size border) with informative values, a cache that
    // has to hold thousands of pairs, and a user-supplied combiner that sees the matrix itself
    {
        let dims: Vec<(usize, usize)> = vec![(4, 5), (5, 9), (7, 8), (8, 8), (9, 16), (15, 17), (16, 33), (31, 32), (33, 17), (64, 65), (100, 100), (65, 3), (3, 65)];
        ctx.space("matrices/medium-sizes", &format!("shapes {dims:?} on a flat ontology with 210 terms: value 2^-(1 + (5i + 3j) mod 13) and a permutation-peak variant (one 1.0 per row); 3 combiners through HpoSet::similarity / GroupSimilarity / the Matrix, cached == plain for (A,B), (B,A), (A,B) on ONE cache, and one cache serving A against four partner sets (B, B shifted by one id, B without its first member, B again), and a user combiner must receive the |A| x |B| matrix of exactly these values through rows() and, transposed, through cols()"));
        let mut med: Option<Ontology> = None;
        #[derive(Clone)]
        struct Grid {
            base: u32,
            cols_base: u32,
            peak: bool,
            rows: usize,
            cols: usize,
        }
        impl Grid {
            fn at(&self, i: usize, j: usize) -> f32 {
                if self.peak {
                    if j == (i * 7 + 3) % self.cols {
                        1.0
                    } else {
                        0.03125 * (1 + (i + 2 * j) % 5) as f32
                    }
                } else {
                    1.0 / (1u32 << (1 + (5 * i + 3 * j) % 13)) as f32
                }
            }
        }
        impl Similarity for Grid {
            fn calculate(&self, a: &HpoTerm, b: &HpoTerm) -> f32 {
                use hpo::annotations::AnnotationId;
                let (x, y) = (a.id().as_u32(), b.id().as_u32());
                // rows are the ids base.., columns the ids cols_base..; the transposed question (B, A) is answered
                // with a different, asymmetric value
                if x >= self.base && x < self.base + self.rows as u32 && y >= self.cols_base && y < self.cols_base + self.cols as u32 {
                    self.at((x - self.base) as usize, (y - self.cols_base) as usize)
                } else if y >= self.base && y < self.base + self.rows as u32 && x >= self.cols_base && x < self.cols_base + self.cols as u32 {
                    0.5 * self.at((y - self.base) as usize, (x - self.cols_base) as usize) + 0.001953125
                } else {
                    f32::NAN
                }
            }
        }
        struct Probe {
            #[allow(clippy::type_complexity)]
            seen: Rc<RefCell<Option<((usize, usize), Vec<Vec<f32>>, Vec<Vec<f32>>, usize)>>>,
        }
        impl SimilarityCombiner for Probe {
            fn combine(&self, m: &Matrix<f32>) -> f32 {
                let rows: Vec<Vec<f32>> = m.rows().map(|r| r.copied().collect()).collect();
                let cols: Vec<Vec<f32>> = m.cols().map(|c| c.copied().collect()).collect();
                *self.seen.borrow_mut() = Some((m.dim(), rows, cols, m.len()));
                0.5
            }
        }
        for (r, c) in dims {
            for peak in [false, true] {
                if !ctx.take() {
                    continue;
                }
                ctx.state();
                ctx.nontrivial();
                if med.is_none() {
                    let mut fm = Facts::default();
                    fm.terms.push(Facts::term(1, "root"));
                    for i in 0..210u32 {
                        fm.terms.push(Facts::term(1000 + i, "m"));
                        fm.edges.push((1000 + i, 1));
                    }
                    med = drive::build(&fm, Mode::Minimal).ok();
                }
                let Some(om) = med.as_ref() else {
                    ctx.violation("Builder", "[builder] construction fails on valid facts", json!({"terms": 211}));
                    break;
                };
                let grid = Grid { base: 1000, cols_base: 1105, peak, rows: r, cols: c };
                let a_ids: Vec<u32> = (0..r as u32).map(|i| 1000 + i).collect();
                let b_ids: Vec<u32> = (0..c as u32).map(|j| 1105 + j).collect();
                ctx.transitions((r * c * 9) as u64);
                ctx.execs(12);
                ctx.validateds(12);
                let res = guard(|| -> V {
                    let a = set(om, &a_ids);
                    let b = set(om, &b_ids);
                    let m: Vec<Vec<f32>> = (0..r).map(|i| (0..c).map(|j| grid.at(i, j)).collect()).collect();
                    let mt: Vec<Vec<f32>> = (0..c).map(|j| (0..r).map(|i| 0.5 * grid.at(i, j) + 0.001953125).collect()).collect();
                    let data: Vec<f32> = m.iter().flatten().copied().collect();
                    for comb in COMBINERS {
                        let want = reference(comb, &m, r, c);
                        let want_t = reference(comb, &mt, c, r);
                        let s1 = a.similarity(&b, grid.clone(), comb);
                        if !close(s1, want) {
                            return Some(("HpoSet::similarity".into(), "result is not the documented combination of the pairwise matrix".into(), format!("{comb:?} {r}x{c}: observed {s1} expected {want}")));
                        }
                        let s2 = GroupSimilarity::new(comb, grid.clone()).calculate(&a, &b);
                        if !close(s2, want) {
                            return Some(("GroupSimilarity::calculate".into(), "result is not the documented combination of the pairwise matrix".into(), format!("{comb:?} {r}x{c}: observed {s2} expected {want}")));
                        }
                        let s3 = comb.calculate(&Matrix::new(r, c, &data));
                        if !close(s3, want) {
                            return Some(("SimilarityCombiner::calculate".into(), "result is not the documented combination of the matrix".into(), format!("{comb:?} {r}x{c}: observed {s3} expected {want}")));
                        }
                        let st = GroupSimilarity::new(comb, grid.clone()).calculate(&b, &a);
                        if !close(st, want_t) {
                            return Some(("GroupSimilarity::calculate".into(), "result is not the documented combination of the pairwise matrix".into(), format!("{comb:?} {c}x{r} (sets swapped, asymmetric similarity): observed {st} expected {want_t}")));
                        }
                        // one cache serving (A,B), (B,A), (A,B): up to 10 000 + 10 000 entries
                        let cached = GroupSimilarity::new(comb, CachedSimilarity::new(grid.clone()));
                        let (c1, c2, c3) = (cached.calculate(&a, &b), cached.calculate(&b, &a), cached.calculate(&a, &b));
                        if c1.to_bits() != s2.to_bits() || c3.to_bits() != s2.to_bits() || c2.to_bits() != st.to_bits() {
                            return Some(("CachedSimilarity".into(), "caching adaptor changes the result".into(), format!("{comb:?} {r}x{c}: plain (A,B) {s2}, (B,A) {st}; one cache: {c1}, {c2}, {c3}")));
                        }
                        // one cache, A against several partner sets: B, B shifted by one id (all keys but one column
                        // shared, every shared key at another column position), B without its first member, B again
                        let wide = Grid { cols: c + 1, ..grid.clone() };
                        let cached = GroupSimilarity::new(comb, CachedSimilarity::new(wide.clone()));
                        let shifted: Vec<u32> = b_ids.iter().map(|x| x + 1).collect();
                        for (p_ids, pname) in [(&b_ids[..], "B"), (&shifted[..], "B shifted by one id"), (&b_ids[1..], "B without its first member"), (&b_ids[..], "B again")] {
                            let pset = set(om, p_ids);
                            let plain = GroupSimilarity::new(comb, wide.clone()).calculate(&a, &pset);
                            let got = cached.calculate(&a, &pset);
                            if got.to_bits() != plain.to_bits() {
                                return Some(("CachedSimilarity".into(), "caching adaptor changes the result when one cache serves several partner sets".into(), format!("{comb:?} {r}x{c}: (A, {pname}): plain {plain}, cached {got}")));
                            }
                        }
                    }
                    // a user-supplied combiner receives the |A| x |B| matrix, row i = member i of A
                    // (either orientation is accepted: the documented combinations do not depend on it)
                    let seen = Rc::new(RefCell::new(None));
                    let gs = GroupSimilarity::new(Probe { seen: seen.clone() }, grid.clone());
                    let out = gs.calculate(&a, &b);
                    let got = seen.borrow().clone();
                    match got {
                        None => return Some(("GroupSimilarity::calculate".into(), "a user-supplied combiner is not asked".into(), format!("{r}x{c}"))),
                        Some((dim, rows, cols, len)) => {
                            let transposed: Vec<Vec<f32>> = (0..c).map(|j| (0..r).map(|i| m[i][j]).collect()).collect();
                            // what the matrix hands a user combiner through cols() must be the transpose of what it
                            // hands out through rows() (the standard combiners need not use cols() themselves)
                            let ok = ((dim == (r, c) && rows == m && cols == transposed) || (dim == (c, r) && rows == transposed && cols == m)) && len == r * c;
                            if !ok || out != 0.5 {
                                return Some(("GroupSimilarity::calculate".into(), "a user-supplied combiner does not receive the matrix of the pairwise similarities (or its result is not returned)".into(), format!("{r}x{c}: combiner saw dim {dim:?}, first row {:?}; returned {out}", rows.first())));
                            }
                        }
                    }
                    None
                });
                match res {
                    Ok(None) => {}
                    Ok(Some((site, sig, det))) => ctx.violation(&site, &format!("[medium sizes] {sig}"), json!({"rows": r, "cols": c, "values": if peak { "one 1.0 per row at column (7i+3) mod cols, small values elsewhere" } else { "2^-(1 + (5i+3j) mod 13)" }, "A": format!("ids 1000..{}", 1000 + r), "B": format!("ids 1105..{}", 1105 + c), "difference": det})),
                    Err(p) => ctx.violation("HpoSet::similarity", "[medium sizes] panics", json!({"rows": r, "cols": c, "observed": p})),
                }
                ctx.sample(|| json!({"shape": [r, c], "peak_variant": peak}));
            }
        }
    }
    // ---- sets that reach the comparison through every way a set can come about: constructed, grown by Extend,
    // filtered in place or into a new set, derived from a record. The property is about the set as it is (what
    // iter() hands out); which route produced it must not matter.
    {
        use super::setroutes::{self, Op};
        use hpo::annotations::AnnotationId;
        set_twin(None);
        let f4 = setroutes::facts();
        let depth = if thorough { 3 } else { 2 };
        ctx.space("sets/construction-routes", &format!("{}; every sequence of <= {depth} operations; after every operation the set is compared (3 combiners, asymmetric by-id similarity) as A against a fixed set, as B, and with itself: the value must be the documented combination over the terms iter() hands out, and the similarity must be asked for every one of those pairs", setroutes::DESCRIPTION));
        match drive::from_bytes(&crate::encode::encode(&f4, &crate::encode::EncOpts::v(3))) {
            Ok(Ok(ont4)) => {
                #[derive(Clone)]
                struct ById {
                    calls: Rc<RefCell<Vec<(u32, u32)>>>,
                }
                fn by_id(a: u32, b: u32) -> f32 {
                    (0.5f32).powi(1 + ((a as i32 / 10) * 5 + (b as i32 / 10) * 3) % 13)
                }
                impl Similarity for ById {
                    fn calculate(&self, a: &HpoTerm, b: &HpoTerm) -> f32 {
                        use hpo::annotations::AnnotationId;
                        self.calls.borrow_mut().push((a.id().as_u32(), b.id().as_u32()));
                        by_id(a.id().as_u32(), b.id().as_u32())
                    }
                }
                let alphabet: Vec<Op> = setroutes::alphabet();
                let fixed_ids = [210u32, 400, 500];
                // one comparison of `a` with `b`: the documented combination over what the two sets iterate
                let compare = |a: &HpoSet, b: &HpoSet| -> V {
                    let ia: Vec<u32> = a.iter().map(|t| t.id().as_u32()).collect();
                    let ib: Vec<u32> = b.iter().map(|t| t.id().as_u32()).collect();
                    if ia.len() != a.len() || ib.len() != b.len() {
                        return Some(("HpoSet::len".into(), "differs from the number of terms iter() hands out".into(), format!("{ia:?} / {} and {ib:?} / {}", a.len(), b.len())));
                    }
                    let m: Vec<Vec<f32>> = ia.iter().map(|x| ib.iter().map(|y| by_id(*x, *y)).collect()).collect();
                    for comb in COMBINERS {
                        let want = reference(comb, &m, ia.len(), ib.len());
                        let sim = ById { calls: Rc::new(RefCell::new(vec![])) };
                        let got = a.similarity(b, sim.clone(), comb);
                        let got2 = GroupSimilarity::new(comb, sim.clone()).calculate(a, b);
                        // "0 if either set is empty": exactly
                        let cl = |x: f32| if ia.is_empty() || ib.is_empty() { x == 0.0 } else { close(x, want) };
                        if !cl(got) || !cl(got2) {
                            return Some(("HpoSet::similarity".into(), "result is not the documented combination of the pairwise matrix of the sets' terms".into(), format!("{comb:?}: A = {ia:?}, B = {ib:?}: HpoSet::similarity {got}, GroupSimilarity::calculate {got2}, expected {want}")));
                        }
                        // (further questions are not excluded by the property; a wrong pair that is used shows in the value)
                        let calls: std::collections::BTreeSet<(u32, u32)> = sim.calls.borrow().iter().copied().collect();
                        let want_calls: std::collections::BTreeSet<(u32, u32)> = ia.iter().flat_map(|x| ib.iter().map(move |y| (*x, *y))).collect();
                        if !want_calls.is_subset(&calls) {
                            return Some(("GroupSimilarity::calculate".into(), "term similarity is not evaluated for every pair (a in A, b in B) of the sets' terms".into(), format!("A = {ia:?}, B = {ib:?}: calls {calls:?}")));
                        }
                    }
                    None
                };
                for start in 0..setroutes::N_STARTS {
                    if !ctx.take() {
                        continue;
                    }
                    let start_name = setroutes::start_name(start);
                    let make = || setroutes::start(&ont4, start);
                    // all operation sequences up to the depth, every one rebuilt from the start set
                    let seqs = setroutes::sequences(alphabet.len(), depth);
                    let mut found: V = None;
                    let mut panicked: Option<String> = None;
                    let mut n = 0u64;
                    let mut shapes = std::collections::BTreeSet::new();
                    for seq in &seqs {
                        let res = guard(|| -> Result<V, ()> {
                            let Some(mut a) = make() else { return Err(()) };
                            for k in seq {
                                a = setroutes::apply(&ont4, a, alphabet[*k]);
                            }
                            let fixed = set(&ont4, &fixed_ids);
                            if let Some(v) = compare(&a, &fixed) {
                                return Ok(Some(v));
                            }
                            if let Some(v) = compare(&fixed, &a) {
                                return Ok(Some(v));
                            }
                            Ok(compare(&a, &a))
                        });
                        n += 9;
                        let ops: Vec<Op> = seq.iter().map(|k| alphabet[*k]).collect();
                        match res {
                            Ok(Ok(None)) => {
                                shapes.insert(seq.len());
                            }
                            Ok(Ok(Some((site, sig, det)))) => {
                                found = Some((site, sig, format!("{start_name} then {ops:?}: {det}")));
                                break;
                            }
                            Ok(Err(())) => {
                                found = Some(("Ontology::gene".into(), "record of a decoded file not found".into(), start_name.clone()));
                                break;
                            }
                            Err(p) => {
                                panicked = Some(format!("{start_name} then {ops:?}: {p}"));
                                break;
                            }
                        }
                    }
                    ctx.execs(n);
                    ctx.validateds(n);
                    ctx.states(seqs.len() as u64);
                    ctx.transitions(seqs.iter().map(|s| s.len() as u64).sum());
                    ctx.nontrivial();
                    ctx.outcome(crate::ctx::fnv_str(&format!("routes {start}")));
                    if let Some((site, sig, det)) = found {
                        ctx.violation(&site, &format!("[set built by a sequence of set operations] {sig}"), json!({"ontology": f4.to_json(), "case": det}));
                    }
                    if let Some(p) = panicked {
                        ctx.violation("HpoSet::similarity", "[set built by a sequence of set operations] panics", json!({"ontology": f4.to_json(), "case": p}));
                    }
                    ctx.sample(|| json!({"start": start_name, "sequences": seqs.len()}));
                }
            }
            other => ctx.violation("Ontology::from_bytes", "cannot decode a file laid out as documented", json!({"facts": f4.to_json(), "observed": format!("{:?}", other.map(|r| r.map(|_| ())))})),
        }
    }

    // ---- magnitudes: the combination is homogeneous - scaling every entry by 2^k scales the result by 2^k, exactly
    // (powers of two) - so a fixed set of matrices is swept over 121 binary orders of magnitude and every result is
    // held to the reference RELATIVE to its own size (an absolute tolerance would hide a result rounded to a fixed
    // number of decimal places, or flushed to zero, for a similarity whose scores are small)
    {
        set_twin(None);
        CURRENT_IDS.with(|c| *c.borrow_mut() = Rc::new(ids.clone()));
        let bases: Vec<(usize, usize, Vec<f32>)> = vec![
            (1, 1, vec![0.75]),
            (1, 2, vec![0.40625, 0.8125]),
            (2, 1, vec![0.59375, 0.21875]),
            (2, 3, vec![0.15625, 0.9375, 0.34375, 0.53125, 0.28125, 0.71875]),
            (3, 2, vec![0.46875, 0.09375, 0.65625, 0.90625, 0.03125, 0.78125]),
            (3, 3, vec![0.5, 0.96875, 0.125, 0.84375, 0.25, 0.6875, 0.0625, 0.375, 0.4375]),
        ];
        // two shapes beyond 3x3 (a "large" path of a combiner must keep small scores as well), entries k/32 again so that
        // the sums of the maxima stay exact in f32; handed to the combiners as a Matrix
        let wide: Vec<(usize, usize)> = vec![(5, 9), (33, 17)];
        let wide_at = |i: usize, j: usize| (1 + (7 * i + 11 * j + (i * j) % 5) % 31) as f32 / 32.0;
        ctx.space("matrices/magnitudes", &format!("{} fixed matrices (1x1 ... 3x3, entries k/32) x every scale 2^k, k = -140 ..= 120 (subnormal entries up to sums just below overflow) x 3 combiners through HpoSet::similarity, GroupSimilarity::calculate and the Matrix, and a 5x9 and a 33x17 matrix through the Matrix: the result must be the reference within 1e-6 of its own magnitude (plus 4 steps of the subnormal grid; 33x17: 6e-6)", bases.len()));
        // what f32 cannot resolve at the bottom of its range: steps of 2^-149
        let grid_slack = 4.0 * (2.0f64).powi(-149);
        for k in -140i32..=120 {
            if !ctx.take() {
                continue;
            }
            ctx.state();
            ctx.nontrivial();
            let scale = (2.0f32).powi(k);
            for (r, c, vals) in &bases {
                let (r, c) = (*r, *c);
                let m: Vec<Vec<f32>> = (0..r).map(|i| (0..c).map(|j| vals[i * c + j] * scale).collect()).collect();
                let a_ids: Vec<u32> = ids[..r].to_vec();
                let b_ids: Vec<u32> = ids[4..4 + c].to_vec();
                let mut table = Table::new();
                for i in 0..r {
                    for j in 0..c {
                        table.grid[slot(&table.ids, a_ids[i])][slot(&table.ids, b_ids[j])] = m[i][j];
                    }
                }
                let (a, b) = (set(&ont, &a_ids), set(&ont, &b_ids));
                let data: Vec<f32> = m.iter().flatten().copied().collect();
                for comb in COMBINERS {
                    ctx.exec();
                    ctx.validated();
                    ctx.transitions(3);
                    let want = reference(comb, &m, r, c);
                    let got = guard(|| (a.similarity(&b, table.clone(), comb), GroupSimilarity::new(comb, table.clone()).calculate(&a, &b), comb.calculate(&Matrix::new(r, c, &data))));
                    match got {
                        Ok((s1, s2, s3)) => {
                            for (site, x) in [("HpoSet::similarity", s1), ("GroupSimilarity::calculate", s2), ("SimilarityCombiner::calculate", s3)] {
                                if !(x.is_finite() && (x as f64 - want).abs() <= 1e-6 * want.abs() + grid_slack) {
                                    ctx.violation(site, "result is not the documented combination of the pairwise matrix (relative to the magnitude of the scores)", json!({"rows": r, "cols": c, "matrix": format!("{m:?}"), "scale": format!("2^{k}"), "combiner": format!("{comb:?}"), "observed": format!("{x:e}"), "expected": format!("{want:e}")}));
                                    break;
                                }
                            }
                        }
                        Err(p) => ctx.violation("HpoSet::similarity", "panics", json!({"rows": r, "cols": c, "matrix": format!("{m:?}"), "scale": format!("2^{k}"), "observed": p})),
                    }
                }
            }
            for (r, c) in &wide {
                let (r, c) = (*r, *c);
                let m: Vec<Vec<f32>> = (0..r).map(|i| (0..c).map(|j| wide_at(i, j) * scale).collect()).collect();
                let data: Vec<f32> = m.iter().flatten().copied().collect();
                // an evaluation that divides before it sums rounds once per maximum
                let rtol = (1.2e-7 * (r + c) as f64).max(1e-6);
                for comb in COMBINERS {
                    ctx.exec();
                    ctx.validated();
                    ctx.transitions(1);
                    let want = reference(comb, &m, r, c);
                    match guard(|| comb.calculate(&Matrix::new(r, c, &data))) {
                        Ok(x) => {
                            if !(x.is_finite() && (x as f64 - want).abs() <= rtol * want.abs() + grid_slack) {
                                ctx.violation("SimilarityCombiner::calculate", "result is not the documented combination of the matrix (relative to the magnitude of the scores)", json!({"rows": r, "cols": c, "entries": "(1 + (7i + 11j + (ij mod 5)) mod 31) / 32", "scale": format!("2^{k}"), "combiner": format!("{comb:?}"), "observed": format!("{x:e}"), "expected": format!("{want:e}")}));
                            }
                        }
                        Err(p) => ctx.violation("SimilarityCombiner::calculate", "panics", json!({"rows": r, "cols": c, "scale": format!("2^{k}"), "observed": p})),
                    }
                }
            }
            ctx.sample(|| json!({"scale": format!("2^{k}")}));
        }
    }

    // ---- (last, because of the garbage it leaves in the allocator) sets around the 16-bit size border: the
    // documented combinations for |A| up to 65 535 with |B| in {1, 2, 4} and the transposed shapes
    {
        set_twin(None);
        ctx.space("sizes/u16-border", "flat ontology with 65 540 terms; (|A|, |B|) in {(65535,1), (65534,2), (65533,4), (65535,4), (300,300), (2,6000)} and, thorough tier, (1,65535), (4,65533) x 3 combiners; similarity = a dyadic function of the two ids (sums stay exact in f32; for (300,300) one whose row and column maxima vary); HpoSet::similarity, GroupSimilarity::calculate and SimilarityCombiner::calculate on the Matrix against the f64 reference; for (300,300) also one cache serving (A,B), (B,A), (A,B) (90 000 + 90 000 entries); a 1 x 32 769 matrix (thorough: also 2 x 40 000) handed to funSimAvg and BMA (thorough: all three) directly (more columns than a 15-bit index holds; sets of that width are thorough-only because the library's column scan is quadratic)");
        // many columns are slow in the library (column maxima cost O(cols^2)): the transposed border shapes are thorough-only
        let shapes: Vec<(usize, usize)> = if thorough { vec![(65_535, 1), (65_534, 2), (65_533, 4), (65_535, 4), (1, 65_535), (4, 65_533), (300, 300)] } else { vec![(65_535, 1), (65_534, 2), (65_533, 4), (65_535, 4), (2, 6000), (300, 300)] };
        let mut big: Option<Ontology> = None;
        #[derive(Clone, Copy)]
        struct ById {
            ramp: bool,
        }
        impl Similarity for ById {
            fn calculate(&self, a: &HpoTerm, b: &HpoTerm) -> f32 {
                use hpo::annotations::AnnotationId;
                val(self.ramp, a.id().as_u32(), b.id().as_u32())
            }
        }
        fn val(ramp: bool, a: u32, b: u32) -> f32 {
            if ramp {
                // for shapes with more than 61 rows AND columns (where every maximum of by_id is 1.0): row a has its
                // maximum 2^-(1 + a mod 7), the column maxima vary as well, and T(a, b) != T(b, a)
                let e = (a % 7).max(((a as u64 * 31 + b as u64 * 17) % 293) as u32 / 20);
                (0.5f32).powi(1 + e as i32)
            } else {
                by_id(a, b)
            }
        }
        /// the documented combination with every maximum divided before it is summed, in f32
        fn divide_first(comb: StandardCombiner, row_max: &[f64], col_max: &[f64]) -> f32 {
            let (r, c) = (row_max.len() as f32, col_max.len() as f32);
            let part = |v: &[f64], d: f32| v.iter().fold(0f32, |acc, x| acc + *x as f32 / d);
            match comb {
                StandardCombiner::FunSimAvg => (part(row_max, r) + part(col_max, c)) / 2.0,
                StandardCombiner::FunSimMax => part(row_max, r).max(part(col_max, c)),
                StandardCombiner::Bma => part(row_max, r + c) + part(col_max, r + c),
            }
        }
        fn by_id(a: u32, b: u32) -> f32 {
            // period 61 in both ids (an earlier period-4 table made every row and column maximum of the big shapes 1.0)
            [0.25f32, 0.5, 1.0, 0.0, 0.125, 0.75, 0.0625][(((a as u64 * 7 + b as u64 * 3) % 61) % 7) as usize]
        }
        for (r, c) in shapes {
            if !ctx.take() {
                continue;
            }
            ctx.state();
            ctx.nontrivial();
            if big.is_none() {
                let mut fb = Facts::default();
                fb.terms.push(Facts::term(1, "root"));
                for i in 0..65_540u32 {
                    fb.terms.push(Facts::term(10 + i, "t"));
                    fb.edges.push((10 + i, 1));
                }
                big = drive::build(&fb, Mode::Minimal).ok();
            }
            let Some(ontb) = big.as_ref() else {
                ctx.violation("Builder", "[builder] construction fails on valid facts", json!({"terms": 65_541}));
                break;
            };
            // A = the first r ids, B = the last c ids of the 65 540 (disjoint unless r + c > 65 540)
            let a_ids: Vec<u32> = (0..r as u32).map(|i| 10 + i).collect();
            let b_ids: Vec<u32> = (0..c as u32).map(|i| 10 + 65_539 - i).rev().collect();
            ctx.transitions((r * c) as u64 * 3);
            let res = guard(|| -> V {
                let a = set(ontb, &a_ids);
                let b = set(ontb, &b_ids);
                let ramp = r > 61 && c > 61;
                let sim = ById { ramp };
                let row_max: Vec<f64> = a_ids.iter().map(|x| b_ids.iter().map(|y| val(ramp, *x, *y) as f64).fold(f64::NEG_INFINITY, f64::max)).collect();
                let col_max: Vec<f64> = b_ids.iter().map(|y| a_ids.iter().map(|x| val(ramp, *x, *y) as f64).fold(f64::NEG_INFINITY, f64::max)).collect();
                let (sr, sc): (f64, f64) = (row_max.iter().sum(), col_max.iter().sum());
                let data: Vec<f32> = a_ids.iter().flat_map(|x| b_ids.iter().map(move |y| val(ramp, *x, *y))).collect();
                for comb in COMBINERS {
                    let want = match comb {
                        StandardCombiner::FunSimAvg => (sr / r as f64 + sc / c as f64) / 2.0,
                        StandardCombiner::FunSimMax => (sr / r as f64).max(sc / c as f64),
                        StandardCombiner::Bma => (sr + sc) / (r + c) as f64,
                    };
                    // 1e-5 separates a divisor that is off by one at 65 535. An evaluation that divides every maximum
                    // before summing (in f32) is the same formula but accumulates up to n * 6e-8: it is accepted when the
                    // result lies within 4 ulp of that order of evaluation carried out here
                    let alt = divide_first(comb, &row_max, &col_max);
                    let ok = |x: f32| x.is_finite() && ((x as f64 - want).abs() <= 1e-5 * want.abs().max(1e-3) || (x - alt).abs() <= 4.0 * f32::EPSILON * alt.abs());
                    let s1 = a.similarity(&b, sim, comb);
                    if !ok(s1) {
                        return Some(("HpoSet::similarity".into(), "result is not the documented combination of the pairwise matrix".into(), format!("{comb:?} |A| = {r}, |B| = {c}: observed {s1} expected {want}")));
                    }
                    let s2 = GroupSimilarity::new(comb, sim).calculate(&a, &b);
                    if !ok(s2) {
                        return Some(("GroupSimilarity::calculate".into(), "result is not the documented combination of the pairwise matrix".into(), format!("{comb:?} |A| = {r}, |B| = {c}: observed {s2} expected {want}")));
                    }
                    let s3 = comb.calculate(&Matrix::new(r, c, &data));
                    if !ok(s3) {
                        return Some(("SimilarityCombiner::calculate".into(), "result is not the documented combination of the matrix".into(), format!("{comb:?} {r} x {c}: observed {s3} expected {want}")));
                    }
                    // a cache that has to hold more than 65 536 pairs: (A,B), (B,A), (A,B) on one cache
                    if (r, c) == (300, 300) {
                        let plain_ba = GroupSimilarity::new(comb, sim).calculate(&b, &a);
                        let cached = GroupSimilarity::new(comb, CachedSimilarity::new(sim));
                        let (c1, c2, c3) = (cached.calculate(&a, &b), cached.calculate(&b, &a), cached.calculate(&a, &b));
                        if c1.to_bits() != s2.to_bits() || c2.to_bits() != plain_ba.to_bits() || c3.to_bits() != s2.to_bits() {
                            return Some(("CachedSimilarity".into(), "caching adaptor changes the result".into(), format!("{comb:?} |A| = {r}, |B| = {c}: plain (A,B) {s2}, (B,A) {plain_ba}; one cache: {c1}, {c2}, {c3}")));
                        }
                    }
                }
                None
            });
            ctx.execs(9);
            ctx.validateds(9);
            match res {
                Ok(None) => {}
                Ok(Some((site, sig, det))) => ctx.violation(&site, &format!("[sets at the 16-bit size border] {sig}"), json!({"rows": r, "cols": c, "similarity": "[1/4, 1/2, 1, 0, 1/8, 3/4, 1/16][((7a + 3b) mod 61) mod 7] of the two term ids; for (300,300): 2^-(1 + max(a mod 7, ((31a + 17b) mod 293) / 20))", "A": format!("ids 10..{}", 10 + r), "B": format!("the last {c} of ids 10..65550"), "difference": det})),
                Err(p) => ctx.violation("HpoSet::similarity", "[sets at the 16-bit size border] panics", json!({"rows": r, "cols": c, "observed": p})),
            }
            ctx.sample(|| json!({"rows": r, "cols": c}));
        }
        // matrices with more columns than a 15-bit index holds, handed to the combiners directly (no sets, no ontology)
        for (r, c) in if thorough { vec![(1usize, 32_769usize), (2, 40_000)] } else { vec![(1, 32_769)] } {
            if !ctx.take() {
                continue;
            }
            ctx.state();
            ctx.nontrivial();
            ctx.transitions((r * c) as u64 * 3);
            let res = guard(|| -> V {
                let at = |i: usize, j: usize| by_id(10 + i as u32, 40_000 + j as u32);
                let row_max: Vec<f64> = (0..r).map(|i| (0..c).map(|j| at(i, j) as f64).fold(f64::NEG_INFINITY, f64::max)).collect();
                let col_max: Vec<f64> = (0..c).map(|j| (0..r).map(|i| at(i, j) as f64).fold(f64::NEG_INFINITY, f64::max)).collect();
                let (sr, sc): (f64, f64) = (row_max.iter().sum(), col_max.iter().sum());
                let data: Vec<f32> = (0..r).flat_map(|i| (0..c).map(move |j| (i, j))).map(|(i, j)| at(i, j)).collect();
                // (every combiner scans the columns once, at a cost quadratic in their number: two of the three in the quick tier)
                for comb in if thorough { &COMBINERS[..] } else { &[StandardCombiner::FunSimAvg, StandardCombiner::Bma][..] } {
                    let comb = *comb;
                    let want = match comb {
                        StandardCombiner::FunSimAvg => (sr / r as f64 + sc / c as f64) / 2.0,
                        StandardCombiner::FunSimMax => (sr / r as f64).max(sc / c as f64),
                        StandardCombiner::Bma => (sr + sc) / (r + c) as f64,
                    };
                    let alt = divide_first(comb, &row_max, &col_max);
                    let s3 = comb.calculate(&Matrix::new(r, c, &data));
                    if !(s3.is_finite() && ((s3 as f64 - want).abs() <= 1e-5 * want.abs().max(1e-3) || (s3 - alt).abs() <= 4.0 * f32::EPSILON * alt.abs())) {
                        return Some(("SimilarityCombiner::calculate".into(), "result is not the documented combination of the matrix".into(), format!("{comb:?} {r} x {c}: observed {s3} expected {want}")));
                    }
                }
                None
            });
            ctx.execs(if thorough { 3 } else { 2 });
            ctx.validateds(if thorough { 3 } else { 2 });
            match res {
                Ok(None) => {}
                Ok(Some((site, sig, det))) => ctx.violation(&site, &format!("[wide matrix] {sig}"), json!({"rows": r, "cols": c, "entries": "[1/4, 1/2, 1, 0, 1/8, 3/4, 1/16][((7(10+i) + 3(40000+j)) mod 61) mod 7]", "difference": det})),
                Err(p) => ctx.violation("SimilarityCombiner::calculate", "[wide matrix] panics", json!({"rows": r, "cols": c, "observed": p})),
            }
            ctx.sample(|| json!({"rows": r, "cols": c, "entry_point": "SimilarityCombiner::calculate(&Matrix)"}));
        }
    }
    ctx.bump("refused: comparison with a second set on a twin Ontology instance (panic; tolerated only if every such comparison is refused)", TWIN_REFUSED.with(|c| c.get()));
    let n = TWIN_TERM_FROM_OTHER_INSTANCE.with(|c| c.get());
    ctx.bump("twin_comparisons_in_which_the_callback_got_a_term_of_the_first_instance", n);
}
