//! C08 - decoder honours layouts v1-v3 and never accepts truncated or extended files.

use super::common::{format_family, large_family, via_binary};
use crate::ctx::Ctx;
use crate::drive::{self, check_against_model};
use crate::encode::{self, EncOpts, Sections};
use crate::model::{Facts, Mode, RefOnt, KINDS};
use crate::obs::Obs;
use crate::space::{apply_perm, permutations, rotations_and_reverse};
use hpo::Ontology;
use serde_json::json;

/// Bind the independent encoder to the code base: the records it produces for the facts of the shipped
/// example files must be byte-identical (as multisets per section) to the records in those files.
fn validate_encoder(ctx: &mut Ctx) {
    ctx.space("encoder-conformance/shipped-files", "tests/example.hpo (v3), example_v2.hpo, example_v1.hpo: split by an independent splitter, loaded by the library, turned back into facts, re-encoded: record multisets per section must be byte-identical");
    for (file, version) in [("/repo/tests/example.hpo", 3u8), ("/repo/tests/example_v2.hpo", 2), ("/repo/tests/example_v1.hpo", 1)] {
        if !ctx.take() {
            continue;
        }
        ctx.state();
        ctx.exec();
        ctx.validated();
        ctx.nontrivial();
        let bytes = std::fs::read(file).unwrap_or_else(|e| panic!("cannot read {file}: {e}"));
        let shipped = Sections::split(&bytes).unwrap_or_else(|e| panic!("splitter cannot cut {file}: {e}"));
        assert_eq!(shipped.version, version, "{file}: unexpected format version");
        let ont = match drive::from_bytes(&bytes) {
            Ok(Ok(o)) => o,
            other => {
                ctx.violation("Ontology::from_bytes", "cannot load a shipped example file", json!({"file": file, "observed": format!("{:?}", other.map(|r| r.map(|_| ())))}));
                continue;
            }
        };
        let obs = match Obs::of(&ont) {
            Ok(o) => o,
            Err(i) => {
                ctx.violation(&i.site, "read API inconsistent on a shipped example file", json!({"file": file, "observed": i.what}));
                continue;
            }
        };
        // facts as loaded
        let mut f = Facts::default();
        let vs: Vec<u16> = obs.version.split('-').map(|x| x.parse().unwrap_or(0)).collect();
        f.version = (vs[0], vs[1] as u8, vs[2] as u8);
        for t in &obs.terms {
            f.terms.push(crate::model::TermFact { id: t.id, name: t.name.clone(), obsolete: t.obsolete, replacement: t.replacement });
            for p in &t.parents {
                f.edges.push((t.id, *p));
            }
        }
        for (k, kind) in KINDS.iter().enumerate() {
            for rec in &obs.recs[k] {
                if rec.terms.is_empty() {
                    f.anns.push(Facts::ann(*kind, rec.id, &rec.name, None));
                }
                for t in &rec.terms {
                    f.anns.push(Facts::ann(*kind, rec.id, &rec.name, Some(*t)));
                }
            }
        }
        ctx.transitions(f.n_steps());
        let mine = Sections::from_facts(&f, &EncOpts::v(version));
        let sorted = |v: &Vec<Vec<u8>>| {
            let mut x = v.clone();
            x.sort();
            x
        };
        let mut problems = vec![];
        if mine.hpo_version != shipped.hpo_version {
            problems.push("release version".to_string());
        }
        if sorted(&mine.terms) != sorted(&shipped.terms) {
            problems.push("term records".into());
        }
        if sorted(&mine.parents) != sorted(&shipped.parents) {
            problems.push("parent records".into());
        }
        for k in 0..3 {
            if sorted(&mine.recs[k]) != sorted(&shipped.recs[k]) {
                problems.push(format!("{} records", KINDS[k].name()));
            }
        }
        if !problems.is_empty() {
            // either the harness' reading of the layout or the loader is wrong; both must be looked at
            ctx.violation("Ontology::from_bytes", "independent encoder and the shipped file disagree on the layout of what the loader reports", json!({"file": file, "sections": problems}));
        }
        // and the model of the loaded facts equals what the loader reports (v1/v2 projections)
        let r = RefOnt::derive(&f);
        let case = || json!({"file": file});
        check_against_model(ctx, &ont, &r, Mode::Defaults, &format!("shipped v{version}"), &case);
        ctx.sample(|| json!({"file": file, "format_version": version, "term_records": shipped.terms.len(), "gene_records": shipped.recs[0].len(), "omim_records": shipped.recs[1].len(), "orpha_records": shipped.recs[2].len()}));
    }
}

fn decode_ok(bytes: &[u8]) -> Result<Option<Ontology>, String> {
    // Ok(Some) = returned an ontology, Ok(None) = rejected (Err or documented panic)
    match drive::from_bytes(bytes) {
        Ok(Ok(o)) => Ok(Some(o)),
        Ok(Err(_)) => Ok(None),
        Err(_) => Ok(None),
    }
}

/// Oracle for files whose layout the documentation does not settle: the decoder may refuse (error or panic); if it
/// returns an ontology, that ontology must be walkable through the whole read API without panic or disagreement
/// (which includes: every id list strictly ascending, i.e. no id listed twice), and ancestors, children, inherited
/// links, information content and default categories must be exactly what follows from the terms, direct parents and
/// records the ontology itself reports.
pub fn self_consistent_or_refused(ctx: &mut Ctx, bytes: &[u8], path: &str, case: &dyn Fn() -> serde_json::Value) {
    ctx.exec();
    ctx.validated();
    match drive::from_bytes(bytes) {
        Ok(Ok(ont)) => match Obs::of(&ont) {
            Err(inc) => ctx.violation(&inc.site, &format!("[{path}] returns an ontology whose read API is inconsistent or panics"), json!({"case": case(), "observed": inc.what})),
            Ok(obs) => {
                ctx.bump("unspecified_layouts_accepted", 1);
                let vs: Vec<u32> = obs.version.split('-').map(|x| x.parse().unwrap_or(0)).collect();
                let version = if vs.len() == 3 { (vs[0] as u16, vs[1] as u8, vs[2] as u8) } else { (0, 0, 0) };
                let own = obs.to_facts(version);
                let exp = Obs::expected(&RefOnt::derive(&own), Mode::Defaults);
                if let Some((site, sig, det)) = obs.diff(&exp, false) {
                    ctx.violation(&site, &format!("[{path}] returned ontology is not consistent with the terms, parents and records it reports itself: {sig}"), json!({"case": case(), "difference": det}));
                }
                ctx.outcome(obs.fingerprint());
            }
        },
        Ok(Err(_)) | Err(_) => ctx.bump("unspecified_layouts_refused", 1),
    }
}

/// single-byte suffixes that are part of the listed suffixes of `faults`
const LISTED_SINGLE_BYTES: [u8; 8] = [0, 0xff, b'\n', b' ', b'\r', b'\t', 0x0b, 0x0c];

/// the byte values b with b % m == c % m
fn byte_class(c: usize, m: usize) -> Vec<u8> {
    (0..=255u8).filter(|b| *b as usize % m == c % m).collect()
}

fn suffix_faults(ctx: &mut Ctx, bytes: &[u8], version: u8, describe: &dyn Fn() -> serde_json::Value, suffixes: Vec<(Vec<u8>, String)>) {
    let hexd = |b: &[u8]| {
        if b.len() <= 4096 {
            b.iter().map(|x| format!("{x:02x}")).collect::<String>()
        } else {
            format!("{}...<{} bytes>", b[..64].iter().map(|x| format!("{x:02x}")).collect::<String>(), b.len())
        }
    };
    for (suf, name) in suffixes {
        ctx.exec();
        ctx.transitions(1);
        let mut b = bytes.to_vec();
        b.extend_from_slice(&suf);
        if let Ok(Some(_)) = decode_ok(&b) {
            let sig = if !suf.is_empty() && suf.iter().all(|x| x.is_ascii_whitespace() || *x == 0x0b) { "accepts a valid file followed by white space" } else { "accepts a valid file followed by extra bytes" };
            ctx.violation("Ontology::from_bytes", sig, json!({"file": describe(), "format_version": version, "file_len": bytes.len(), "suffix": name, "suffix_len": suf.len(), "bytes_hex": hexd(&b)}));
        }
    }
}

/// Space B for one valid file: every proper prefix, the listed suffixes, every other version byte.
/// `singles`: the byte values tried as one-byte suffixes besides the listed suffixes (which contain 00, ff and the
/// white-space bytes).
fn faults(ctx: &mut Ctx, bytes: &[u8], version: u8, last_section: &[u8], describe: &dyn Fn() -> serde_json::Value, prefix_stride: usize, singles: &[u8]) {
    let hexd = |b: &[u8]| {
        if b.len() <= 4096 {
            b.iter().map(|x| format!("{x:02x}")).collect::<String>()
        } else {
            format!("{}...<{} bytes>", b[..64].iter().map(|x| format!("{x:02x}")).collect::<String>(), b.len())
        }
    };
    let mut offsets: Vec<usize> = (0..bytes.len()).step_by(prefix_stride).collect();
    // always include the offsets next to section borders and the end
    for d in 1..=9 {
        if bytes.len() >= d {
            offsets.push(bytes.len() - d);
        }
    }
    offsets.sort_unstable();
    offsets.dedup();
    // (a decode that does not return at all is caught by the supervisor's watchdog and reported after two isolated
    // re-runs as "subject code aborted or did not return"; wall time is not part of the property and is not measured)
    for cut in offsets {
        ctx.exec();
        ctx.transitions(1);
        if let Ok(Some(_)) = decode_ok(&bytes[..cut]) {
            ctx.violation("Ontology::from_bytes", "accepts a proper prefix of a valid file", json!({"file": describe(), "format_version": version, "file_len": bytes.len(), "prefix_len": cut, "bytes_hex": hexd(&bytes[..cut])}));
        }
    }
    let mut suffixes: Vec<(Vec<u8>, String)> = vec![
        (vec![0], "00".into()),
        (vec![0xff], "ff".into()),
        (b"\n".to_vec(), "a line feed".into()),
        (b" ".to_vec(), "a blank".into()),
        (b"\r".to_vec(), "a carriage return".into()),
        (b"\t".to_vec(), "a tab".into()),
        (vec![0x0b], "a vertical tab".into()),
        (vec![0x0c], "a form feed".into()),
        (b"\r\n".to_vec(), "CR LF".into()),
        (b"\n\n".to_vec(), "two line feeds".into()),
        (b"  ".to_vec(), "two blanks".into()),
        (vec![0; 4], "00 x4 (an empty extra section)".into()),
        (vec![0; 5], "00 x5".into()),
        (vec![0; 8], "00 x8 (two empty extra sections)".into()),
        (vec![0; 512], "00 x512".into()),
        (b"HPO\x03".to_vec(), "HPO\\x03".into()),
        (vec![0, 0, 0, 1, 0], "a one-byte extra section".into()),
    ];
    let mut copy = (last_section.len() as u32).to_be_bytes().to_vec();
    copy.extend_from_slice(last_section);
    suffixes.push((copy, "a copy of the file's last section".into()));
    suffixes.push((bytes.to_vec(), "a second copy of the whole file".into()));
    for &b in singles {
        if !LISTED_SINGLE_BYTES.contains(&b) {
            suffixes.push((vec![b], format!("the single byte {b:02x}")));
        }
    }
    suffix_faults(ctx, bytes, version, describe, suffixes);
    if version == 1 {
        // a headerless v1 body behind a header announcing a version the crate does not support. Version bytes 2 and 3
        // announce other layouts; version byte 1 is left out: version 1 IS supported, and the documentation does not
        // say whether a v1 file may carry the `HPO` header (the shipped one does not) - don't-care.
        for vb in 0..=255u8 {
            if vb == 1 || vb == 2 || vb == 3 {
                continue;
            }
            ctx.exec();
            ctx.transitions(1);
            let mut b = b"HPO".to_vec();
            b.push(vb);
            b.extend_from_slice(bytes);
            if let Ok(Some(_)) = decode_ok(&b) {
                ctx.violation("Ontology::from_bytes", "accepts a file announcing an unsupported version", json!({"file": describe(), "layout": "v1 body behind an HPO header", "version_byte": vb, "bytes_hex": hexd(&b)}));
            }
        }
    }
    if version >= 2 {
        for vb in 0..=255u8 {
            if vb == version || vb == 1 {
                // 1: a supported version whose header form (if any) is undocumented, see above - don't-care
                continue;
            }
            ctx.exec();
            ctx.transitions(1);
            let mut b = bytes.to_vec();
            b[3] = vb;
            if let Ok(Some(_)) = decode_ok(&b) {
                let sig = if vb == 2 || vb == 3 { "accepts a file whose version byte was swapped between 2 and 3 (it is then a truncated / extended file of the other layout)" } else { "accepts a file announcing an unsupported version" };
                ctx.violation("Ontology::from_bytes", sig, json!({"file": describe(), "format_version": version, "version_byte": vb, "bytes_hex": hexd(&b)}));
            }
        }
    }
}

pub fn run(ctx: &mut Ctx) {
    let thorough = ctx.tier.thorough();
    ctx.rule = "conformance: case = (fact set, format version) encoded by the independent encoder in all record orders (one section permuted at a time), with the ids inside records reversed and - for one record with >= 3 ids per section - in every order; header dates 0-0-0, 2022-12-31, 2024-02-29, 65535-255-255; v1 / v2 files with ids >= 65 536, 300 parents, 301 terms, a 70 000-byte disease name; faults: case = one valid file with every proper prefix, every listed suffix (all 256 single bytes, white space, copies), every other version byte; distinct by construction; non-trivial = file with at least one record in three sections".into();
    ctx.assumptions = vec![
        "the independent encoder is trusted only after reproducing the records of the three shipped example files byte for byte (first space)".into(),
        "rejected = Err or panic (the decoder documents that it may panic on malformed input); a decode that does not return is caught by the supervisor's watchdog, wall time is not measured".into(),
        "record ids are unique inside a section; replacement ids name existing terms; names <= 255 bytes".into(),
        "version byte 1 behind the HPO magic is don't-care: version 1 is a supported version and the documentation does not say whether a v1 file may carry the header (the shipped v1 file has none); every other version byte except 2 and 3 announces an unsupported version".into(),
        "unspecified layouts (one parent record per link, an id listed twice inside a parent / gene / disease record): the decoder may refuse; if it returns an ontology, only its self-consistency is demanded".into(),
    ];
    validate_encoder(ctx);

    let mut family = format_family(4, if thorough { 1 } else { 4 });
    // names at the size limits of the format: term names of 246 / 247 / 254 / 255 bytes, a 255-byte gene name,
    // a 300-byte disease name (the name length of diseases is a u32)
    for (i, len) in [246usize, 247, 248, 254, 255].iter().enumerate() {
        let mut f = Facts::default();
        f.version = (2024, 2, 29);
        f.terms = vec![Facts::term(1, "All"), Facts::term(118, &"P".repeat(*len)), Facts::term(200 + i as u32, &format!("{}\u{e9}", "n".repeat(len - 2)))];
        f.edges = vec![(118, 1), (200 + i as u32, 118)];
        f.anns = vec![
            Facts::ann(crate::model::Kind::Gene, 11, &"G".repeat(255), Some(118)),
            Facts::ann(crate::model::Kind::Omim, 600_001, &"D".repeat(300), Some(200 + i as u32)),
            Facts::ann(crate::model::Kind::Orpha, 77, &"O".repeat(256), Some(1)),
        ];
        family.push((f, format!("term names of {len} bytes, 255-byte gene name, 300-byte disease name")));
    }
    // header dates other than 2024-02-29 (v1 has no header: its projection carries 0-0-0 anyway)
    for (i, date) in [(0u16, 0u8, 0u8), (2022, 12, 31), (65535, 255, 255)].into_iter().enumerate() {
        let (x, y) = (300 + i as u32, 310 + i as u32);
        let mut f = Facts::default();
        f.version = date;
        f.terms = vec![Facts::term(1, "All"), Facts::term(118, "Phenotypic abnormality"), Facts::term(x, "Dated term"), crate::model::TermFact { id: y, name: "Retired term".into(), obsolete: true, replacement: Some(x) }];
        f.edges = vec![(118, 1), (x, 118)];
        f.anns = vec![
            Facts::ann(crate::model::Kind::Gene, 11, "GENE1", Some(x)),
            Facts::ann(crate::model::Kind::Gene, 33, "GENE3", None),
            Facts::ann(crate::model::Kind::Omim, 600_001, "Disease one", Some(118)),
            Facts::ann(crate::model::Kind::Orpha, 77, "Orpha one", Some(x)),
            Facts::ann(crate::model::Kind::Orpha, 78, "Orpha two", Some(1)),
        ];
        family.push((f, format!("release date {}-{}-{} in the header", date.0, date.1, date.2)));
    }
    // ---- Space A: conformance in all record orders
    ctx.space("conformance/v1-v3/record-orders", &format!("{} fact sets x versions 1,2,3; term records: all orders; parent records: all orders; gene/omim/orpha records: all orders; ids inside records reversed; parentless terms without parent record; the canonical file also through Ontology::from_binary (whole, cut in half, one byte short)", family.len()));
    for (f, what) in &family {
        for version in [1u8, 2, 3] {
            if !ctx.take() {
                continue;
            }
            ctx.state();
            let pf = encode::project(f, version);
            let r = RefOnt::derive(&pf);
            let secs = Sections::from_facts(&pf, &EncOpts::v(version));
            if !secs.recs[0].is_empty() && !secs.recs[1].is_empty() && secs.parents.len() > 1 {
                ctx.nontrivial();
            }
            let mut variants: Vec<(Sections, String)> = vec![(secs.clone(), "canonical".into())];
            for p in permutations(secs.terms.len()).into_iter().skip(1) {
                variants.push((Sections { terms: apply_perm(&secs.terms, &p), ..secs.clone() }, format!("term records {p:?}")));
            }
            for p in permutations(secs.parents.len()).into_iter().skip(1) {
                variants.push((Sections { parents: apply_perm(&secs.parents, &p), ..secs.clone() }, format!("parent records {p:?}")));
            }
            for k in 0..3 {
                for p in permutations(secs.recs[k].len()).into_iter().skip(1) {
                    let mut x = secs.clone();
                    x.recs[k] = apply_perm(&secs.recs[k], &p);
                    variants.push((x, format!("{} records {p:?}", KINDS[k].name())));
                }
            }
            let mut g = pf.clone();
            g.edges.reverse();
            g.anns.reverse();
            variants.push((Sections::from_facts(&g, &EncOpts::v(version)), "ids inside records reversed".into()));
            let mut o = EncOpts::v(version);
            o.omit_empty_parent_records = true;
            variants.push((Sections::from_facts(&pf, &o), "no parent record for parentless terms".into()));
            for (x, order) in variants {
                ctx.transitions(pf.n_steps());
                let bytes = x.to_bytes();
                let case = || json!({"facts": pf.to_json(), "family": what, "format_version": version, "record_order": order, "bytes_hex": bytes.iter().map(|b| format!("{b:02x}")).collect::<String>()});
                match drive::from_bytes(&bytes) {
                    Ok(Ok(ont)) => {
                        check_against_model(ctx, &ont, &r, Mode::Defaults, &format!("binary v{version}"), &case);
                    }
                    Ok(Err(e)) => {
                        ctx.exec();
                        ctx.violation("Ontology::from_bytes", &format!("[binary v{version}] rejects a file laid out as documented"), json!({"case": case(), "observed": e}));
                    }
                    Err(p) => {
                        ctx.exec();
                        ctx.violation("Ontology::from_bytes", &format!("[binary v{version}] panics on a file laid out as documented"), json!({"case": case(), "observed": p}));
                    }
                }
            }
            // the file-based twin: the canonical bytes written to a file and read with Ontology::from_binary, and
            // the same file cut off in the middle / one byte short (must be refused like the byte slice)
            {
                let bytes = secs.to_bytes();
                let dir = crate::jax::scratch();
                let path = format!("{dir}/conformance.hpo");
                let case = || json!({"facts": pf.to_json(), "family": what, "format_version": version, "entry_point": "Ontology::from_binary(path)"});
                if std::fs::write(&path, &bytes).is_ok() {
                    ctx.transitions(pf.n_steps());
                    match crate::ctx::guard(|| hpo::Ontology::from_binary(&path).map_err(|e| e.to_string())) {
                        Ok(Ok(ont)) => {
                            check_against_model(ctx, &ont, &r, Mode::Defaults, &format!("binary v{version} from a file"), &case);
                        }
                        Ok(Err(e)) => {
                            ctx.exec();
                            ctx.violation("Ontology::from_binary", &format!("[binary v{version} from a file] rejects a file laid out as documented"), json!({"case": case(), "observed": e}));
                        }
                        Err(p) => {
                            ctx.exec();
                            ctx.violation("Ontology::from_binary", &format!("[binary v{version} from a file] panics on a file laid out as documented"), json!({"case": case(), "observed": p}));
                        }
                    }
                    for cut in [bytes.len() / 2, bytes.len() - 1] {
                        if std::fs::write(&path, &bytes[..cut]).is_ok() {
                            ctx.exec();
                            ctx.validated();
                            if let Ok(Ok(_)) = crate::ctx::guard(|| hpo::Ontology::from_binary(&path).map_err(|e| e.to_string())) {
                                ctx.violation("Ontology::from_binary", "returns an ontology for a truncated file", json!({"case": case(), "kept_bytes": cut, "of": bytes.len()}));
                            }
                        }
                    }
                    let _ = std::fs::remove_file(&path);
                }
            }
            ctx.sample(|| json!({"facts": pf.to_json(), "format_version": version, "family": what}));
        }
    }
    crate::jax::cleanup();

    // ---- Space A2: the ids inside one record per section in every order
    {
        // (section, position of the record in the section, its ids) of the first record with >= 3 ids; section 0 =
        // parent records, 1..3 = gene / OMIM / ORPHA records
        let first_long = |pf: &Facts, version: u8| -> Vec<(usize, usize, Vec<u32>)> {
            let mut out = vec![];
            for (i, t) in pf.terms.iter().enumerate() {
                let ps: Vec<u32> = pf.edges.iter().filter(|e| e.0 == t.id).map(|e| e.1).collect();
                if ps.len() >= 3 {
                    out.push((0, i, ps));
                    break;
                }
            }
            for k in KINDS {
                if k.idx() == 2 && version < 3 {
                    continue;
                }
                if let Some((i, r)) = encode::records_of(pf, k).into_iter().enumerate().find(|(_, r)| r.2.len() >= 3) {
                    out.push((1 + k.idx(), i, r.2));
                }
            }
            out
        };
        let with_long: Vec<&(Facts, String)> = family.iter().filter(|(f, _)| !first_long(f, 3).is_empty()).collect();
        let stride = if thorough { 1 } else { 5 };
        let picked: Vec<&(Facts, String)> = with_long.iter().copied().step_by(stride).collect();
        ctx.space("conformance/v1-v3/id-orders", &format!("{} of the {} fact sets that have a record with >= 3 ids (every {stride}th) x versions 1,2,3: for the first such parent, gene, OMIM and ORPHA record the ids in every order (all permutations up to 4 ids, rotations + reverse above)", picked.len(), with_long.len()));
        if !thorough {
            ctx.mark_partial("id orders: the quick tier takes every 5th fact set with a long record (all of them in the thorough tier)");
        }
        for (f, what) in picked {
            for version in [1u8, 2, 3] {
                if !ctx.take() {
                    continue;
                }
                ctx.state();
                ctx.nontrivial();
                let pf = encode::project(f, version);
                let r = RefOnt::derive(&pf);
                let secs = Sections::from_facts(&pf, &EncOpts::v(version));
                for (sec, pos, ids) in first_long(&pf, version) {
                    let perms = if ids.len() <= 4 { permutations(ids.len()) } else { rotations_and_reverse(ids.len()) };
                    for p in perms.into_iter().skip(1) {
                        let listed = apply_perm(&ids, &p);
                        let mut x = secs.clone();
                        let what_rec;
                        if sec == 0 {
                            x.parents[pos] = encode::parents_record(pf.terms[pos].id, &listed);
                            what_rec = format!("parent record of {}", pf.terms[pos].id);
                        } else {
                            let k = KINDS[sec - 1];
                            let (id, name, _) = encode::records_of(&pf, k).swap_remove(pos);
                            x.recs[sec - 1][pos] = if sec == 1 { encode::gene_record(id, &name, &listed) } else { encode::disease_record(id, &name, &listed) };
                            what_rec = format!("{} record {}", k.name(), id);
                        }
                        ctx.transitions(pf.n_steps());
                        let bytes = x.to_bytes();
                        let case = || json!({"facts": pf.to_json(), "family": what, "format_version": version, "record": what_rec, "ids_listed_as": listed, "bytes_hex": bytes.iter().map(|b| format!("{b:02x}")).collect::<String>()});
                        match drive::from_bytes(&bytes) {
                            Ok(Ok(ont)) => {
                                check_against_model(ctx, &ont, &r, Mode::Defaults, &format!("binary v{version}, ids inside a record permuted"), &case);
                            }
                            Ok(Err(e)) => {
                                ctx.exec();
                                ctx.violation("Ontology::from_bytes", &format!("[binary v{version}, ids inside a record permuted] rejects a file laid out as documented"), json!({"case": case(), "observed": e}));
                            }
                            Err(e) => {
                                ctx.exec();
                                ctx.violation("Ontology::from_bytes", &format!("[binary v{version}, ids inside a record permuted] panics on a file laid out as documented"), json!({"case": case(), "observed": e}));
                            }
                        }
                    }
                }
                ctx.sample(|| json!({"facts": pf.to_json(), "format_version": version, "family": what, "records": first_long(&pf, version).iter().map(|x| format!("section {} record {} ids {:?}", x.0, x.1, x.2)).collect::<Vec<_>>()}));
            }
        }
    }

    // ---- Space A3: layouts the documentation does not settle (three encoder options) - policy-neutral oracle
    {
        let bases: Vec<&(Facts, String)> = family.iter().filter(|(f, _)| f.edges.len() >= 2 && !f.anns.is_empty()).step_by(if thorough { 7 } else { 61 }).collect();
        ctx.space("conformance/v1-v3/unspecified-layouts", &format!("{} fact sets x versions 1,2,3 x (one parent record per link | first parent id of every parent record repeated at its end | first term id of every gene / disease record repeated at its end | all three): the decoder may refuse; a returned ontology must be walkable, list no id twice and have exactly the links that follow from the terms, parents and records it reports itself", bases.len()));
        for (f, what) in bases {
            for version in [1u8, 2, 3] {
                if !ctx.take() {
                    continue;
                }
                ctx.state();
                ctx.nontrivial();
                let pf = encode::project(f, version);
                let variants: [(&str, EncOpts); 4] = [
                    ("one parent record per (term, parent) link", EncOpts { split_parent_records: true, ..EncOpts::v(version) }),
                    ("first parent id of every parent record listed again at its end", EncOpts { repeat_parent_ids: true, ..EncOpts::v(version) }),
                    ("first term id of every gene / disease record listed again at its end", EncOpts { repeat_term_ids: true, ..EncOpts::v(version) }),
                    ("all three at once", EncOpts { split_parent_records: true, repeat_parent_ids: true, repeat_term_ids: true, ..EncOpts::v(version) }),
                ];
                for (layout, o) in variants {
                    ctx.transitions(pf.n_steps());
                    let bytes = encode::encode(&pf, &o);
                    let case = || json!({"facts": pf.to_json(), "family": what, "format_version": version, "layout": layout, "bytes_hex": bytes.iter().map(|b| format!("{b:02x}")).collect::<String>()});
                    self_consistent_or_refused(ctx, &bytes, &format!("binary v{version}, {layout}"), &case);
                }
                ctx.sample(|| json!({"facts": pf.to_json(), "format_version": version, "family": what}));
            }
        }
    }

    // ---- Space A4: v1 / v2 files beyond the small family - ids >= 65 536, a parent record with 300 parents, more than 255
    // terms, records listing 300 terms, a 70 000-byte disease name (conformance only; v3 is covered by C01 / C02)
    {
        let mut big: Vec<(Facts, String)> = vec![];
        {
            let mut f = Facts::default();
            f.version = (2024, 2, 29);
            f.terms = vec![Facts::term(1, "All"), Facts::term(118, "Phenotypic abnormality"), Facts::term(65_535, "id 65535"), Facts::term(65_536, "id 65536"), Facts::term(65_537, "id 65537"), Facts::term(16_777_216 - 7_000_000, "id 9777216"), Facts::term(9_999_999, "id 9999999"), crate::model::TermFact { id: 70_000, name: "retired".into(), obsolete: true, replacement: Some(9_999_999) }];
            f.edges = vec![(118, 1), (65_535, 118), (65_536, 118), (65_537, 65_536), (9_777_216, 65_537), (9_999_999, 65_535), (9_999_999, 9_777_216)];
            f.anns = vec![
                Facts::ann(crate::model::Kind::Gene, 65_536, "G65536", Some(9_999_999)),
                Facts::ann(crate::model::Kind::Gene, 65_536, "G65536", Some(65_536)),
                Facts::ann(crate::model::Kind::Gene, u32::MAX, "GMAX", Some(65_537)),
                Facts::ann(crate::model::Kind::Omim, 9_999_999, "Omim 9999999", Some(65_535)),
                Facts::ann(crate::model::Kind::Omim, 16_777_216, "Omim 2^24", Some(9_777_216)),
                Facts::ann(crate::model::Kind::Orpha, 70_000, "Orpha 70000", Some(9_999_999)),
            ];
            big.push((f, "term ids 65 535 ... 9 999 999, record ids 65 536 ... u32::MAX".into()));
        }
        for (f, what) in large_family() {
            if !(what.starts_with("deep chain of 300 terms") || what.starts_with("one term with 300 direct parents")) {
                continue;
            }
            // a gene, an OMIM and an ORPHA disease on every term (records listing ~300 terms), a second record per kind
            let mut g = f.clone();
            for t in &f.terms {
                g.anns.push(Facts::ann(crate::model::Kind::Gene, 11, "GENE1", Some(t.id)));
                g.anns.push(Facts::ann(crate::model::Kind::Omim, 600_001, "Disease one", Some(t.id)));
                g.anns.push(Facts::ann(crate::model::Kind::Orpha, 77, "Orpha one", Some(t.id)));
            }
            let lastid = f.terms.last().unwrap().id;
            g.anns.push(Facts::ann(crate::model::Kind::Gene, 22, "GENE2", Some(lastid)));
            g.anns.push(Facts::ann(crate::model::Kind::Omim, 600_002, "Disease two", Some(118)));
            g.anns.push(Facts::ann(crate::model::Kind::Orpha, 78, "Orpha two", Some(lastid)));
            big.push((g, format!("{what}, a gene / OMIM / ORPHA record on every term")));
        }
        {
            let mut f = Facts::default();
            f.version = (2024, 2, 29);
            f.terms = vec![Facts::term(1, "All"), Facts::term(118, "Phenotypic abnormality"), Facts::term(119, "Further term")];
            f.edges = vec![(118, 1), (119, 118)];
            f.anns = vec![
                Facts::ann(crate::model::Kind::Gene, 11, "GENE1", Some(119)),
                Facts::ann(crate::model::Kind::Omim, 600_001, &"long disease name ".repeat(4000), Some(119)),
                Facts::ann(crate::model::Kind::Omim, 600_002, "Disease two", Some(118)),
                Facts::ann(crate::model::Kind::Orpha, 77, &"long orpha name ".repeat(4400), Some(118)),
            ];
            big.push((f, "an OMIM disease name of 72 000 bytes (a disease section beyond 64 KiB)".into()));
        }
        ctx.space("conformance/v1-v2/large", &format!("{} fact sets (ids >= 65 536; chains of 301 terms; a term with 300 parents; records listing ~300 terms; a 72 000-byte disease name) x versions 1, 2 x (canonical | ids inside records and record order reversed)", big.len()));
        for (f, what) in &big {
            for version in [1u8, 2] {
                if !ctx.take() {
                    continue;
                }
                ctx.state();
                ctx.nontrivial();
                via_binary(ctx, f, &EncOpts::v(version), &format!("{what}; canonical"));
                let mut g = f.clone();
                g.edges.reverse();
                g.anns.reverse();
                via_binary(ctx, &g, &EncOpts::v(version), &format!("{what}; links and annotation facts reversed"));
                ctx.sample(|| json!({"family": what, "format_version": version, "terms": f.terms.len(), "links": f.edges.len(), "annotation_facts": f.anns.len()}));
            }
        }
    }

    // ---- Space B: faults
    ctx.space("faults/generated-files", &format!("{} generated files x versions 1,2,3: every proper prefix 0..len-1, 19 listed suffixes (white space, zero runs, copies of the last section and of the whole file) + single-byte suffixes ({}), every other version byte", family.len(), if thorough { "all 256 byte values" } else { "32 of the 256 byte values per file, rotating over the files; thorough: all" }));
    if !thorough {
        ctx.mark_partial("generated files: in the quick tier every file gets 32 of the 256 single-byte suffixes (rotating over the files) besides the listed ones; all 256 in the thorough tier");
    }
    let mut file_no = 0usize;
    for (f, what) in &family {
        for version in [1u8, 2, 3] {
            file_no += 1;
            if !ctx.take() {
                continue;
            }
            ctx.state();
            let pf = encode::project(f, version);
            let secs = Sections::from_facts(&pf, &EncOpts::v(version));
            if !secs.recs[0].is_empty() && !secs.recs[1].is_empty() && secs.parents.len() > 1 {
                ctx.nontrivial();
            }
            let bytes = secs.to_bytes();
            // the file itself must be accepted, otherwise the fault sweep would be vacuous
            ctx.validated();
            match decode_ok(&bytes) {
                Ok(Some(_)) => {}
                _ => {
                    ctx.violation("Ontology::from_bytes", &format!("[binary v{version}] rejects a file laid out as documented"), json!({"facts": pf.to_json()}));
                    continue;
                }
            }
            let last = if version >= 3 { secs.recs[2].concat() } else { secs.recs[1].concat() };
            let describe = || json!({"facts": pf.to_json(), "family": what});
            faults(ctx, &bytes, version, &last, &describe, 1, &byte_class(file_no / 3 + file_no % 3, if thorough { 1 } else { 8 }));
            ctx.outcome(crate::ctx::fnv(&bytes) % 65536);
            ctx.sample(|| json!({"facts": pf.to_json(), "format_version": version, "file_len": bytes.len(), "faults": bytes.len() + 19 + if thorough { 248 } else { 31 } + if version >= 2 { 254 } else { 252 }}));
        }
    }

    // ---- shipped files: every offset of example.hpo (thorough), strided in quick
    ctx.space("faults/shipped-files", "tests/example.hpo, example_v2.hpo, example_v1.hpo: prefixes (quick: every 97th offset and the last 9; thorough: every offset), the listed suffixes and all 256 single-byte suffixes, version bytes");
    for (file, version) in [("/repo/tests/example.hpo", 3u8), ("/repo/tests/example_v2.hpo", 2), ("/repo/tests/example_v1.hpo", 1)] {
        let bytes = std::fs::read(file).unwrap_or_else(|e| panic!("cannot read {file}: {e}"));
        let chunks = 16usize;
        for c in 0..chunks {
            if !ctx.take() {
                continue;
            }
            ctx.state();
            ctx.nontrivial();
            let secs = Sections::split(&bytes).expect("shipped file splits");
            let last = if version >= 3 { secs.recs[2].concat() } else { secs.recs[1].concat() };
            let lo = bytes.len() * c / chunks;
            let hi = bytes.len() * (c + 1) / chunks;
            let stride = if thorough { 1 } else { 97 };
            let describe = || json!({"file": file});
            // prefixes of this chunk
            for cut in (lo..hi).step_by(stride) {
                ctx.exec();
                ctx.transitions(1);
                if let Ok(Some(_)) = decode_ok(&bytes[..cut]) {
                    ctx.violation("Ontology::from_bytes", "accepts a proper prefix of a valid file", json!({"file": file, "file_len": bytes.len(), "prefix_len": cut}));
                }
            }
            // every byte value as a one-byte suffix, spread over the chunks (a decode of a shipped file is a full parse)
            let singles: Vec<(Vec<u8>, String)> = byte_class(c, chunks).into_iter().filter(|b| !LISTED_SINGLE_BYTES.contains(b)).map(|b| (vec![b], format!("the single byte {b:02x}"))).collect();
            suffix_faults(ctx, &bytes, version, &describe, singles);
            if c == chunks - 1 {
                // listed suffixes, version bytes and the last offsets once per file
                faults(ctx, &bytes, version, &last, &describe, bytes.len().max(1), &[]);
            }
            ctx.sample(|| json!({"file": file, "offsets": [lo, hi], "stride": stride}));
        }
    }
    if !thorough {
        ctx.mark_partial("shipped files: quick tier truncates at every 97th offset (every offset in the thorough tier)");
    }
}
