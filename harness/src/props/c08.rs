//! C08 - decoder honours layouts v1-v3 and never accepts truncated or extended files.

use super::common::format_family;
use crate::ctx::Ctx;
use crate::drive::{self, check_against_model};
use crate::encode::{self, EncOpts, Sections};
use crate::model::{Facts, Mode, RefOnt, KINDS};
use crate::obs::Obs;
use crate::space::{apply_perm, permutations};
use hpo::Ontology;
use serde_json::json;

/// Bind the independent encoder to the code base: the records it produces for the facts of the shipped
/// example files must be byte-identical (as multisets per section) to the records in those files.
fn validate_encoder(ctx: &mut Ctx) {
    ctx.space("encoder-conformance/shipped-files", "tests/example.hpo (v3), example_v2.hpo, example_v1.hpo: split by an independent splitter, loaded by the library, turned back into facts, re-encoded: record multisets per section must be byte-identical");
    for (file, version) in [("/repo/tests/example.hpo", 3u8), ("/repo/tests/example_v2.hpo", 2), ("/repo/tests/example_v1.hpo", 1)] {
        if !ctx.take() {
            continue;
        }
        ctx.state();
        ctx.exec();
        ctx.validated();
        ctx.nontrivial();
        let bytes = std::fs::read(file).unwrap_or_else(|e| panic!("cannot read {file}: {e}"));
        let shipped = Sections::split(&bytes).unwrap_or_else(|e| panic!("splitter cannot cut {file}: {e}"));
        assert_eq!(shipped.version, version, "{file}: unexpected format version");
        let ont = match drive::from_bytes(&bytes) {
            Ok(Ok(o)) => o,
            other => {
                ctx.violation("Ontology::from_bytes", "cannot load a shipped example file", json!({"file": file, "observed": format!("{:?}", other.map(|r| r.map(|_| ())))}));
                continue;
            }
        };
        let obs = match Obs::of(&ont) {
            Ok(o) => o,
            Err(i) => {
                ctx.violation(&i.site, "read API inconsistent on a shipped example file", json!({"file": file, "observed": i.what}));
                continue;
            }
        };
        // facts as loaded
        let mut f = Facts::default();
        let vs: Vec<u16> = obs.version.split('-').map(|x| x.parse().unwrap_or(0)).collect();
        f.version = (vs[0], vs[1] as u8, vs[2] as u8);
        for t in &obs.terms {
            f.terms.push(crate::model::TermFact { id: t.id, name: t.name.clone(), obsolete: t.obsolete, replacement: t.replacement });
            for p in &t.parents {
                f.edges.push((t.id, *p));
            }
        }
        for (k, kind) in KINDS.iter().enumerate() {
            for rec in &obs.recs[k] {
                if rec.terms.is_empty() {
                    f.anns.push(Facts::ann(*kind, rec.id, &rec.name, None));
                }
                for t in &rec.terms {
                    f.anns.push(Facts::ann(*kind, rec.id, &rec.name, Some(*t)));
                }
            }
        }
        ctx.transitions(f.n_steps());
        let mine = Sections::from_facts(&f, &EncOpts::v(version));
        let sorted = |v: &Vec<Vec<u8>>| {
            let mut x = v.clone();
            x.sort();
            x
        };
        let mut problems = vec![];
        if mine.hpo_version != shipped.hpo_version {
            problems.push("release version".to_string());
        }
        if sorted(&mine.terms) != sorted(&shipped.terms) {
            problems.push("term records".into());
        }
        if sorted(&mine.parents) != sorted(&shipped.parents) {
            problems.push("parent records".into());
        }
        for k in 0..3 {
            if sorted(&mine.recs[k]) != sorted(&shipped.recs[k]) {
                problems.push(format!("{} records", KINDS[k].name()));
            }
        }
        if !problems.is_empty() {
            // either the harness' reading of the layout or the loader is wrong; both must be looked at
            ctx.violation("Ontology::from_bytes", "independent encoder and the shipped file disagree on the layout of what the loader reports", json!({"file": file, "sections": problems}));
        }
        // and the model of the loaded facts equals what the loader reports (v1/v2 projections)
        let r = RefOnt::derive(&f);
        let case = || json!({"file": file});
        check_against_model(ctx, &ont, &r, Mode::Defaults, &format!("shipped v{version}"), &case);
        ctx.sample(|| json!({"file": file, "format_version": version, "term_records": shipped.terms.len(), "gene_records": shipped.recs[0].len(), "omim_records": shipped.recs[1].len(), "orpha_records": shipped.recs[2].len()}));
    }
}

fn decode_ok(bytes: &[u8]) -> Result<Option<Ontology>, String> {
    // Ok(Some) = returned an ontology, Ok(None) = rejected (Err or documented panic)
    match drive::from_bytes(bytes) {
        Ok(Ok(o)) => Ok(Some(o)),
        Ok(Err(_)) => Ok(None),
        Err(_) => Ok(None),
    }
}

/// Space B for one valid file: every proper prefix, the listed suffixes, every other version byte.
fn faults(ctx: &mut Ctx, bytes: &[u8], version: u8, last_section: &[u8], describe: &dyn Fn() -> serde_json::Value, prefix_stride: usize) {
    let hexd = |b: &[u8]| b.iter().map(|x| format!("{x:02x}")).collect::<String>();
    let mut offsets: Vec<usize> = (0..bytes.len()).step_by(prefix_stride).collect();
    // always include the offsets next to section borders and the end
    for d in 1..=9 {
        if bytes.len() >= d {
            offsets.push(bytes.len() - d);
        }
    }
    offsets.sort_unstable();
    offsets.dedup();
    for cut in offsets {
        ctx.exec();
        ctx.transitions(1);
        let t0 = std::time::Instant::now();
        if let Ok(Some(_)) = decode_ok(&bytes[..cut]) {
            ctx.violation("Ontology::from_bytes", "accepts a proper prefix of a valid file", json!({"file": describe(), "format_version": version, "file_len": bytes.len(), "prefix_len": cut, "bytes_hex": hexd(&bytes[..cut])}));
        }
        if t0.elapsed().as_secs_f64() > 2.0 {
            ctx.violation("Ontology::from_bytes", "takes longer than 2 s on a truncated file", json!({"file": describe(), "prefix_len": cut}));
        }
    }
    let mut suffixes: Vec<(Vec<u8>, &str)> = vec![
        (vec![0], "00"),
        (vec![0xff], "ff"),
        (vec![0; 4], "00 x4 (an empty extra section)"),
        (vec![0; 5], "00 x5"),
        (vec![0; 8], "00 x8 (two empty extra sections)"),
        (b"HPO\x03".to_vec(), "HPO\\x03"),
        (vec![0, 0, 0, 1, 0], "a one-byte extra section"),
    ];
    let mut copy = (last_section.len() as u32).to_be_bytes().to_vec();
    copy.extend_from_slice(last_section);
    suffixes.push((copy, "a copy of the file's last section"));
    for (suf, name) in suffixes {
        ctx.exec();
        ctx.transitions(1);
        let mut b = bytes.to_vec();
        b.extend_from_slice(&suf);
        if let Ok(Some(_)) = decode_ok(&b) {
            ctx.violation("Ontology::from_bytes", "accepts a valid file followed by extra bytes", json!({"file": describe(), "format_version": version, "file_len": bytes.len(), "suffix": name, "bytes_hex": hexd(&b)}));
        }
    }
    if version == 1 {
        // a headerless v1 body behind a header announcing any version other than 2 and 3 (in particular 1,
        // which has no header form) is a file announcing an unsupported version
        for vb in 0..=255u8 {
            if vb == 2 || vb == 3 {
                continue;
            }
            ctx.exec();
            ctx.transitions(1);
            let mut b = b"HPO".to_vec();
            b.push(vb);
            b.extend_from_slice(bytes);
            if let Ok(Some(_)) = decode_ok(&b) {
                ctx.violation("Ontology::from_bytes", "accepts a file announcing an unsupported version", json!({"file": describe(), "layout": "v1 body behind an HPO header", "version_byte": vb, "bytes_hex": hexd(&b)}));
            }
        }
    }
    if version >= 2 {
        for vb in 0..=255u8 {
            if vb == version {
                continue;
            }
            ctx.exec();
            ctx.transitions(1);
            let mut b = bytes.to_vec();
            b[3] = vb;
            if let Ok(Some(_)) = decode_ok(&b) {
                let sig = if vb == 2 || vb == 3 { "accepts a file whose version byte was swapped between 2 and 3 (it is then a truncated / extended file of the other layout)" } else { "accepts a file announcing an unsupported version" };
                ctx.violation("Ontology::from_bytes", sig, json!({"file": describe(), "format_version": version, "version_byte": vb, "bytes_hex": hexd(&b)}));
            }
        }
    }
}

pub fn run(ctx: &mut Ctx) {
    let thorough = ctx.tier.thorough();
    ctx.rule = "conformance: case = (fact set, format version) encoded by the independent encoder in all record orders (one section permuted at a time) and with the ids inside records reversed; faults: case = one valid file with every proper prefix, every listed suffix, every other version byte; distinct by construction; non-trivial = file with at least one record in three sections".into();
    ctx.assumptions = vec![
        "the independent encoder is trusted only after reproducing the records of the three shipped example files byte for byte (first space)".into(),
        "rejected = Err or panic (the decoder documents that it may panic on malformed input); a hang is reported separately".into(),
        "record ids are unique inside a section; replacement ids name existing terms; names <= 255 bytes".into(),
    ];
    validate_encoder(ctx);

    let mut family = format_family(4, if thorough { 1 } else { 4 });
    // names at the size limits of the format: term names of 246 / 247 / 254 / 255 bytes, a 255-byte gene name,
    // a 300-byte disease name (the name length of diseases is a u32)
    for (i, len) in [246usize, 247, 248, 254, 255].iter().enumerate() {
        let mut f = Facts::default();
        f.version = (2024, 2, 29);
        f.terms = vec![Facts::term(1, "All"), Facts::term(118, &"P".repeat(*len)), Facts::term(200 + i as u32, &format!("{}\u{e9}", "n".repeat(len - 2)))];
        f.edges = vec![(118, 1), (200 + i as u32, 118)];
        f.anns = vec![
            Facts::ann(crate::model::Kind::Gene, 11, &"G".repeat(255), Some(118)),
            Facts::ann(crate::model::Kind::Omim, 600_001, &"D".repeat(300), Some(200 + i as u32)),
            Facts::ann(crate::model::Kind::Orpha, 77, &"O".repeat(256), Some(1)),
        ];
        family.push((f, format!("term names of {len} bytes, 255-byte gene name, 300-byte disease name")));
    }
    // ---- Space A: conformance in all record orders
    ctx.space("conformance/v1-v3/record-orders", &format!("{} fact sets x versions 1,2,3; term records: all orders; parent records: all orders; gene/omim/orpha records: all orders; ids inside records reversed; parentless terms without parent record; the canonical file also through Ontology::from_binary (whole, cut in half, one byte short)", family.len()));
    for (f, what) in &family {
        for version in [1u8, 2, 3] {
            if !ctx.take() {
                continue;
            }
            ctx.state();
            let pf = encode::project(f, version);
            let r = RefOnt::derive(&pf);
            let secs = Sections::from_facts(&pf, &EncOpts::v(version));
            if !secs.recs[0].is_empty() && !secs.recs[1].is_empty() && secs.parents.len() > 1 {
                ctx.nontrivial();
            }
            let mut variants: Vec<(Sections, String)> = vec![(secs.clone(), "canonical".into())];
            for p in permutations(secs.terms.len()).into_iter().skip(1) {
                variants.push((Sections { terms: apply_perm(&secs.terms, &p), ..secs.clone() }, format!("term records {p:?}")));
            }
            for p in permutations(secs.parents.len()).into_iter().skip(1) {
                variants.push((Sections { parents: apply_perm(&secs.parents, &p), ..secs.clone() }, format!("parent records {p:?}")));
            }
            for k in 0..3 {
                for p in permutations(secs.recs[k].len()).into_iter().skip(1) {
                    let mut x = secs.clone();
                    x.recs[k] = apply_perm(&secs.recs[k], &p);
                    variants.push((x, format!("{} records {p:?}", KINDS[k].name())));
                }
            }
            let mut g = pf.clone();
            g.edges.reverse();
            g.anns.reverse();
            variants.push((Sections::from_facts(&g, &EncOpts::v(version)), "ids inside records reversed".into()));
            let mut o = EncOpts::v(version);
            o.omit_empty_parent_records = true;
            variants.push((Sections::from_facts(&pf, &o), "no parent record for parentless terms".into()));
            for (x, order) in variants {
                ctx.transitions(pf.n_steps());
                let bytes = x.to_bytes();
                let case = || json!({"facts": pf.to_json(), "family": what, "format_version": version, "record_order": order, "bytes_hex": bytes.iter().map(|b| format!("{b:02x}")).collect::<String>()});
                match drive::from_bytes(&bytes) {
                    Ok(Ok(ont)) => {
                        check_against_model(ctx, &ont, &r, Mode::Defaults, &format!("binary v{version}"), &case);
                    }
                    Ok(Err(e)) => {
                        ctx.exec();
                        ctx.violation("Ontology::from_bytes", &format!("[binary v{version}] rejects a file laid out as documented"), json!({"case": case(), "observed": e}));
                    }
                    Err(p) => {
                        ctx.exec();
                        ctx.violation("Ontology::from_bytes", &format!("[binary v{version}] panics on a file laid out as documented"), json!({"case": case(), "observed": p}));
                    }
                }
            }
            // the file-based twin: the canonical bytes written to a file and read with Ontology::from_binary, and
            // the same file cut off in the middle / one byte short (must be refused like the byte slice)
            {
                let bytes = secs.to_bytes();
                let dir = crate::jax::scratch();
                let path = format!("{dir}/conformance.hpo");
                let case = || json!({"facts": pf.to_json(), "family": what, "format_version": version, "entry_point": "Ontology::from_binary(path)"});
                if std::fs::write(&path, &bytes).is_ok() {
                    ctx.transitions(pf.n_steps());
                    match crate::ctx::guard(|| hpo::Ontology::from_binary(&path).map_err(|e| e.to_string())) {
                        Ok(Ok(ont)) => {
                            check_against_model(ctx, &ont, &r, Mode::Defaults, &format!("binary v{version} from a file"), &case);
                        }
                        Ok(Err(e)) => {
                            ctx.exec();
                            ctx.violation("Ontology::from_binary", &format!("[binary v{version} from a file] rejects a file laid out as documented"), json!({"case": case(), "observed": e}));
                        }
                        Err(p) => {
                            ctx.exec();
                            ctx.violation("Ontology::from_binary", &format!("[binary v{version} from a file] panics on a file laid out as documented"), json!({"case": case(), "observed": p}));
                        }
                    }
                    for cut in [bytes.len() / 2, bytes.len() - 1] {
                        if std::fs::write(&path, &bytes[..cut]).is_ok() {
                            ctx.exec();
                            ctx.validated();
                            if let Ok(Ok(_)) = crate::ctx::guard(|| hpo::Ontology::from_binary(&path).map_err(|e| e.to_string())) {
                                ctx.violation("Ontology::from_binary", "returns an ontology for a truncated file", json!({"case": case(), "kept_bytes": cut, "of": bytes.len()}));
                            }
                        }
                    }
                    let _ = std::fs::remove_file(&path);
                }
            }
            ctx.sample(|| json!({"facts": pf.to_json(), "format_version": version, "family": what}));
        }
    }
    crate::jax::cleanup();

    // ---- Space B: faults
    ctx.space("faults/generated-files", &format!("{} generated files x versions 1,2,3: every proper prefix 0..len-1, 8 suffixes, every other version byte", family.len()));
    for (f, what) in &family {
        for version in [1u8, 2, 3] {
            if !ctx.take() {
                continue;
            }
            ctx.state();
            let pf = encode::project(f, version);
            let secs = Sections::from_facts(&pf, &EncOpts::v(version));
            if !secs.recs[0].is_empty() && !secs.recs[1].is_empty() && secs.parents.len() > 1 {
                ctx.nontrivial();
            }
            let bytes = secs.to_bytes();
            // the file itself must be accepted, otherwise the fault sweep would be vacuous
            ctx.validated();
            match decode_ok(&bytes) {
                Ok(Some(_)) => {}
                _ => {
                    ctx.violation("Ontology::from_bytes", &format!("[binary v{version}] rejects a file laid out as documented"), json!({"facts": pf.to_json()}));
                    continue;
                }
            }
            let last = if version >= 3 { secs.recs[2].concat() } else { secs.recs[1].concat() };
            let describe = || json!({"facts": pf.to_json(), "family": what});
            faults(ctx, &bytes, version, &last, &describe, 1);
            ctx.outcome(crate::ctx::fnv(&bytes) % 65536);
            ctx.sample(|| json!({"facts": pf.to_json(), "format_version": version, "file_len": bytes.len(), "faults": bytes.len() + 8 + if version >= 2 { 255 } else { 0 }}));
        }
    }

    // ---- shipped files: every offset of example.hpo (thorough), strided in quick
    ctx.space("faults/shipped-files", "tests/example.hpo, example_v2.hpo, example_v1.hpo: prefixes (quick: every 97th offset and the last 9; thorough: every offset), suffixes, version bytes");
    for (file, version) in [("/repo/tests/example.hpo", 3u8), ("/repo/tests/example_v2.hpo", 2), ("/repo/tests/example_v1.hpo", 1)] {
        let bytes = std::fs::read(file).unwrap_or_else(|e| panic!("cannot read {file}: {e}"));
        let chunks = 16usize;
        for c in 0..chunks {
            if !ctx.take() {
                continue;
            }
            ctx.state();
            ctx.nontrivial();
            let secs = Sections::split(&bytes).expect("shipped file splits");
            let last = if version >= 3 { secs.recs[2].concat() } else { secs.recs[1].concat() };
            let lo = bytes.len() * c / chunks;
            let hi = bytes.len() * (c + 1) / chunks;
            let stride = if thorough { 1 } else { 97 };
            let describe = || json!({"file": file});
            // prefixes of this chunk
            for cut in (lo..hi).step_by(stride) {
                ctx.exec();
                ctx.transitions(1);
                if let Ok(Some(_)) = decode_ok(&bytes[..cut]) {
                    ctx.violation("Ontology::from_bytes", "accepts a proper prefix of a valid file", json!({"file": file, "file_len": bytes.len(), "prefix_len": cut}));
                }
            }
            if c == chunks - 1 {
                // suffixes, version bytes and the last offsets once per file
                faults(ctx, &bytes, version, &last, &describe, bytes.len().max(1));
            }
            ctx.sample(|| json!({"file": file, "offsets": [lo, hi], "stride": stride}));
        }
    }
    if !thorough {
        ctx.mark_partial("shipped files: quick tier truncates at every 97th offset (every offset in the thorough tier)");
    }
}
