//! C03 - information content equals -ln(n/N) for each annotation kind.

use super::c01::POOL;
use super::c02::ann_groups;
use crate::ctx::{guard, Ctx};
use crate::drive;
use crate::model::{ic_value, Facts, Kind, Mode, RefOnt, KINDS};
use crate::obs::{close_ic, kind_fn, ulp32, Obs};
use crate::space::all_dags;
use hpo::term::InformationContent;
use serde_json::json;

/// Beyond the documented limit (N > 65 535) the comparison grants what any f32 evaluation of -ln(n/N) needs, and nothing
/// else: ln N - ln n is quantised to one unit in the last place of ln N per operand, the quotient form to a few units in
/// the last place of the value - the band is 2 ulp(ln N) + 4 ulp(value), the same as `close_ic` inside the limit. There is
/// no constant floor (a floor of 2e-6 would let a small value - n close to N - be off by a visible fraction), and
/// n = N is 0 in every evaluation (N/N = 1 and ln N - ln N = 0 exactly), so it is demanded exactly.
fn close_beyond(v: f32, want: f64, total: usize) -> bool {
    if !v.is_finite() || v < 0.0 {
        return false;
    }
    if want == 0.0 {
        return v == 0.0;
    }
    let ln_total = (total.max(2) as f64).ln() as f32;
    ((v as f64) - want).abs() <= 2.0 * ulp32(ln_total) as f64 + 4.0 * ulp32(want as f32) as f64
}

/// Strict, tolerance-free part of the property on one observed ontology.
fn strict(ctx: &mut Ctx, obs: &Obs, r: &RefOnt, case: &dyn Fn() -> serde_json::Value) {
    for t in &obs.terms {
        for k in KINDS {
            let v = t.ic[k.idx()];
            if !v.is_finite() || v < 0.0 {
                ctx.violation(&format!("InformationContent::{}", kind_fn(k)), "information content negative or not finite", json!({"case": case(), "difference": format!("term {}: {}", t.id, v)}));
                return;
            }
            let n = r.terms[&t.id].recs[k.idx()].len();
            let total = r.recs[k.idx()].len();
            if (n == 0 || total == 0) && v != 0.0 {
                ctx.violation(&format!("InformationContent::{}", kind_fn(k)), "information content not 0 although n or N is 0", json!({"case": case(), "difference": format!("term {}: {} (n={n}, N={total})", t.id, v)}));
                return;
            }
        }
    }
    // never decreases from an ancestor to a descendant among annotated terms
    for t in &obs.terms {
        for k in KINDS {
            if r.terms[&t.id].recs[k.idx()].is_empty() {
                continue;
            }
            for p in &t.ancestors {
                let Some(pic) = obs.terms.iter().find(|x| x.id == *p).map(|x| x.ic[k.idx()]) else {
                    // (an ancestor id that is no term of the ontology is C01's finding; here it only means that this
                    // pair cannot be compared - counted, not silent)
                    ctx.bump("skipped: monotonicity of the information content, reported ancestor is not a term of the ontology", 1);
                    continue;
                };
                // (strict: the values of an ancestor and a descendant are -ln of n'/N and n/N with n' >= n, evaluated by
                // the same monotone function)
                if pic > t.ic[k.idx()] {
                    ctx.violation(&format!("InformationContent::{}", kind_fn(k)), "information content decreases from ancestor to descendant", json!({"case": case(), "difference": format!("ancestor {}: {} > descendant {}: {}", p, pic, t.id, t.ic[k.idx()])}));
                    return;
                }
            }
        }
    }
}

fn lattice(ctx: &mut Ctx, max_total: usize) {
    ctx.space("setters/all-(N,n)", &format!("InformationContent::set_gene/set_omim_disease/set_orpha_disease(N, n) for all 0 <= n <= N <= {max_total}; one case per N"));
    // (a violation ends the case of this N only: every worker keeps numbering the cases of the space and goes on to the
    // spaces below - leaving the function here would turn the finding into an enumeration mismatch between the workers)
    'totals: for total in 0..=max_total {
        if !ctx.take() {
            continue;
        }
        ctx.state();
        let mut prev = [f32::INFINITY; 3];
        for n in 0..=total {
            ctx.exec();
            ctx.validated();
            ctx.transitions(3);
            if n > 0 && n < total {
                ctx.nontrivial();
            }
            let got = guard(|| {
                let mut ic = InformationContent::default();
                let a = ic.set_gene(total, n).map_err(|e| e.to_string());
                let b = ic.set_omim_disease(total, n).map_err(|e| e.to_string());
                let c = ic.set_orpha_disease(total, n).map_err(|e| e.to_string());
                (a, b, c, [ic.gene(), ic.omim_disease(), ic.orpha_disease()])
            });
            let want = ic_value(total, n);
            match got {
                Err(p) => {
                    ctx.violation("InformationContent::set_*", "panics", json!({"N": total, "n": n, "observed": p}));
                    continue 'totals;
                }
                Ok((a, b, c, vals)) => {
                    if a.is_err() || b.is_err() || c.is_err() {
                        ctx.violation("InformationContent::set_*", "returns an error for N <= 65535", json!({"N": total, "n": n, "observed": format!("{a:?} {b:?} {c:?}")}));
                        continue 'totals;
                    }
                    for k in KINDS {
                        let v = vals[k.idx()];
                        if !v.is_finite() || v < 0.0 {
                            ctx.violation(&format!("InformationContent::set_{}", kind_fn(k)), "information content negative or not finite", json!({"N": total, "n": n, "observed": v}));
                            continue 'totals;
                        }
                        if !close_ic(v, want, total) {
                            ctx.violation(&format!("InformationContent::set_{}", kind_fn(k)), "information content is not -ln(n/N)", json!({"N": total, "n": n, "observed": v, "expected": want}));
                            continue 'totals;
                        }
                        if (n == 0 || total == 0) && v != 0.0 {
                            ctx.violation(&format!("InformationContent::set_{}", kind_fn(k)), "information content not 0 although n or N is 0", json!({"N": total, "n": n, "observed": v}));
                            continue 'totals;
                        }
                        // more annotations never raise the information content (n >= 1)
                        if n >= 1 {
                            if n >= 2 && v > prev[k.idx()] {
                                ctx.violation(&format!("InformationContent::set_{}", kind_fn(k)), "information content increases with n", json!({"N": total, "n": n, "observed": v, "previous": prev[k.idx()]}));
                                continue 'totals;
                            }
                            prev[k.idx()] = v;
                        }
                    }
                    ctx.outcome(vals[0].to_bits() as u64);
                }
            }
        }
        if total == 7 {
            ctx.sample(|| json!({"N": total, "n": "0..=7", "kinds": ["gene", "omim", "orpha"]}));
        }
    }
    ctx.space("setters/u16-border", "N in {65534, 65535} accepted with n in {1, N/2, N-1, N}; N in {65536, 65537, 70000, 90000, 100000, 2^24, usize::MAX/2} through the setters and 65536 / 70000 genes through the Builder: refused (documented; by whichever call) or -ln(n/N); 40000 and 65535 genes through the Builder (counts above 2^15): must build and be -ln(n/N)");
    for (total, n) in [(65534usize, 1usize), (65534, 32767), (65534, 65533), (65534, 65534), (65535, 1), (65535, 32768), (65535, 65534), (65535, 65535)] {
        if !ctx.take() {
            continue;
        }
        ctx.state();
        ctx.exec();
        ctx.validated();
        ctx.nontrivial();
        ctx.transitions(3);
        let got = guard(|| {
            let mut ic = InformationContent::default();
            let r = ic.set_gene(total, n).and_then(|_| ic.set_omim_disease(total, n)).and_then(|_| ic.set_orpha_disease(total, n)).map_err(|e| e.to_string());
            (r, [ic.gene(), ic.omim_disease(), ic.orpha_disease()])
        });
        let want = ic_value(total, n);
        match got {
            Ok((Ok(()), vals)) if vals.iter().all(|v| close_ic(*v, want, total) && *v >= 0.0) => {}
            other => ctx.violation("InformationContent::set_*", "wrong value at the u16 border", json!({"N": total, "n": n, "observed": format!("{other:?}"), "expected": want})),
        }
        ctx.sample(|| json!({"N": total, "n": n}));
    }
    // beyond the documented limit a setter may refuse (that is what the crate documents); a value it does
    // hand out must still be -ln(n/N)
    for (total, n) in [(65536usize, 1usize), (65536, 32768), (65536, 65535), (65536, 65536), (65537, 2), (70000, 69990), (90000, 30000), (100_000, 1), (1 << 24, 1 << 23), (usize::MAX / 2, 3)] {
        if !ctx.take() {
            continue;
        }
        ctx.state();
        ctx.exec();
        ctx.validated();
        ctx.nontrivial();
        ctx.transitions(3);
        let got = guard(|| {
            let mut out = vec![];
            let mut ic = InformationContent::default();
            out.push(ic.set_gene(total, n).map(|_| ic.gene()).map_err(|e| e.to_string()));
            out.push(ic.set_omim_disease(total, n).map(|_| ic.omim_disease()).map_err(|e| e.to_string()));
            out.push(ic.set_orpha_disease(total, n).map(|_| ic.orpha_disease()).map_err(|e| e.to_string()));
            out
        });
        let want = -((n as f64) / (total as f64)).ln();
        match got {
            Ok(rs) => {
                for r in rs {
                    match r {
                        Ok(v) => {
                            ctx.bump("accepted: InformationContent::set_* with N > 65535 (documented limit), value checked", 1);
                            if !close_beyond(v, want, total) {
                                ctx.violation("InformationContent::set_*", "hands out a value that is not -ln(n/N) beyond the u16 border (refusing would be fine)", json!({"N": total, "n": n, "observed": v, "expected": want}));
                                break;
                            }
                        }
                        Err(_) => ctx.bump("refused: InformationContent::set_* with N > 65535 (documented limit)", 1),
                    }
                }
            }
            Err(p) => ctx.violation("InformationContent::set_*", "panics beyond the u16 border", json!({"N": total, "n": n, "observed": p})),
        }
        ctx.sample(|| json!({"N": total, "n": n, "beyond_documented_limit": true}));
    }
    // the same through the Builder: 40 000 and 65 535 genes (inside the documented limit: must build, and the counts
    // 39 990 / 65 525 lie beyond every 15-bit quantity) and 65 536 / 70 000 genes (beyond it: the build may refuse -
    // in whichever call - or must be right), all but ten of them on the lower of two terms
    for total in [40_000u32, 65_535, 65_536, 70_000] {
        if !ctx.take() {
            continue;
        }
        ctx.state();
        ctx.exec();
        ctx.validated();
        ctx.nontrivial();
        ctx.transitions(total as u64 + 4);
        let beyond = total > 65_535;
        // Ok(None): refused by a call that returns an error
        let res = guard(|| -> Result<Option<[f32; 2]>, String> {
            use hpo::builder::Builder;
            let mut b = Builder::new();
            b.new_term("All", 1u32);
            b.new_term("Lower", 2u32);
            let mut b = b.terms_complete();
            b.add_parent(1u32, 2u32).map_err(|e| e.to_string())?;
            let mut b = b.connect_all_terms();
            for g in 0..total {
                let t: u32 = if g < 10 { 1 } else { 2 };
                match b.annotate_gene(g.into(), &format!("G{g}"), t.into()) {
                    Ok(()) => {}
                    // where a build with more than 65 535 genes is refused is open: the 65 536th annotate_gene is as
                    // good a place as calculate_information_content
                    Err(_) if g >= 65_535 => return Ok(None),
                    Err(e) => return Err(format!("annotate_gene({g}, {t}): {e}")),
                }
            }
            match b.calculate_information_content() {
                Err(_) if beyond => Ok(None),
                Err(e) => Err(format!("calculate_information_content: {e}")),
                Ok(b) => {
                    let ont = b.build_minimal();
                    Ok(Some([ont.hpo(1u32).unwrap().information_content().gene(), ont.hpo(2u32).unwrap().information_content().gene()]))
                }
            }
        });
        let want = [0.0f64, -(((total - 10) as f64) / total as f64).ln()];
        match res {
            Ok(Ok(None)) => ctx.bump("refused: Builder with more than 65535 genes (documented limit)", 1),
            Ok(Ok(Some(v))) => {
                for k in 0..2 {
                    if !close_beyond(v[k], want[k], total as usize) {
                        ctx.violation("Builder::calculate_information_content", if beyond { "hands out an ontology whose information content is not -ln(n/N) beyond the u16 border (refusing would be fine)" } else { "information content is not -ln(n/N) with tens of thousands of genes" }, json!({"genes": total, "genes_on_lower_term": total - 10, "observed": v, "expected": want}));
                        break;
                    }
                }
            }
            Ok(Err(e)) => ctx.violation("Builder", "construction fails on valid facts", json!({"genes": total, "observed": e})),
            Err(p) => ctx.violation("Builder::calculate_information_content", if beyond { "panics beyond the u16 border" } else { "panics" }, json!({"genes": total, "observed": p})),
        }
        ctx.sample(|| json!({"genes": total, "beyond_documented_limit": beyond}));
    }
}

pub fn run(ctx: &mut Ctx) {
    ctx.rule = "ontology part: case = (labelled DAG, annotated subset S[, emptied kind]) with totals 6 genes / 3 OMIM / 5 ORPHA (text path, which cannot carry bare records: 4 / 2 / 3); setter part: case = one N with every n <= N; distinct by construction; non-trivial = some annotated term has ancestors, resp. 0 < n < N".into();
    ctx.assumptions = vec![
        "f32 values compared against -ln(n/N) computed in f64 within 2 ulp(ln N) + 4 ulp(value) (what any f32 evaluation of the formula needs; no constant absolute band, also beyond N = 65 535); an expected 0 (n = 0, N = 0 or n = N), sign, finiteness and monotonicity strictly".into(),
        "N <= 65535 (documented limit of the f32 conversion)".into(),
    ];
    // 1. the whole C02 exploration: every path's observation includes the three information contents
    super::c02::explore(ctx, "ic");

    // 2. each kind emptied in turn, and one term linked to all records; strict checks
    let thorough = ctx.tier.thorough();
    let max_n = if thorough { 5 } else { 4 };
    for n in 1..=max_n {
        let dags = all_dags(n);
        ctx.space(&format!("strict/builder/D{n}/emptied-kinds"), &format!("{} labelled DAGs x 2^{n} subsets x (all kinds | no genes | no OMIM | no ORPHA | every record on every term); Builder, and (n >= 3) the decoder", dags.len()));
        for d in &dags {
            for s in 0..(1u32 << n) {
                if !ctx.take() {
                    continue;
                }
                ctx.state();
                if (0..d.n).any(|i| s >> i & 1 == 1 && d.parents[i] != 0) {
                    ctx.nontrivial();
                }
                let base = Facts::from_dag(d, &POOL);
                let ids: Vec<u32> = base.terms.iter().map(|t| t.id).collect();
                let groups = ann_groups(s, &ids);
                let full = groups.interleaved();
                let mut variants: Vec<(Vec<crate::model::AnnFact>, String)> = vec![(full.clone(), "all kinds".into())];
                for k in KINDS {
                    variants.push((full.iter().filter(|a| a.kind != k).cloned().collect(), format!("no {} records", k.name())));
                }
                // every record annotated to every term of S as well (a term linked to all records: n = N)
                let mut all_on: Vec<crate::model::AnnFact> = full.clone();
                for i in 0..n {
                    if s >> i & 1 == 1 {
                        for rec in [super::common::G1, super::common::G2, super::common::O1, super::common::R1, super::common::R2] {
                            all_on.push(Facts::ann(rec.0, rec.1, rec.2, Some(ids[i])));
                        }
                        for b in &groups.bare {
                            all_on.push(Facts::ann(b.kind, b.id, &b.name, Some(ids[i])));
                        }
                    }
                }
                variants.push((all_on, "every record also on every term of S".into()));
                for (anns, what) in variants {
                    let f = Facts { anns, ..base.clone() };
                    let r = RefOnt::derive(&f);
                    ctx.transitions(f.n_steps());
                    match drive::build(&f, Mode::Minimal) {
                        Err(e) => {
                            ctx.exec();
                            ctx.violation("Builder", "[builder] construction fails on valid facts", json!({"case": f.to_json(), "observed": e}));
                        }
                        Ok(ont) => {
                            let case = || json!({"facts": f.to_json(), "variant": what, "rust": f.to_rust(false)});
                            if let Some(obs) = drive::check_against_model(ctx, &ont, &r, Mode::Minimal, "builder", &case) {
                                strict(ctx, &obs, &r, &case);
                            }
                        }
                    }
                    // the same variant through the decoder (needs both root terms: n >= 3 with this id pool)
                    if ids.contains(&1) && ids.contains(&118) {
                        let mut g = f.clone();
                        g.version = (2024, 2, 29);
                        let rg = RefOnt::derive(&g);
                        ctx.transitions(g.n_steps());
                        let case = || json!({"facts": g.to_json(), "variant": what});
                        match drive::from_bytes(&crate::encode::encode(&g, &crate::encode::EncOpts::v(3))) {
                            Ok(Ok(ont)) => {
                                if let Some(obs) = drive::check_against_model(ctx, &ont, &rg, Mode::Defaults, "binary v3", &case) {
                                    strict(ctx, &obs, &rg, &case);
                                }
                            }
                            other => {
                                ctx.exec();
                                ctx.violation("Ontology::from_bytes", "[binary v3] rejects or panics on a file laid out as documented", json!({"case": case(), "observed": format!("{:?}", other.map(|r| r.map(|_| ())))}));
                            }
                        }
                    }
                }
                ctx.sample(|| json!({"dag": d.describe(), "ids": ids, "S": crate::space::bits(s, n), "variants": 5}));
            }
        }
    }

    // 3. the setters on the full (N, n) lattice
    // 3. through the Builder: counts sweeping across every power of two (a chain of 12 terms whose linked record
    // counts are P-5 .. P+6 out of N = P+6 records), for the three kinds with different P per kind, and through
    // the decoder - the setter lattice covers (N, n) arithmetic, this covers the ontology-level computation
    {
        let powers: Vec<u32> = if thorough { vec![16, 32, 64, 128, 256, 512, 1024, 2048, 4096, 8192] } else { vec![32, 256, 1024, 2048] };
        ctx.space("counts-across-powers-of-two", &format!("P in {powers:?}: chain of 12 terms below HP:118, term j carries P-5+j .. records of a kind (genes: P, OMIM: 2P or P/2, ORPHA: P+-3), N = P+6 (resp.); Builder and decoder; every term's information content = -ln(n/N), monotone along the chain"));
        for (pi, &p) in powers.iter().enumerate() {
            if !ctx.take() {
                continue;
            }
            ctx.state();
            ctx.nontrivial();
            let mut f = Facts::default();
            f.version = (2024, 2, 29);
            f.terms.push(Facts::term(1, "All"));
            f.terms.push(Facts::term(118, "Phenotypic abnormality"));
            f.edges.push((118, 1));
            // chain: 200 is the top (child of 118) ... 211 the bottom; records on the bottom reach every term above
            for j in 0..12u32 {
                f.terms.push(Facts::term(200 + j, &format!("C{j}")));
                f.edges.push((200 + j, if j == 0 { 118 } else { 200 + j - 1 }));
            }
            // per kind: base power and total; term 200+j (j = 0 top) must end up with total - j records
            let layouts = [(crate::model::Kind::Gene, p), (crate::model::Kind::Omim, if pi % 2 == 0 { 2 * p } else { (p / 2).max(8) }), (crate::model::Kind::Orpha, if pi % 2 == 0 { p + 3 } else { p.saturating_sub(3).max(8) })];
            for (kind, base) in layouts {
                let total = base + 6;
                // record r (0-based) sits on chain position min(r, 11) counted from the top... records 0..total-12 on the bottom term
                for rcd in 0..total {
                    let depth = if rcd < total - 11 { 11 } else { total - 1 - rcd }; // the last 11 records sit one level higher each
                    f.anns.push(Facts::ann(kind, rcd, "R", Some(200 + depth)));
                }
            }
            let r = RefOnt::derive(&f);
            ctx.transitions(2 * f.n_steps());
            let case = || json!({"power_of_two": p, "layout": "chain 200..211 below HP:118; per kind N = base + 6 records, the bottom term carries N - 11 of them, each term above one more"});
            match drive::build(&f, Mode::Defaults) {
                Ok(ont) => {
                    if let Some(obs) = drive::check_against_model(ctx, &ont, &r, Mode::Defaults, "builder", &case) {
                        strict(ctx, &obs, &r, &case);
                    }
                }
                Err(e) => ctx.violation("Builder", "[builder] construction fails on valid facts", json!({"case": case(), "observed": e})),
            }
            match drive::from_bytes(&crate::encode::encode(&f, &crate::encode::EncOpts::v(3))) {
                Ok(Ok(ont)) => {
                    drive::check_against_model(ctx, &ont, &r, Mode::Defaults, "binary v3", &case);
                }
                other => ctx.violation("Ontology::from_bytes", "[binary v3] rejects a file laid out as documented", json!({"case": case(), "observed": format!("{:?}", other.map(|r| r.map(|_| ())))})),
            }
            ctx.sample(|| json!({"power_of_two": p, "records": {"gene": layouts[0].1 + 6, "omim": layouts[1].1 + 6, "orpha": layouts[2].1 + 6}}));
        }
    }
    // 4. EVERY count once: a staircase under HP:118 - leaf i carries the records i..N, so the leaves have
    // n = N, N-1, ..., 1 (genes N = 1100, OMIM N = 600, ORPHA N = 300; thorough 2100 / 1100 / 600)
    {
        let sizes: [(crate::model::Kind, u32); 3] = if thorough { [(Kind::Gene, 2100), (Kind::Omim, 1100), (Kind::Orpha, 600)] } else { [(Kind::Gene, 1100), (Kind::Omim, 600), (Kind::Orpha, 300)] };
        ctx.space("every-count-staircase", &format!("leaves below HP:118, leaf i annotated with the records i..N of a kind: every n in 1..=N occurs for N = {:?}; Builder; every term's information content against -ln(n/N)", sizes.iter().map(|s| s.1).collect::<Vec<_>>()));
        if ctx.take() {
            ctx.state();
            ctx.nontrivial();
            let mut f = Facts::default();
            f.terms.push(Facts::term(1, "All"));
            f.terms.push(Facts::term(118, "Phenotypic abnormality"));
            f.edges.push((118, 1));
            let nmax = sizes.iter().map(|s| s.1).max().unwrap();
            for i in 1..=nmax {
                f.terms.push(Facts::term(10_000 + i, "leaf"));
                f.edges.push((10_000 + i, 118));
            }
            for (kind, total) in sizes {
                for rec in 1..=total {
                    for leaf in 1..=rec {
                        f.anns.push(Facts::ann(kind, rec, "R", Some(10_000 + leaf)));
                    }
                }
            }
            ctx.transitions(f.n_steps());
            ctx.exec();
            ctx.validated();
            // direct oracle (the generic model would hold ~10^6 set entries): n of leaf i is N - i + 1 (0 beyond N)
            match drive::build(&f, Mode::Minimal) {
                Err(e) => ctx.violation("Builder", "[builder] construction fails on valid facts", json!({"layout": "every-count staircase", "observed": e})),
                Ok(ont) => {
                    let res = guard(|| -> Option<(String, String)> {
                        for (kind, total) in sizes {
                            for i in 1..=nmax {
                                let t = ont.hpo(10_000 + i).unwrap();
                                let n = if i <= total { (total - i + 1) as usize } else { 0 };
                                let want = ic_value(total as usize, n);
                                let got = match kind {
                                    Kind::Gene => t.information_content().gene(),
                                    Kind::Omim => t.information_content().omim_disease(),
                                    Kind::Orpha => t.information_content().orpha_disease(),
                                };
                                if !(got.is_finite() && got >= 0.0 && close_ic(got, want, total as usize)) {
                                    return Some((format!("InformationContent::{}", kind_fn(kind)), format!("leaf {i}: n = {n}, N = {total}: observed {got} expected {want}")));
                                }
                            }
                            for top in [118u32, 1] {
                                let t = ont.hpo(top).unwrap();
                                let got = match kind {
                                    Kind::Gene => t.information_content().gene(),
                                    Kind::Omim => t.information_content().omim_disease(),
                                    Kind::Orpha => t.information_content().orpha_disease(),
                                };
                                // (n = N > 0: N/N is 1 and ln N - ln N is 0 in every floating-point evaluation: exactly 0)
                                if !(got >= 0.0 && got == 0.0) {
                                    return Some((format!("InformationContent::{}", kind_fn(kind)), format!("HP:{top} is linked to all {total} records: observed {got} expected 0")));
                                }
                            }
                        }
                        None
                    });
                    match res {
                        Ok(None) => {}
                        Ok(Some((site, det))) => ctx.violation(&site, "[every-count staircase] information content is not -ln(n/N)", json!({"layout": "leaf i carries records i..N", "difference": det})),
                        Err(p) => ctx.violation("HpoTerm::information_content", "[every-count staircase] panics", json!({"observed": p})),
                    }
                }
            }
            ctx.sample(|| json!({"N per kind": sizes.iter().map(|s| s.1).collect::<Vec<_>>()}));
        }
    }
    // 4b. more terms than any pre-sized table or 16-bit term index holds (the term arena is created for 18 000 terms):
    // a flat ontology whose records sit on the first leaf, on the leaves around arena position 18 000 (thorough: and
    // 65 536) and on the LAST leaves in supply order; every term's information content, annotated or not
    {
        let t_count: u32 = if thorough { 70_000 } else { 20_000 };
        let mut marked: Vec<u32> = vec![1, 17_997, 17_998, 17_999, 18_000, t_count - 1, t_count];
        if thorough {
            marked.extend([65_533, 65_534, 65_535, 65_536, 65_537]);
        }
        marked.sort_unstable();
        ctx.space("many-terms", &format!("HP:1, HP:118 and {t_count} leaves supplied in ascending order; one gene on each of the leaves {marked:?}; OMIM 1 on the last leaf, OMIM 2 on the first and the last, OMIM 3 bare; ORPHA 1 on the last but one leaf, ORPHA 2 on every 1000th; Builder and binary v3: the information content of EVERY term against -ln(n/N)"));
        for path in ["builder", "binary v3"] {
            if !ctx.take() {
                continue;
            }
            ctx.state();
            ctx.nontrivial();
            ctx.exec();
            ctx.validated();
            let mut f = Facts::default();
            f.version = (2024, 2, 29);
            f.terms.push(Facts::term(1, "All"));
            f.terms.push(Facts::term(118, "Phenotypic abnormality"));
            f.edges.push((118, 1));
            for i in 1..=t_count {
                f.terms.push(Facts::term(10_000 + i, "leaf"));
                f.edges.push((10_000 + i, 118));
            }
            for (j, m) in marked.iter().enumerate() {
                f.anns.push(Facts::ann(Kind::Gene, 1 + j as u32, "G", Some(10_000 + m)));
            }
            f.anns.push(Facts::ann(Kind::Omim, 1, "O1", Some(10_000 + t_count)));
            f.anns.push(Facts::ann(Kind::Omim, 2, "O2", Some(10_001)));
            f.anns.push(Facts::ann(Kind::Omim, 2, "O2", Some(10_000 + t_count)));
            f.anns.push(Facts::ann(Kind::Omim, 3, "O3", None));
            f.anns.push(Facts::ann(Kind::Orpha, 1, "R1", Some(10_000 + t_count - 1)));
            for i in (1000..=t_count).step_by(1000) {
                f.anns.push(Facts::ann(Kind::Orpha, 2, "R2", Some(10_000 + i)));
            }
            ctx.transitions(f.n_steps());
            let built = if path == "builder" { drive::build(&f, Mode::Defaults) } else { drive::from_bytes(&crate::encode::encode(&f, &crate::encode::EncOpts::v(3))).unwrap_or_else(|p| Err(format!("panic: {p}"))) };
            match built {
                Err(e) => ctx.violation(if path == "builder" { "Builder" } else { "Ontology::from_bytes" }, &format!("[{path}] construction fails on valid facts"), json!({"layout": "many terms", "terms": t_count + 2, "observed": e})),
                Ok(ont) => {
                    // direct oracle: (n per kind) of leaf i
                    let counts = |i: u32| -> [usize; 3] { [marked.contains(&i) as usize, (i == t_count) as usize * 2 + (i == 1) as usize, (i == t_count - 1) as usize + (i % 1000 == 0) as usize] };
                    let totals = [marked.len(), 3usize, 2];
                    let res = guard(|| -> Option<(String, String)> {
                        for id in [1u32, 118].into_iter().chain((1..=t_count).map(|i| 10_000 + i)) {
                            let Some(t) = ont.hpo(id) else {
                                return Some(("Ontology::hpo".to_string(), format!("term {id} is missing")));
                            };
                            // (the two top terms are linked to every record that has a term: all but the bare OMIM 3)
                            let n = if id < 10_000 { [marked.len(), 2, 2] } else { counts(id - 10_000) };
                            let ic = t.information_content();
                            for (k, got) in [ic.gene(), ic.omim_disease(), ic.orpha_disease()].into_iter().enumerate() {
                                let want = ic_value(totals[k], n[k]);
                                if !(got.is_finite() && got >= 0.0 && close_ic(got, want, totals[k]) && (n[k] > 0 || got == 0.0)) {
                                    return Some((format!("InformationContent::{}", kind_fn(KINDS[k])), format!("term {id} (position {} of {} in supply order): n = {}, N = {}: observed {got} expected {want}", if id < 10_000 { 0 } else { id - 10_000 + 2 }, t_count + 2, n[k], totals[k])));
                                }
                            }
                        }
                        None
                    });
                    match res {
                        Ok(None) => {}
                        Ok(Some((site, det))) => ctx.violation(&site, &format!("[{path}, many terms] information content is not -ln(n/N)"), json!({"layout": format!("flat ontology with {t_count} leaves, genes on the leaves {marked:?}"), "difference": det})),
                        Err(p) => ctx.violation("HpoTerm::information_content", &format!("[{path}, many terms] panics"), json!({"observed": p})),
                    }
                }
            }
            ctx.sample(|| json!({"terms": t_count + 2, "path": path, "annotated_leaves": marked}));
            crate::ctx::trim_heap();
        }
    }
    // 5. the setters on a sparse grid up to the u16 border: N, n in {2^k - 1, 2^k, 2^k + 1 : k <= 16} and {1, N-1, N}
    {
        ctx.space("setters/sparse-grid", "InformationContent::set_*(N, n) for N, n in {2^k-1, 2^k, 2^k+1 : k <= 16} with n <= N <= 65535, plus n in {1, N-1, N}: exactly -ln(n/N); one case per N");
        let mut grid: Vec<usize> = vec![];
        for k in 0..=16u32 {
            for v in [(1usize << k).wrapping_sub(1), 1usize << k, (1usize << k) + 1] {
                if v >= 1 && v <= 65_535 {
                    grid.push(v);
                }
            }
        }
        for v in [1000usize, 5000, 10_000, 40_000, 65_534] {
            grid.push(v);
        }
        grid.sort_unstable();
        grid.dedup();
        for &total in &grid {
            if !ctx.take() {
                continue;
            }
            ctx.state();
            let mut ns: Vec<usize> = grid.iter().copied().filter(|n| *n <= total).collect();
            ns.extend([1, total.saturating_sub(1).max(1), total]);
            ns.sort_unstable();
            ns.dedup();
            for n in ns {
                ctx.exec();
                ctx.validated();
                ctx.transitions(3);
                if n < total {
                    ctx.nontrivial();
                }
                let got = guard(|| {
                    let mut ic = InformationContent::default();
                    let r = ic.set_gene(total, n).and_then(|_| ic.set_omim_disease(total, n)).and_then(|_| ic.set_orpha_disease(total, n)).map_err(|e| e.to_string());
                    (r, [ic.gene(), ic.omim_disease(), ic.orpha_disease()])
                });
                let want = ic_value(total, n);
                match got {
                    Ok((Ok(()), vals)) if vals.iter().all(|v| close_ic(*v, want, total) && *v >= 0.0) => {}
                    other => ctx.violation("InformationContent::set_*", "value is not -ln(n/N)", json!({"N": total, "n": n, "observed": format!("{other:?}"), "expected": want})),
                }
            }
            ctx.sample(|| json!({"N": total}));
        }
    }
    lattice(ctx, if thorough { 4096 } else { 1024 });
    let _ = Kind::Gene;
}
