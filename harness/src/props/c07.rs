//! C07 - binary serialisation round-trips every ontology.

use super::common::format_family;
use crate::ctx::{guard, Ctx};
use crate::drive;
use crate::encode::{self, EncOpts};
use crate::jax::{self, JaxOpts};
use crate::model::{Facts, Kind, Mode};
use crate::obs::Obs;
use hpo::annotations::AnnotationId;
use hpo::Ontology;
use serde_json::{json, Value};

/// longest prefix of `s` that ends on a character boundary within 255 bytes
fn truncate255(s: &str) -> String {
    let mut n = s.len().min(255);
    while !s.is_char_boundary(n) {
        n -= 1;
    }
    s[..n].to_string()
}

/// the first N_DEV_NAMES entries of `names()` are deviation values of the deviation-bounded spaces; the entries after
/// them are only used by the space `names/limit-inside-a-character`
const N_DEV_NAMES: usize = 13;
/// index standing for the 70 000-byte disease name
const LONG_NAME: usize = usize::MAX;

/// names whose 255-byte limit falls before, inside (every offset) or after a 2-, 3- or 4-byte character:
/// "A" x k + character (+ "tail") for k in 250..=255
fn limit_names() -> Vec<String> {
    let mut v = vec![];
    for k in 250..=255usize {
        for c in ["\u{e9}", "\u{20ac}", "\u{1F600}"] {
            for tail in ["", "tail"] {
                v.push(format!("{}{c}{tail}", "A".repeat(k)));
            }
        }
    }
    v
}

fn names() -> Vec<String> {
    let mut v = dev_names();
    debug_assert_eq!(v.len(), N_DEV_NAMES);
    v.extend(limit_names());
    v
}

fn dev_names() -> Vec<String> {
    vec![
        "Base name".to_string(),
        String::new(),
        "a".to_string(),
        "\u{e9}\u{1F600}".to_string(),
        "A".repeat(255),
        "A".repeat(256),
        format!("{}\u{e9}", "A".repeat(254)),
        format!("{}\u{1F600}", "A".repeat(253)),
        "\u{e9}\u{1F600}".repeat(100),
        format!("{}\u{20ac}{}", "B".repeat(252), "C".repeat(10)),
        // a name that merely LOOKS like a retired term's label (the flag is a separate field)
        "obsolete Foo".to_string(),
        // white space at both ends is part of the name
        " padded ".to_string(),
        " ".to_string(),
    ]
}

#[derive(Clone, Debug)]
struct Spec {
    term_name: usize,
    gene_name: usize,
    omim_name: usize, // index into names, or LONG_NAME = 70_000 byte name
    orpha_name: usize,
    obsolete: bool,
    /// replacement of the extra term: HP:118, HP:1, HP:4242 (absent from the ontology) in the deviation spaces; the
    /// space `flags/replacement-ids` adds ids with non-zero high bytes and the term's own id
    replacement: Option<u32>,
    /// a further plain term below HP:118 with this id (so that a replacement id can name a term that exists)
    also_term: Option<u32>,
    extra_id: u32,
    rec_id: u32,
    rec_terms: u8, // 0, 1, 2 direct terms per record
    kinds_present: [bool; 3],
    version: (u16, u8, u8),
    second_extra: bool,
    same_names: bool,
    obsolete_keeps_link: bool,
}

impl Spec {
    fn base() -> Spec {
        Spec { term_name: 0, gene_name: 0, omim_name: 0, orpha_name: 0, obsolete: false, replacement: None, also_term: None, extra_id: 119, rec_id: 7, rec_terms: 1, kinds_present: [true; 3], version: (2024, 2, 29), second_extra: false, same_names: false, obsolete_keeps_link: false }
    }
    fn facts(&self) -> Facts {
        let nm = names();
        let name_of = |i: usize| -> String { if i < nm.len() { nm[i].clone() } else { "long disease name ".repeat(4000) } };
        let mut f = Facts::default();
        f.version = self.version;
        f.terms.push(Facts::term(1, "All"));
        f.terms.push(Facts::term(118, "Phenotypic abnormality"));
        f.edges.push((118, 1));
        f.terms.push(crate::model::TermFact { id: self.extra_id, name: name_of(self.term_name), obsolete: self.obsolete, replacement: self.replacement });
        if !self.obsolete || self.obsolete_keeps_link {
            f.edges.push((self.extra_id, 118));
        }
        if let Some(id) = self.also_term {
            f.terms.push(Facts::term(id, "Further plain term"));
            f.edges.push((id, 118));
        }
        if self.second_extra {
            f.terms.push(Facts::term(5, "Mode of inheritance"));
            f.edges.push((5, 1));
            f.terms.push(Facts::term(6, "child of modifier"));
            f.edges.push((6, 5));
        }
        let targets: Vec<u32> = match self.rec_terms {
            0 => vec![],
            1 => vec![if self.obsolete { 118 } else { self.extra_id }],
            _ => vec![118, if self.obsolete { 1 } else { self.extra_id }],
        };
        for (k, kind) in [Kind::Gene, Kind::Omim, Kind::Orpha].into_iter().enumerate() {
            if !self.kinds_present[k] {
                continue;
            }
            let name = match kind {
                Kind::Gene => name_of(self.gene_name),
                Kind::Omim => name_of(self.omim_name),
                Kind::Orpha => name_of(self.orpha_name),
            };
            if targets.is_empty() {
                f.anns.push(Facts::ann(kind, self.rec_id, &name, None));
            }
            for t in &targets {
                f.anns.push(Facts::ann(kind, self.rec_id, &name, Some(*t)));
            }
            // a second record of the kind so that sections hold several records
            f.anns.push(Facts::ann(kind, 1000 + k as u32, if self.same_names { &name } else { "Second record" }, Some(118)));
        }
        f.edges.dedup();
        f
    }
    fn needs_flags(&self) -> bool {
        self.obsolete || self.replacement.is_some()
    }
    fn long_names(&self) -> bool {
        let nm = names();
        let l = |i: usize| if i < nm.len() { nm[i].len() } else { 70_000 };
        l(self.term_name) > 255 || l(self.gene_name) > 255
    }
    fn textable(&self) -> bool {
        self.version.0 <= 9999 && self.version.1 <= 99 && self.version.2 <= 99
    }
}

/// the alternative values of every dimension (deviations from the base)
fn deviations() -> Vec<(String, Box<dyn Fn(&mut Spec)>)> {
    let mut v: Vec<(String, Box<dyn Fn(&mut Spec)>)> = vec![];
    for i in 1..N_DEV_NAMES {
        v.push((format!("term name #{i}"), Box::new(move |s: &mut Spec| s.term_name = i)));
        v.push((format!("gene name #{i}"), Box::new(move |s: &mut Spec| s.gene_name = i)));
        v.push((format!("omim name #{i}"), Box::new(move |s: &mut Spec| s.omim_name = i)));
        v.push((format!("orpha name #{i}"), Box::new(move |s: &mut Spec| s.orpha_name = i)));
    }
    v.push(("omim name 70000 bytes".into(), Box::new(move |s: &mut Spec| s.omim_name = LONG_NAME)));
    v.push(("orpha name 70000 bytes".into(), Box::new(move |s: &mut Spec| s.orpha_name = LONG_NAME)));
    v.push(("obsolete".into(), Box::new(|s: &mut Spec| s.obsolete = true)));
    v.push(("replacement -> HP:118".into(), Box::new(|s: &mut Spec| s.replacement = Some(118))));
    v.push(("replacement -> HP:1".into(), Box::new(|s: &mut Spec| s.replacement = Some(1))));
    v.push(("replacement -> HP:4242 (absent from the ontology)".into(), Box::new(|s: &mut Spec| s.replacement = Some(4242))));
    v.push(("extra id 0".into(), Box::new(|s: &mut Spec| s.extra_id = 0)));
    v.push(("extra id 2".into(), Box::new(|s: &mut Spec| s.extra_id = 2)));
    v.push(("extra id 9999999".into(), Box::new(|s: &mut Spec| s.extra_id = 9_999_999)));
    v.push(("record id 1".into(), Box::new(|s: &mut Spec| s.rec_id = 1)));
    v.push(("record id u32::MAX".into(), Box::new(|s: &mut Spec| s.rec_id = u32::MAX)));
    v.push(("records without terms".into(), Box::new(|s: &mut Spec| s.rec_terms = 0)));
    v.push(("records with two terms".into(), Box::new(|s: &mut Spec| s.rec_terms = 2)));
    v.push(("no genes".into(), Box::new(|s: &mut Spec| s.kinds_present[0] = false)));
    v.push(("no omim".into(), Box::new(|s: &mut Spec| s.kinds_present[1] = false)));
    v.push(("no orpha".into(), Box::new(|s: &mut Spec| s.kinds_present[2] = false)));
    v.push(("no records at all".into(), Box::new(|s: &mut Spec| s.kinds_present = [false; 3])));
    v.push(("version 0000-00-00".into(), Box::new(|s: &mut Spec| s.version = (0, 0, 0))));
    v.push(("version 65535-255-255".into(), Box::new(|s: &mut Spec| s.version = (65535, 255, 255))));
    v.push(("modifier branch".into(), Box::new(|s: &mut Spec| s.second_extra = true)));
    v.push(("both records of each kind have the same name".into(), Box::new(|s: &mut Spec| s.same_names = true)));
    v.push(("obsolete term keeps its is_a link".into(), Box::new(|s: &mut Spec| {
        s.obsolete = true;
        s.obsolete_keeps_link = true;
    })));
    v
}

/// The text formats cannot carry an empty (or all-blank) term name, gene symbol or disease name: `name: ` and an
/// empty tab-separated column are not valid JAX content, so such fact sets are not built through the text loaders.
fn text_expressible(f: &Facts) -> bool {
    f.terms.iter().all(|t| !t.name.trim().is_empty()) && f.anns.iter().filter(|a| a.term.is_some()).all(|a| !a.name.trim().is_empty())
}

#[derive(Clone, Copy, Default)]
struct Rt {
    /// the source was built without the default categories / modifier roots (`sub_ontology` returns such ontologies);
    /// the binary format does not store them and the loader always applies the defaults, so they are not compared
    no_defaults: bool,
}

/// C07 quantifies over ontologies that EXIST: whether a constructor accepts a fact set is the business of the
/// constructor's own property (C15 Builder, C08 decoder, C09 text loaders). A refusal (error or panic) is counted
/// per constructor and the source is left out.
fn refused(ctx: &mut Ctx, constructor: &str) {
    ctx.bump(&format!("sources_refused_by_constructor: {constructor}"), 1);
}

/// The floor under the constructor refusals: a fact set that at least one constructor was asked to build and that NO
/// constructor built has no round trip at all. That is not a verdict about the round trip - and not a clean pass
/// either: the run is marked "not exhaustive" and says which fact set is without verdict.
fn floor(ctx: &mut Ctx, what: &str, built: usize, attempted: usize) {
    if built == 0 && attempted > 0 {
        ctx.bump("refused: fact set refused by every constructor that was asked to build it (no round trip, no verdict)", 1);
        // (the note names single deviations and shapes; combinations share one note so that their number stays bounded)
        let named = if what.contains(" + ") { "a combination of deviations" } else { what };
        ctx.mark_partial(&format!("C07: {named} could not be built by any of the constructors that were asked to (no round trip of it: no verdict)"));
    }
}

/// Is `got` a legitimate reloaded form of the term / gene name `orig`? Up to 255 bytes: the name itself. Longer, with
/// byte 255 on a character boundary: exactly the first 255 bytes (nothing else is "the name up to the limit").
/// Longer, with the limit inside a character: the documentation says "trimmed to 255" and no more, so any prefix of
/// the original that ends on a character boundary (it is a `String`) and has 251..=255 bytes is accepted - the longest
/// one (what the crate does) as well as a cut at a grapheme boundary.
fn acceptable_cut(orig: &str, got: &str) -> bool {
    if orig.len() <= 255 {
        return got == orig;
    }
    if orig.is_char_boundary(255) {
        return got == &orig[..255];
    }
    (251..=255).contains(&got.len()) && orig.starts_with(got)
}

/// trailing decimal digits of a textual record id ("NCBI-GeneID:7" -> 7): the text format of
/// `AnnotationDelta::id()` is not part of any property
fn trailing_number(text: &str) -> String {
    text.chars().rev().take_while(|c| c.is_ascii_digit()).collect::<String>().chars().rev().collect()
}

/// By-name lookups on the reloaded ontology (they are part of the read API but not of `Obs`): every gene symbol finds
/// a gene with exactly that symbol, every OMIM disease is among the diseases found by its own name, and the
/// single-result lookup returns one of them.
fn by_name_lookups(o2: &Ontology, after: &Obs) -> Result<(), (String, String)> {
    for g in &after.recs[0] {
        match o2.gene_by_name(&g.name) {
            Some(x) if x.name() == g.name => {}
            Some(x) => return Err(("Ontology::gene_by_name".into(), format!("gene_by_name({:?}) returns the gene {} named {:?}", crate::model::short(&g.name), x.id().as_u32(), crate::model::short(x.name())))),
            None => return Err(("Ontology::gene_by_name".into(), format!("gene_by_name({:?}) finds nothing although genes() yields gene {} with that symbol", crate::model::short(&g.name), g.id))),
        }
    }
    for d in &after.recs[1] {
        use hpo::annotations::Disease;
        if !o2.omim_diseases_by_name(&d.name).any(|x| x.id().as_u32() == d.id) {
            return Err(("Ontology::omim_diseases_by_name".into(), format!("disease {} is not among the diseases found by its own name {:?}", d.id, crate::model::short(&d.name))));
        }
        match o2.omim_disease_by_name(&d.name) {
            Some(x) if x.name().contains(d.name.as_str()) => {}
            _ => return Err(("Ontology::omim_disease_by_name".into(), format!("omim_disease_by_name({:?}) does not return a disease whose name contains the query", crate::model::short(&d.name)))),
        }
    }
    Ok(())
}

/// serialise, reload, compare through the whole read API and compare(); then once more (fixed point)
fn roundtrip(ctx: &mut Ctx, o: &Ontology, constructor: &str, case: &dyn Fn() -> Value) {
    roundtrip_with(ctx, o, constructor, case, Rt::default())
}

fn roundtrip_with(ctx: &mut Ctx, o: &Ontology, constructor: &str, case: &dyn Fn() -> Value, rt: Rt) {
    ctx.exec();
    ctx.validated();
    ctx.transitions(2);
    let site = "Ontology::as_bytes -> from_bytes";
    let before = match Obs::of(o) {
        Ok(b) => b,
        Err(_) => {
            // a constructor that hands out an ontology whose own read API is inconsistent: not a round-trip fault, and
            // without an observation of the source nothing can be compared. The half of the statement that needs no
            // observation is still demanded: serialisation neither panics nor emits bytes the loader rejects or
            // panics on, and what the loader returns is walkable.
            ctx.bump("sources_not_walkable_skipped (comparison skipped: the source's own read API is inconsistent; serialise + reload still demanded)", 1);
            match guard(|| o.as_bytes()) {
                Err(p) => ctx.violation("Ontology::as_bytes", "panics", json!({"case": case(), "constructor": constructor, "observed": p, "note": "the source's own read API is inconsistent"})),
                Ok(bytes) => match drive::from_bytes(&bytes) {
                    Ok(Ok(o2)) => {
                        if let Err(i) = Obs::of(&o2) {
                            // (inconsistent before and after: the constructor's fault is carried through, not the round trip's)
                            let _ = i;
                            ctx.bump("skipped: reloaded ontology of a non-walkable source is not walkable either", 1);
                        }
                    }
                    Ok(Err(e)) => ctx.violation(site, "serialisation emits bytes that the loader rejects", json!({"case": case(), "constructor": constructor, "observed": e, "note": "the source's own read API is inconsistent"})),
                    Err(p) => ctx.violation(site, "serialisation emits bytes that the loader panics on", json!({"case": case(), "constructor": constructor, "observed": p, "note": "the source's own read API is inconsistent"})),
                },
            }
            return;
        }
    };
    ctx.bump("sources_round_tripped", 1);
    let bytes = match guard(|| o.as_bytes()) {
        Ok(b) => b,
        Err(p) => {
            ctx.violation("Ontology::as_bytes", "panics", json!({"case": case(), "constructor": constructor, "observed": p}));
            return;
        }
    };
    let o2 = match drive::from_bytes(&bytes) {
        Ok(Ok(o2)) => o2,
        Ok(Err(e)) => {
            ctx.violation(site, "serialisation emits bytes that the loader rejects", json!({"case": case(), "constructor": constructor, "observed": e}));
            return;
        }
        Err(p) => {
            ctx.violation(site, "serialisation emits bytes that the loader panics on", json!({"case": case(), "constructor": constructor, "observed": p}));
            return;
        }
    };
    let after = match Obs::of(&o2) {
        Ok(a) => a,
        Err(i) => {
            ctx.violation(&i.site, &format!("[{constructor}] read API inconsistent after the round trip"), json!({"case": case(), "observed": i.what}));
            return;
        }
    };
    // expectation: the same observation, term and gene names of more than 255 bytes cut (see acceptable_cut)
    let mut exp = before.clone();
    // (id, original name, expected reloaded name)
    let mut truncated_terms: Vec<(u32, String, String)> = vec![];
    let mut truncated_genes: Vec<(u32, String, String)> = vec![];
    for t in exp.terms.iter_mut().filter(|t| t.name.len() > 255) {
        let c = match after.terms.iter().find(|a| a.id == t.id) {
            Some(a) if acceptable_cut(&t.name, &a.name) => a.name.clone(),
            _ => truncate255(&t.name),
        };
        truncated_terms.push((t.id, t.name.clone(), c.clone()));
        t.name = c;
    }
    for g in exp.recs[0].iter_mut().filter(|g| g.name.len() > 255) {
        let c = match after.recs[0].iter().find(|a| a.id == g.id) {
            Some(a) if acceptable_cut(&g.name, &a.name) => a.name.clone(),
            _ => truncate255(&g.name),
        };
        truncated_genes.push((g.id, g.name.clone(), c.clone()));
        g.name = c;
    }
    if rt.no_defaults {
        exp.categories = after.categories.clone();
        exp.modifier = after.modifier.clone();
        for (e, a) in exp.terms.iter_mut().zip(after.terms.iter()) {
            if e.id == a.id {
                e.is_modifier = a.is_modifier;
                e.categories = a.categories.clone();
            }
        }
    }
    // information content up to rounding: the loader recomputes it, and which float expression a constructor uses
    // is not part of "observationally identical" (bit-exactness is demanded of the fixed point below, where the
    // same function runs on the same input twice)
    if let Some((s, sig, det)) = after.diff(&exp, false) {
        ctx.violation(&s, &format!("[round trip] {sig}"), json!({"case": case(), "constructor": constructor, "difference (reloaded vs original)": det}));
        return;
    }
    match guard(|| by_name_lookups(&o2, &after)) {
        Ok(Ok(())) => {}
        Ok(Err((s, det))) => {
            ctx.violation(&s, "[round trip] by-name lookup on the reloaded ontology does not find a record by its own name", json!({"case": case(), "constructor": constructor, "observed": det}));
            return;
        }
        Err(p) => {
            ctx.violation("Ontology::gene_by_name / omim_disease(s)_by_name", "[round trip] panics on the reloaded ontology", json!({"case": case(), "constructor": constructor, "observed": p}));
            return;
        }
    }
    // Ontology::compare reports nothing (apart from the documented name truncation)
    let cmp = guard(|| {
        let c = o.compare(&o2);
        let mut problems: Vec<String> = vec![];
        if !c.added_hpo_terms().is_empty() || !c.removed_hpo_terms().is_empty() {
            problems.push("added/removed terms".into());
        }
        let mut named: Vec<u32> = vec![];
        for d in c.changed_hpo_terms() {
            let id = d.id().as_u32();
            if d.added_parents().is_some() || d.removed_parents().is_some() || d.changed_obsolete().is_some() || d.changed_replacement().is_some() {
                problems.push(format!("term {id}: parents / obsolete flag / replacement reported as changed"));
            }
            match d.changed_name() {
                Some((l, r)) => {
                    named.push(id);
                    if !truncated_terms.iter().any(|(tid, orig, cut)| *tid == id && orig == l && cut == r) {
                        problems.push(format!("term {id}: name reported as changed from {:?} to {:?}", crate::model::short(l), crate::model::short(r)));
                    }
                }
                // a delta that shows none of the differences this check knows: tolerated for sources built without
                // the default categories (compare() may come to report classification differences, which the
                // round trip of such a source legitimately has), a problem otherwise
                None if rt.no_defaults => {}
                None => {
                    if d.added_parents().is_none() && d.removed_parents().is_none() && d.changed_obsolete().is_none() && d.changed_replacement().is_none() {
                        problems.push(format!("term {id}: listed as changed without any difference"));
                    }
                }
            }
        }
        named.sort_unstable();
        let mut want: Vec<u32> = truncated_terms.iter().map(|t| t.0).collect();
        want.sort_unstable();
        if named != want {
            problems.push(format!("terms with changed names {named:?}, expected exactly the truncated names {want:?}"));
        }
        if !c.added_genes().is_empty() || !c.removed_genes().is_empty() {
            problems.push("added/removed genes".into());
        }
        // genes: exactly the truncated symbols, identified by the number at the end of the textual id
        let mut cg: Vec<String> = vec![];
        for d in c.changed_genes() {
            let num = trailing_number(d.id());
            if d.added_terms().is_some() || d.removed_terms().is_some() {
                problems.push(format!("gene {num}: terms reported as changed"));
            }
            if let Some((l, r)) = d.changed_name() {
                if !truncated_genes.iter().any(|(gid, orig, cut)| gid.to_string() == num && orig == l && cut == r) {
                    problems.push(format!("gene {num}: name reported as changed from {:?} to {:?}", crate::model::short(l), crate::model::short(r)));
                }
            }
            cg.push(num);
        }
        cg.sort();
        let mut eg: Vec<String> = truncated_genes.iter().map(|g| g.0.to_string()).collect();
        eg.sort();
        if cg != eg {
            problems.push(format!("changed genes {cg:?}, expected {eg:?}"));
        }
        if !c.added_omim_diseases().is_empty() || !c.removed_omim_diseases().is_empty() || !c.changed_omim_diseases().is_empty() {
            problems.push("omim differences".into());
        }
        if !c.added_orpha_diseases().is_empty() || !c.removed_orpha_diseases().is_empty() || !c.changed_orpha_diseases().is_empty() {
            problems.push("orpha differences".into());
        }
        problems
    });
    match cmp {
        Ok(p) if p.is_empty() => {}
        Ok(p) => ctx.violation("Ontology::compare", "[round trip] reports differences between an ontology and its binary round trip", json!({"case": case(), "constructor": constructor, "reported": p})),
        Err(p) => ctx.violation("Ontology::compare", "[round trip] panics", json!({"case": case(), "constructor": constructor, "observed": p})),
    }
    // second round trip is a fixed point (bit for bit: the same code on the same input)
    ctx.exec();
    let again = guard(|| o2.as_bytes()).ok().and_then(|b| drive::from_bytes(&b).ok()).and_then(|r| r.ok());
    match again {
        None => ctx.violation(site, "second round trip fails", json!({"case": case(), "constructor": constructor})),
        Some(o3) => match Obs::of(&o3) {
            Ok(third) => {
                if let Some((s, sig, det)) = third.diff(&after, true) {
                    ctx.violation(&s, &format!("[second round trip] not a fixed point: {sig}"), json!({"case": case(), "constructor": constructor, "difference": det}));
                }
            }
            Err(i) => ctx.violation(&i.site, "[second round trip] read API inconsistent", json!({"case": case(), "observed": i.what})),
        },
    }
    ctx.outcome(after.fingerprint());
}

/// which of the additional source constructors (`extra_sources`) a case runs: bit e = constructor e
/// (0 clone, 1 sub_ontology, 2 v2 file, 3 v1 file, 4 from_standard_transitive).
/// `clone()` copies the 80 MB id table of the arena (some 30 ms), so it is taken on fewer cases than the others.
type Extras = u8;
const EXTRAS_NONE: Extras = 0;
const EXTRAS_ALL: Extras = 0b11111;
const EXTRAS_ALL_BUT_CLONE: Extras = 0b11110;
/// one of the four cheap constructors, in rotation
fn extras_one(k: usize) -> Extras {
    1 << (1 + k % 4)
}

const N_EXTRAS: usize = 5;

/// Further public constructors as sources of the round trip: `clone()` and `sub_ontology(HP:1, every term below it)`
/// of an ontology that was already built (`base`), `from_bytes` of a v2 and of a v1 file written by the independent
/// encoder (the documented upgrade path: read an old file, write the newest layout), `from_standard_transitive`.
/// A constructor that refuses the facts is counted (`refused`), not reported.
#[allow(clippy::too_many_arguments)]
fn extra_sources(ctx: &mut Ctx, f: &Facts, base: Option<&Ontology>, which: Extras, encodable: bool, textable: bool, case: &dyn Fn() -> Value) -> (usize, usize) {
    let rt = Rt::default();
    let mut built = 0;
    let mut attempted = 0;
    for e in 0..N_EXTRAS {
        if which >> e & 1 == 0 {
            continue;
        }
        match e {
            0 => {
                if let Some(b) = base {
                    attempted += 1;
                    match guard(|| b.clone()) {
                        Ok(c) => {
                            built += 1;
                            roundtrip_with(ctx, &c, "clone() of a built ontology", case, rt)
                        }
                        Err(_) => refused(ctx, "clone()"),
                    }
                }
            }
            1 => {
                if let Some(b) = base {
                    // whether sub_ontology itself is right is C14's business; here its result is only a source
                    let res = guard(|| {
                        let one = hpo::HpoTermId::from_u32(1);
                        let root = b.hpo(one)?;
                        let leaves: Vec<hpo::HpoTerm> = b.iter().filter(|t| t.id() == one || t.all_parent_ids().contains(&one)).collect();
                        b.sub_ontology(root, leaves).ok()
                    });
                    match res {
                        Ok(Some(sub)) if guard(|| sub.hpo(1u32).is_some() && sub.hpo(118u32).is_some()).unwrap_or(false) => {
                            built += 1;
                            roundtrip_with(ctx, &sub, "sub_ontology(HP:1, every term below HP:1)", case, Rt { no_defaults: true });
                        }
                        // (one key per reason, so that a change from "lacks a root term" to "panics" shows in the run's NOTE)
                        Ok(Some(_)) => ctx.bump("sub_ontology_sources_skipped: result lacks HP:1 or HP:118 (C14's subject)", 1),
                        Ok(None) => ctx.bump("sub_ontology_sources_skipped: sub_ontology returned an error or HP:1 is not found (C14's subject)", 1),
                        Err(_) => ctx.bump("sub_ontology_sources_skipped: sub_ontology or the walk to its arguments panicked (C14's subject)", 1),
                    }
                }
            }
            2 | 3 => {
                let version = if e == 2 { 2u8 } else { 1u8 };
                if encodable {
                    attempted += 1;
                    let pf = encode::project(f, version);
                    ctx.transitions(pf.n_steps());
                    match drive::from_bytes(&encode::encode(&pf, &EncOpts::v(version))) {
                        Ok(Ok(o)) => {
                            built += 1;
                            roundtrip_with(ctx, &o, &format!("from_bytes(independent encoder, v{version} file)"), case, rt)
                        }
                        _ => refused(ctx, &format!("from_bytes(independent encoder, v{version} file)")),
                    }
                }
            }
            _ => {
                let mut tf = f.clone();
                tf.anns.retain(|a| a.term.is_some());
                if textable && text_expressible(&tf) {
                    attempted += 1;
                    ctx.transitions(tf.n_steps());
                    match jax::load(&jax::render(&tf, &JaxOpts::default()), true) {
                        Ok(Ok(o)) => {
                            built += 1;
                            roundtrip_with(ctx, &o, "from_standard_transitive", case, rt)
                        }
                        _ => refused(ctx, "from_standard_transitive"),
                    }
                }
            }
        }
    }
    (built, attempted)
}

/// Build the ontology of a spec through every public constructor that can express it, and round-trip each.
/// Returns the number of sources that were built.
fn run_spec(ctx: &mut Ctx, spec: &Spec, label: &str, extras: Extras) -> usize {
    let f = spec.facts();
    let case = || json!({"deviations": label, "facts": f.to_json()});
    let mut built = 0;
    let mut attempted = 0;
    let mut base: Option<Ontology> = None;
    if !spec.needs_flags() {
        attempted += 1;
        ctx.transitions(f.n_steps());
        match drive::build(&f, Mode::Defaults) {
            Ok(o) => {
                built += 1;
                roundtrip(ctx, &o, "Builder", &case);
                base = Some(o);
            }
            Err(_) => refused(ctx, "Builder"),
        }
    }
    if !spec.long_names() {
        attempted += 1;
        ctx.transitions(f.n_steps());
        let bytes = encode::encode(&f, &EncOpts::v(3));
        match drive::from_bytes(&bytes) {
            Ok(Ok(o)) => {
                built += 1;
                roundtrip(ctx, &o, "from_bytes(independent encoder)", &case);
                if base.is_none() {
                    base = Some(o);
                }
            }
            _ => refused(ctx, "from_bytes(independent encoder)"),
        }
    }
    if spec.textable() {
        let mut tf = f.clone();
        tf.anns.retain(|a| a.term.is_some());
        if text_expressible(&tf) {
            attempted += 1;
            ctx.transitions(f.n_steps());
            match jax::load(&jax::render(&tf, &JaxOpts::default()), false) {
                Ok(Ok(o)) => {
                    built += 1;
                    roundtrip(ctx, &o, "from_standard", &case);
                    if base.is_none() {
                        base = Some(o);
                    }
                }
                _ => refused(ctx, "from_standard"),
            }
        } else {
            ctx.bump("text_path_skipped (an empty or blank name cannot be expressed in the text formats)", 1);
        }
    }
    let (b, a) = extra_sources(ctx, &f, base.as_ref(), extras, !spec.long_names(), spec.textable(), &case);
    built += b;
    attempted += a;
    if attempted == 0 {
        // flags (no Builder) + a name beyond 255 bytes (no encoder) + a blank name or a release the text cannot carry
        ctx.bump("specs_not_expressible_through_any_public_constructor (nothing asked)", 1);
    }
    floor(ctx, label, built, attempted);
    built
}

pub fn run(ctx: &mut Ctx) {
    let thorough = ctx.tier.thorough();
    ctx.rule = "deviation-bounded: case = base ontology (HP:1, HP:118, one further term, two records per kind) with 0, 1, 2 or 3 (thorough: 4) deviations from the listed dimensions (names incl. 255/256-byte and limit-inside-a-character, flags, ids, record shapes, versions), built through every public constructor that accepts it (Builder, from_bytes of the independent encoder for v3 / v2 / v1 files, from_standard, from_standard_transitive, clone, sub_ontology) and round-tripped twice; plus names whose 255-byte limit falls at every offset of a 2-, 3- and 4-byte character; plus replacement ids with non-zero high bytes and a term replaced by itself; plus the small-ontology family of C08 (all DAG shapes <= 4 terms with flags and records); plus structured sizes on the writer side (id lists across 10 / 30 / 255 entries, also on an obsolete and replaced term, sections beyond 64 KiB); distinct by construction; non-trivial = at least one deviation".into();
    ctx.assumptions = vec![
        "term and gene names are limited to 255 bytes by the format: a name of more than 255 bytes comes back as its first 255 bytes when they end on a character boundary; when the limit falls inside a character, as a prefix of 251..=255 bytes that ends on a character boundary (the documentation says 'trimmed to 255' and no more); disease names are unlimited".into(),
        "the ontology contains HP:0000001 and HP:0000118".into(),
        "observational identity = equality of the sorted whole-read-API observation (DESIGN.md 2.3) plus the by-name lookups of the reloaded ontology; information content up to rounding (DESIGN.md 2.9) between the source and the reloaded ontology - the loader recomputes it - and bit for bit between the first and the second reload".into(),
        "categories and modifier roots are not stored in the file and the loader always applies the defaults: every source is built with the defaults, except sub_ontology results (built without), for which categories / modifier roots / is_modifier are not compared".into(),
        "a replacement id naming a term that is absent from the ontology is data like any other and must survive unchanged".into(),
        "the property speaks about ontologies that exist: a constructor that refuses a fact set (HP:0000000 as a term, a replacement naming an absent term, an obsolete term with an is_a link, names beyond 255 bytes, the release 65535-255-255, a padded gene symbol ...) is counted per constructor and not reported, a source whose own read API is inconsistent is skipped; every source that was built must round-trip. Only the base fact set must be constructible (otherwise: machinery failure)".into(),
        "the text of AnnotationDelta::id() is not inspected beyond the number at its end".into(),
        "empty or all-blank term names / gene symbols / disease names cannot be expressed in the text formats: such fact sets are not built through the text loaders".into(),
    ];
    let devs = deviations();
    ctx.space("deviations/0-and-1", &format!("base + each of {} single deviations, each through Builder / from_bytes(encoder) / from_standard and clone / sub_ontology / v2 file / v1 file / from_standard_transitive where expressible", devs.len()));
    if ctx.take() {
        ctx.state();
        if run_spec(ctx, &Spec::base(), "none", EXTRAS_ALL) == 0 {
            // not a verdict about the round trip: nothing could be round-tripped
            panic!("C07: no public constructor builds the base fact set (HP:1, HP:118, one further term, two records per kind)");
        }
        ctx.sample(|| json!({"deviations": "none", "facts": Spec::base().facts().to_json()}));
    }
    for (name, d) in &devs {
        if !ctx.take() {
            continue;
        }
        ctx.state();
        ctx.nontrivial();
        let mut s = Spec::base();
        d(&mut s);
        run_spec(ctx, &s, name, EXTRAS_ALL);
        ctx.sample(|| json!({"deviations": name}));
    }
    // ---- the 255-byte limit at every offset of a multi-byte character: "A" x k + c (+ tail), k = 250..=255, c a 2-, 3-
    // or 4-byte character - the back-off from byte 255 to the character boundary is 0, 1, 2 and 3 bytes (k = 252 with
    // the 4-byte character is the only shape that needs 3)
    {
        let first = N_DEV_NAMES;
        let n = limit_names().len();
        ctx.space("names/limit-inside-a-character", &format!("{n} names (\"A\" x k + one of e-acute / euro sign / U+1F600 + nothing or \"tail\", k = 250..=255) x given to (the term | the gene | term, gene, OMIM and ORPHA record alike), each through Builder / from_standard and sub_ontology / from_standard_transitive"));
        for i in first..first + n {
            for target in 0..3 {
                if !ctx.take() {
                    continue;
                }
                ctx.state();
                ctx.nontrivial();
                let mut s = Spec::base();
                match target {
                    0 => s.term_name = i,
                    1 => s.gene_name = i,
                    _ => {
                        s.term_name = i;
                        s.gene_name = i;
                        s.omim_name = i;
                        s.orpha_name = i;
                    }
                }
                let label = format!("name #{i} ({} bytes) for {}", names()[i].len(), ["the term", "the gene", "term, gene, OMIM and ORPHA record"][target]);
                run_spec(ctx, &s, &label, EXTRAS_ALL_BUT_CLONE);
                ctx.sample(|| json!({"deviations": label}));
            }
        }
    }
    // ---- replacement ids whose second and third byte are not zero, and a term that names itself (the deviation spaces
    // use 1, 118 and 4242): the id absent from the ontology, and present as a plain term
    {
        let ids: [u32; 5] = [65_536, 9_999_999, 0x0001_0203, 255, 256];
        ctx.space("flags/replacement-ids", &format!("replacement of the extra term in {ids:?} x (absent from the ontology | present as a plain term) + the term's own id, x (obsolete | not obsolete) x extra term id 119 / 9 999 998; through from_bytes(encoder) v3 / v2 and both text loaders"));
        for extra_id in [119u32, 9_999_998] {
            for obsolete in [true, false] {
                let mut variants: Vec<(Option<u32>, Option<u32>, String)> = vec![(Some(extra_id), None, "the term's own id".into())];
                for id in ids {
                    variants.push((Some(id), None, format!("{id}, absent from the ontology")));
                    variants.push((Some(id), Some(id), format!("{id}, a plain term of the ontology")));
                }
                for (replacement, also, what) in variants {
                    if !ctx.take() {
                        continue;
                    }
                    ctx.state();
                    ctx.nontrivial();
                    let mut s = Spec::base();
                    s.extra_id = extra_id;
                    s.obsolete = obsolete;
                    s.replacement = replacement;
                    s.also_term = also;
                    let label = format!("HP:{extra_id:07} {}replaced by {what}", if obsolete { "obsolete and " } else { "" });
                    run_spec(ctx, &s, &label, 0b11100);
                    ctx.sample(|| json!({"deviations": label}));
                }
            }
        }
    }
    ctx.space("deviations/2", &format!("all {} unordered pairs of deviations, each also through sub_ontology / v2 file / v1 file / from_standard_transitive and every 97th (thorough: every) pair through clone()", devs.len() * (devs.len() - 1) / 2));
    let mut pair_no = 0usize;
    for i in 0..devs.len() {
        for j in i + 1..devs.len() {
            pair_no += 1;
            if !ctx.take() {
                continue;
            }
            ctx.state();
            ctx.nontrivial();
            let mut s = Spec::base();
            (devs[i].1)(&mut s);
            (devs[j].1)(&mut s);
            let label = format!("{} + {}", devs[i].0, devs[j].0);
            run_spec(ctx, &s, &label, if thorough || pair_no % 97 == 0 { EXTRAS_ALL } else { EXTRAS_ALL_BUT_CLONE });
            ctx.sample(|| json!({"deviations": label}));
        }
    }
    {
        ctx.space("deviations/3", "all unordered triples of deviations; every 5th triple additionally through one of sub_ontology / v2 file / v1 file / from_standard_transitive (in rotation)");
        let mut triple_no = 0usize;
        for i in 0..devs.len() {
            for j in i + 1..devs.len() {
                for k in j + 1..devs.len() {
                    triple_no += 1;
                    if !ctx.take() {
                        continue;
                    }
                    ctx.state();
                    ctx.nontrivial();
                    let mut s = Spec::base();
                    (devs[i].1)(&mut s);
                    (devs[j].1)(&mut s);
                    (devs[k].1)(&mut s);
                    let label = format!("{} + {} + {}", devs[i].0, devs[j].0, devs[k].0);
                    run_spec(ctx, &s, &label, if triple_no % 5 == 0 { extras_one(triple_no / 5) } else { EXTRAS_NONE });
                    ctx.sample(|| json!({"deviations": label}));
                }
            }
        }
    }
    if thorough {
        ctx.space("deviations/4", "all unordered quadruples of deviations (thorough)");
        for i in 0..devs.len() {
            for j in i + 1..devs.len() {
                for k in j + 1..devs.len() {
                    for l in k + 1..devs.len() {
                        if !ctx.take() {
                            continue;
                        }
                        ctx.state();
                        ctx.nontrivial();
                        let mut s = Spec::base();
                        (devs[i].1)(&mut s);
                        (devs[j].1)(&mut s);
                        (devs[k].1)(&mut s);
                        (devs[l].1)(&mut s);
                        let label = format!("{} + {} + {} + {}", devs[i].0, devs[j].0, devs[k].0, devs[l].0);
                        run_spec(ctx, &s, &label, EXTRAS_NONE);
                        ctx.sample(|| json!({"deviations": label}));
                    }
                }
            }
            if ctx.out_of_time() {
                break;
            }
        }
    }

    // ---- every small shape (DAGs <= 4 terms x flags x record patterns), loaded from the independent
    // encoder (so obsolete / replaced terms occur) and from the Builder where no flag is set
    let family = format_family(4, if thorough { 1 } else { 2 });
    ctx.space("family/small-ontologies", &format!("{} fact sets (labelled DAGs over HP:1, HP:118 + <=2 terms x flag variants x record patterns) via from_bytes(encoder), without flags via Builder, with flags via from_standard in both stanza orders, and through one of sub_ontology / v2 file / v1 file / from_standard_transitive in rotation (thorough: also clone)", family.len()));
    let mut family_no = 0usize;
    for (f, what) in &family {
        family_no += 1;
        if !ctx.take() {
            continue;
        }
        ctx.state();
        if !f.anns.is_empty() {
            ctx.nontrivial();
        }
        let case = || json!({"family": what, "facts": f.to_json()});
        ctx.transitions(f.n_steps());
        let mut base: Option<Ontology> = None;
        let mut built = 0usize;
        match drive::from_bytes(&encode::encode(f, &EncOpts::v(3))) {
            Ok(Ok(o)) => {
                built += 1;
                roundtrip(ctx, &o, "from_bytes(independent encoder)", &case);
                base = Some(o);
            }
            _ => refused(ctx, "from_bytes(independent encoder)"),
        }
        // one of the further constructors, in rotation over the family
        built += extra_sources(ctx, f, base.as_ref(), if thorough && family_no % 5 == 0 { 1 } else { extras_one(family_no) }, true, true, &case).0;
        if f.terms.iter().all(|t| !t.obsolete && t.replacement.is_none()) {
            ctx.transitions(f.n_steps());
            match drive::build(f, Mode::Defaults) {
                Ok(o) => {
                    built += 1;
                    roundtrip(ctx, &o, "Builder", &case)
                }
                Err(_) => refused(ctx, "Builder"),
            }
        } else {
            // flagged terms from a constructor that does not share code with the binary loader: the text
            // loader, in ascending and descending stanza order (so a replaced term is stored both before and
            // after its replacement; the serialiser writes terms in the order they were added)
            let mut tf = f.clone();
            tf.anns.retain(|a| a.term.is_some());
            for t in tf.terms.iter_mut() {
                if t.name.is_empty() {
                    t.name = "n".into();
                }
            }
            let n = tf.terms.len();
            for (order, oname) in [((0..n).collect::<Vec<usize>>(), "from_standard, stanzas ascending"), ((0..n).rev().collect::<Vec<usize>>(), "from_standard, stanzas descending")] {
                let mut o = jax::JaxOpts::default();
                o.stanza_order = Some(order);
                ctx.transitions(tf.n_steps());
                match jax::load(&jax::render(&tf, &o), false) {
                    Ok(Ok(ont)) => {
                        built += 1;
                        roundtrip(ctx, &ont, oname, &|| json!({"family": what, "facts": tf.to_json(), "constructor": oname}))
                    }
                    _ => refused(ctx, "from_standard"),
                }
            }
        }
        floor(ctx, "a fact set of the small-ontology family", built, 1);
        ctx.sample(|| json!({"family": what}));
    }

    // ---- writer-side sizes: id lists across the inline capacities and 8-bit borders, sections beyond 64 KiB
    {
        // fan-in: m hub terms below HP:118 and one leaf with all m hubs as parents; a gene on all m+1 of them, an OMIM
        // disease on the m hubs, an ORPHA disease on m-1 hubs; a second record per kind
        let fan = |m: usize| -> Facts {
            let mut f = Facts::default();
            f.version = (2024, 2, 29);
            f.terms.push(Facts::term(1, "All"));
            f.terms.push(Facts::term(118, "Phenotypic abnormality"));
            f.edges.push((118, 1));
            let leaf = 5000u32;
            for k in 0..m as u32 {
                f.terms.push(Facts::term(1000 + k, &format!("Hub {k}")));
                f.edges.push((1000 + k, 118));
            }
            f.terms.push(Facts::term(leaf, "Leaf"));
            for k in 0..m as u32 {
                f.edges.push((leaf, 1000 + k));
            }
            for k in 0..m as u32 {
                f.anns.push(Facts::ann(Kind::Gene, 11, "GENE1", Some(1000 + k)));
                f.anns.push(Facts::ann(Kind::Omim, 600_001, "Disease one", Some(1000 + k)));
                if k + 1 < m as u32 {
                    f.anns.push(Facts::ann(Kind::Orpha, 77, "Orpha one", Some(1000 + k)));
                }
            }
            f.anns.push(Facts::ann(Kind::Gene, 11, "GENE1", Some(leaf)));
            f.anns.push(Facts::ann(Kind::Gene, 22, "GENE2", Some(leaf)));
            f.anns.push(Facts::ann(Kind::Omim, 600_002, "Disease two", Some(118)));
            f.anns.push(Facts::ann(Kind::Orpha, 78, "Orpha two", Some(leaf)));
            f
        };
        let mut sizes: Vec<usize> = vec![9, 10, 11, 29, 30, 31, 32, 35, 40, 255, 256, 300];
        if thorough {
            sizes = (2..=70).chain(250..=260).chain([300, 511, 512, 1000]).collect();
        }
        let mut cases: Vec<(Facts, String)> = sizes.iter().map(|&m| (fan(m), format!("a term with {m} parents, a gene with {} terms, an OMIM disease with {m} terms, an ORPHA disease with {} terms", m + 1, m - 1))).collect();
        // flags and sizes at once: the leaf with m parents is obsolete AND replaced and keeps its links and records (the
        // flag / replacement trailer of a term record written after a parent list beyond the inline capacity)
        for m in if thorough { vec![10usize, 30, 31, 32, 255, 256, 300] } else { vec![31usize, 256] } {
            let mut f = fan(m);
            let leaf = f.terms.iter_mut().find(|t| t.id == 5000).expect("fan has its leaf");
            leaf.obsolete = true;
            leaf.replacement = Some(1000 + m as u32 - 1);
            cases.push((f, format!("an obsolete and replaced term with {m} parents (replaced by its last parent), records as for the plain shape")));
        }
        for (f, what) in super::common::large_family() {
            if what.starts_with("deep chain of 300 terms") {
                let mut g = f.clone();
                for t in &f.terms {
                    g.anns.push(Facts::ann(Kind::Gene, 11, "GENE1", Some(t.id)));
                    g.anns.push(Facts::ann(Kind::Omim, 600_001, "Disease one", Some(t.id)));
                }
                g.anns.push(Facts::ann(Kind::Orpha, 77, "Orpha one", Some(118)));
                cases.push((g, format!("{what}, a gene and an OMIM disease on every term")));
            }
        }
        // the structured shapes of up to 120 terms (chains, fans, ladders of diamonds, forked trunks, total orders) with
        // the terms supplied descendants-first, so that in the written file every child record precedes its parents'
        // records - the reader has to build the ancestor sets of inner multi-parent terms from such a file as well
        for (f, what) in super::common::large_family() {
            if f.terms.len() <= 120 {
                let mut g = f.clone();
                g.terms.reverse();
                if let Some(last) = f.terms.last() {
                    g.anns.push(Facts::ann(Kind::Gene, 11, "GENE1", Some(last.id)));
                }
                cases.push((g, format!("{what}, terms supplied in reverse (descendants first)")));
            }
        }
        {
            // sections beyond 64 KiB: 3000 leaves with 20-byte names (term section ~100 KiB) and five parents each
            // (parent section ~84 KiB), one gene per leaf (gene section ~78 KiB), an OMIM disease on every leaf
            let mut f = Facts::default();
            f.version = (2024, 2, 29);
            f.terms.push(Facts::term(1, "All"));
            f.terms.push(Facts::term(118, "Phenotypic abnormality"));
            f.edges.push((118, 1));
            for h in 0..5u32 {
                f.terms.push(Facts::term(1000 + h, &format!("Hub {h}")));
                f.edges.push((1000 + h, 118));
            }
            for k in 0..3000u32 {
                f.terms.push(Facts::term(10_000 + k, &format!("Term number {k:08}")));
                for h in 0..5u32 {
                    f.edges.push((10_000 + k, 1000 + h));
                }
                f.anns.push(Facts::ann(Kind::Gene, 100_000 + k, &format!("GENE{k:05}"), Some(10_000 + k)));
                f.anns.push(Facts::ann(Kind::Omim, 600_001, "Disease one", Some(10_000 + k)));
                if k < 300 {
                    f.anns.push(Facts::ann(Kind::Orpha, 77, "Orpha one", Some(10_000 + k)));
                }
            }
            f.anns.push(Facts::ann(Kind::Omim, 600_002, "Disease two", Some(1000)));
            f.anns.push(Facts::ann(Kind::Orpha, 78, "Orpha two", Some(1001)));
            cases.push((f, "3007 terms with 20-byte names and five parents each, 3000 genes: term, parent and gene sections beyond 64 KiB; an OMIM disease with 3000 terms".into()));
        }
        ctx.space("sizes/writer-side", &format!("{} fact sets (a term with m parents and records with m-1, m, m+1 terms for m in {:?}; the same shape with the m-parent term obsolete and replaced for m = 31, 256 (thorough: 10, 30, 31, 32, 255, 256, 300); a chain of 300 with records on every term; the structured shapes of up to 120 terms supplied descendants-first; sections beyond 64 KiB) via Builder (unflagged shapes), from_bytes(encoder), from_standard", cases.len(), sizes));
        for (f, what) in &cases {
            if !ctx.take() {
                continue;
            }
            ctx.state();
            ctx.nontrivial();
            let case = || json!({"shape": what, "terms": f.terms.len(), "links": f.edges.len(), "annotation_facts": f.anns.len()});
            ctx.transitions(f.n_steps());
            let mut built = 0usize;
            if f.terms.iter().all(|t| !t.obsolete && t.replacement.is_none()) {
                match drive::build(f, Mode::Defaults) {
                    Ok(o) => {
                        built += 1;
                        roundtrip(ctx, &o, "Builder", &case)
                    }
                    Err(_) => refused(ctx, "Builder"),
                }
            }
            ctx.transitions(f.n_steps());
            match drive::from_bytes(&encode::encode(f, &EncOpts::v(3))) {
                Ok(Ok(o)) => {
                    built += 1;
                    roundtrip(ctx, &o, "from_bytes(independent encoder)", &case)
                }
                _ => refused(ctx, "from_bytes(independent encoder)"),
            }
            ctx.transitions(f.n_steps());
            match jax::load(&jax::render(f, &JaxOpts::default()), false) {
                Ok(Ok(o)) => {
                    built += 1;
                    roundtrip(ctx, &o, "from_standard", &case)
                }
                _ => refused(ctx, "from_standard"),
            }
            floor(ctx, &format!("the writer-side shape '{}'", what.split(',').next().unwrap_or(what)), built, 1);
            ctx.sample(|| case());
        }
    }
    jax::cleanup();
}
