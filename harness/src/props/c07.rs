//! C07 - binary serialisation round-trips every ontology.

use super::common::format_family;
use crate::ctx::{guard, Ctx};
use crate::drive;
use crate::encode::{self, EncOpts};
use crate::jax::{self, JaxOpts};
use crate::model::{Facts, Kind, Mode};
use crate::obs::Obs;
use hpo::annotations::AnnotationId;
use hpo::Ontology;
use serde_json::{json, Value};

/// longest prefix of `s` that ends on a character boundary within 255 bytes
fn truncate255(s: &str) -> String {
    let mut n = s.len().min(255);
    while !s.is_char_boundary(n) {
        n -= 1;
    }
    s[..n].to_string()
}

fn names() -> Vec<String> {
    vec![
        "Base name".to_string(),
        String::new(),
        "a".to_string(),
        "\u{e9}\u{1F600}".to_string(),
        "A".repeat(255),
        "A".repeat(256),
        format!("{}\u{e9}", "A".repeat(254)),
        format!("{}\u{1F600}", "A".repeat(253)),
        "\u{e9}\u{1F600}".repeat(100),
        format!("{}\u{20ac}{}", "B".repeat(252), "C".repeat(10)),
        // a name that merely LOOKS like a retired term's label (the flag is a separate field)
        "obsolete Foo".to_string(),
        // white space at both ends is part of the name
        " padded ".to_string(),
        " ".to_string(),
    ]
}

#[derive(Clone, Debug)]
struct Spec {
    term_name: usize,
    gene_name: usize,
    omim_name: usize, // index into names, or names.len() = 70_000 byte name
    orpha_name: usize,
    obsolete: bool,
    replacement: u8, // 0 none, 1 -> HP:118, 2 -> HP:1
    extra_id: u32,
    rec_id: u32,
    rec_terms: u8, // 0, 1, 2 direct terms per record
    kinds_present: [bool; 3],
    version: (u16, u8, u8),
    second_extra: bool,
    same_names: bool,
    obsolete_keeps_link: bool,
}

impl Spec {
    fn base() -> Spec {
        Spec { term_name: 0, gene_name: 0, omim_name: 0, orpha_name: 0, obsolete: false, replacement: 0, extra_id: 119, rec_id: 7, rec_terms: 1, kinds_present: [true; 3], version: (2024, 2, 29), second_extra: false, same_names: false, obsolete_keeps_link: false }
    }
    fn facts(&self) -> Facts {
        let nm = names();
        let name_of = |i: usize| -> String { if i < nm.len() { nm[i].clone() } else { "long disease name ".repeat(4000) } };
        let mut f = Facts::default();
        f.version = self.version;
        f.terms.push(Facts::term(1, "All"));
        f.terms.push(Facts::term(118, "Phenotypic abnormality"));
        f.edges.push((118, 1));
        f.terms.push(crate::model::TermFact { id: self.extra_id, name: name_of(self.term_name), obsolete: self.obsolete, replacement: match self.replacement { 0 => None, 1 => Some(118), _ => Some(1) } });
        if !self.obsolete || self.obsolete_keeps_link {
            f.edges.push((self.extra_id, 118));
        }
        if self.second_extra {
            f.terms.push(Facts::term(5, "Mode of inheritance"));
            f.edges.push((5, 1));
            f.terms.push(Facts::term(6, "child of modifier"));
            f.edges.push((6, 5));
        }
        let targets: Vec<u32> = match self.rec_terms {
            0 => vec![],
            1 => vec![if self.obsolete { 118 } else { self.extra_id }],
            _ => vec![118, if self.obsolete { 1 } else { self.extra_id }],
        };
        for (k, kind) in [Kind::Gene, Kind::Omim, Kind::Orpha].into_iter().enumerate() {
            if !self.kinds_present[k] {
                continue;
            }
            let name = match kind {
                Kind::Gene => name_of(self.gene_name),
                Kind::Omim => name_of(self.omim_name),
                Kind::Orpha => name_of(self.orpha_name),
            };
            if targets.is_empty() {
                f.anns.push(Facts::ann(kind, self.rec_id, &name, None));
            }
            for t in &targets {
                f.anns.push(Facts::ann(kind, self.rec_id, &name, Some(*t)));
            }
            // a second record of the kind so that sections hold several records
            f.anns.push(Facts::ann(kind, 1000 + k as u32, if self.same_names { &name } else { "Second record" }, Some(118)));
        }
        f.edges.dedup();
        f
    }
    fn needs_flags(&self) -> bool {
        self.obsolete || self.replacement != 0
    }
    fn long_names(&self) -> bool {
        let nm = names();
        let l = |i: usize| if i < nm.len() { nm[i].len() } else { 70_000 };
        l(self.term_name) > 255 || l(self.gene_name) > 255
    }
    fn textable(&self) -> bool {
        self.version.0 <= 9999 && self.version.1 <= 99 && self.version.2 <= 99
    }
}

/// the alternative values of every dimension (deviations from the base)
fn deviations() -> Vec<(String, Box<dyn Fn(&mut Spec)>)> {
    let mut v: Vec<(String, Box<dyn Fn(&mut Spec)>)> = vec![];
    let n = names().len();
    for i in 1..n {
        v.push((format!("term name #{i}"), Box::new(move |s: &mut Spec| s.term_name = i)));
        v.push((format!("gene name #{i}"), Box::new(move |s: &mut Spec| s.gene_name = i)));
        v.push((format!("omim name #{i}"), Box::new(move |s: &mut Spec| s.omim_name = i)));
        v.push((format!("orpha name #{i}"), Box::new(move |s: &mut Spec| s.orpha_name = i)));
    }
    v.push(("omim name 70000 bytes".into(), Box::new(move |s: &mut Spec| s.omim_name = n)));
    v.push(("orpha name 70000 bytes".into(), Box::new(move |s: &mut Spec| s.orpha_name = n)));
    v.push(("obsolete".into(), Box::new(|s: &mut Spec| s.obsolete = true)));
    v.push(("replacement -> HP:118".into(), Box::new(|s: &mut Spec| s.replacement = 1)));
    v.push(("replacement -> HP:1".into(), Box::new(|s: &mut Spec| s.replacement = 2)));
    v.push(("extra id 2".into(), Box::new(|s: &mut Spec| s.extra_id = 2)));
    v.push(("extra id 9999999".into(), Box::new(|s: &mut Spec| s.extra_id = 9_999_999)));
    v.push(("record id 1".into(), Box::new(|s: &mut Spec| s.rec_id = 1)));
    v.push(("record id u32::MAX".into(), Box::new(|s: &mut Spec| s.rec_id = u32::MAX)));
    v.push(("records without terms".into(), Box::new(|s: &mut Spec| s.rec_terms = 0)));
    v.push(("records with two terms".into(), Box::new(|s: &mut Spec| s.rec_terms = 2)));
    v.push(("no genes".into(), Box::new(|s: &mut Spec| s.kinds_present[0] = false)));
    v.push(("no omim".into(), Box::new(|s: &mut Spec| s.kinds_present[1] = false)));
    v.push(("no orpha".into(), Box::new(|s: &mut Spec| s.kinds_present[2] = false)));
    v.push(("no records at all".into(), Box::new(|s: &mut Spec| s.kinds_present = [false; 3])));
    v.push(("version 0000-00-00".into(), Box::new(|s: &mut Spec| s.version = (0, 0, 0))));
    v.push(("version 65535-255-255".into(), Box::new(|s: &mut Spec| s.version = (65535, 255, 255))));
    v.push(("modifier branch".into(), Box::new(|s: &mut Spec| s.second_extra = true)));
    v.push(("both records of each kind have the same name".into(), Box::new(|s: &mut Spec| s.same_names = true)));
    v.push(("obsolete term keeps its is_a link".into(), Box::new(|s: &mut Spec| {
        s.obsolete = true;
        s.obsolete_keeps_link = true;
    })));
    v
}

/// serialise, reload, compare through the whole read API and compare(); then once more (fixed point)
fn roundtrip(ctx: &mut Ctx, o: &Ontology, constructor: &str, case: &dyn Fn() -> Value) {
    ctx.exec();
    ctx.validated();
    ctx.transitions(2);
    let site = "Ontology::as_bytes -> from_bytes";
    let before = match Obs::of(o) {
        Ok(b) => b,
        Err(i) => {
            ctx.violation(&i.site, &format!("[{constructor}] read API inconsistent before serialisation"), json!({"case": case(), "observed": i.what}));
            return;
        }
    };
    let bytes = match guard(|| o.as_bytes()) {
        Ok(b) => b,
        Err(p) => {
            ctx.violation("Ontology::as_bytes", "panics", json!({"case": case(), "constructor": constructor, "observed": p}));
            return;
        }
    };
    let o2 = match drive::from_bytes(&bytes) {
        Ok(Ok(o2)) => o2,
        Ok(Err(e)) => {
            ctx.violation(site, "serialisation emits bytes that the loader rejects", json!({"case": case(), "constructor": constructor, "observed": e}));
            return;
        }
        Err(p) => {
            ctx.violation(site, "serialisation emits bytes that the loader panics on", json!({"case": case(), "constructor": constructor, "observed": p}));
            return;
        }
    };
    // expectation: the same observation, term and gene names cut to 255 bytes at a character boundary
    let mut exp = before.clone();
    let mut truncated_terms = vec![];
    let mut truncated_genes = vec![];
    for t in exp.terms.iter_mut() {
        let c = truncate255(&t.name);
        if c != t.name {
            truncated_terms.push(t.id);
            t.name = c;
        }
    }
    for g in exp.recs[0].iter_mut() {
        let c = truncate255(&g.name);
        if c != g.name {
            truncated_genes.push(g.id);
            g.name = c;
        }
    }
    let after = match Obs::of(&o2) {
        Ok(a) => a,
        Err(i) => {
            ctx.violation(&i.site, &format!("[{constructor}] read API inconsistent after the round trip"), json!({"case": case(), "observed": i.what}));
            return;
        }
    };
    if let Some((s, sig, det)) = after.diff(&exp, true) {
        ctx.violation(&s, &format!("[round trip] {sig}"), json!({"case": case(), "constructor": constructor, "difference (reloaded vs original)": det}));
        return;
    }
    // Ontology::compare reports nothing (apart from the documented name truncation)
    let cmp = guard(|| {
        let c = o.compare(&o2);
        let mut problems: Vec<String> = vec![];
        if !c.added_hpo_terms().is_empty() || !c.removed_hpo_terms().is_empty() {
            problems.push("added/removed terms".into());
        }
        let mut changed: Vec<u32> = c.changed_hpo_terms().iter().map(|d| d.id().as_u32()).collect();
        changed.sort_unstable();
        if changed != truncated_terms {
            problems.push(format!("changed terms {changed:?}, expected only the truncated names {truncated_terms:?}"));
        }
        if !c.added_genes().is_empty() || !c.removed_genes().is_empty() {
            problems.push("added/removed genes".into());
        }
        let mut cg: Vec<String> = c.changed_genes().iter().map(|d| d.id().to_string()).collect();
        cg.sort();
        let mut eg: Vec<String> = truncated_genes.iter().map(|g| format!("NCBI-GeneID:{g}")).collect();
        eg.sort();
        if cg != eg {
            problems.push(format!("changed genes {cg:?}, expected {eg:?}"));
        }
        if !c.added_omim_diseases().is_empty() || !c.removed_omim_diseases().is_empty() || !c.changed_omim_diseases().is_empty() {
            problems.push("omim differences".into());
        }
        if !c.added_orpha_diseases().is_empty() || !c.removed_orpha_diseases().is_empty() || !c.changed_orpha_diseases().is_empty() {
            problems.push("orpha differences".into());
        }
        problems
    });
    match cmp {
        Ok(p) if p.is_empty() => {}
        Ok(p) => ctx.violation("Ontology::compare", "[round trip] reports differences between an ontology and its binary round trip", json!({"case": case(), "constructor": constructor, "reported": p})),
        Err(p) => ctx.violation("Ontology::compare", "[round trip] panics", json!({"case": case(), "constructor": constructor, "observed": p})),
    }
    // second round trip is a fixed point
    ctx.exec();
    let again = guard(|| o2.as_bytes()).ok().and_then(|b| drive::from_bytes(&b).ok()).and_then(|r| r.ok());
    match again {
        None => ctx.violation(site, "second round trip fails", json!({"case": case(), "constructor": constructor})),
        Some(o3) => match Obs::of(&o3) {
            Ok(third) => {
                if let Some((s, sig, det)) = third.diff(&after, true) {
                    ctx.violation(&s, &format!("[second round trip] not a fixed point: {sig}"), json!({"case": case(), "constructor": constructor, "difference": det}));
                }
            }
            Err(i) => ctx.violation(&i.site, "[second round trip] read API inconsistent", json!({"case": case(), "observed": i.what})),
        },
    }
    ctx.outcome(after.fingerprint());
}

/// Build the ontology of a spec through every public constructor that can express it, and round-trip each.
fn run_spec(ctx: &mut Ctx, spec: &Spec, label: &str) {
    let f = spec.facts();
    let case = || json!({"deviations": label, "facts": f.to_json()});
    let mut built = 0;
    if !spec.needs_flags() {
        ctx.transitions(f.n_steps());
        match drive::build(&f, Mode::Defaults) {
            Ok(o) => {
                built += 1;
                roundtrip(ctx, &o, "Builder", &case);
            }
            Err(e) => ctx.violation("Builder", "construction fails on valid facts", json!({"case": case(), "observed": e})),
        }
    }
    if !spec.long_names() && names().get(spec.term_name).map(|n| n.len() <= 255).unwrap_or(false) && names().get(spec.gene_name).map(|n| n.len() <= 255).unwrap_or(false) {
        ctx.transitions(f.n_steps());
        let bytes = encode::encode(&f, &EncOpts::v(3));
        match drive::from_bytes(&bytes) {
            Ok(Ok(o)) => {
                built += 1;
                roundtrip(ctx, &o, "from_bytes(independent encoder)", &case);
            }
            other => ctx.violation("Ontology::from_bytes", "rejects a file laid out as documented", json!({"case": case(), "observed": format!("{:?}", other.map(|r| r.map(|_| ())))})),
        }
    }
    if spec.textable() {
        ctx.transitions(f.n_steps());
        let mut tf = f.clone();
        tf.anns.retain(|a| a.term.is_some());
        match jax::load(&jax::render(&tf, &JaxOpts::default()), false) {
            Ok(Ok(o)) => {
                built += 1;
                roundtrip(ctx, &o, "from_standard", &case);
            }
            other => ctx.violation("Ontology::from_standard", "rejects valid JAX files", json!({"case": case(), "observed": format!("{:?}", other.map(|r| r.map(|_| ())))})),
        }
    }
    if built == 0 {
        ctx.bump("specs_not_constructible_through_any_public_constructor", 1);
    }
}

pub fn run(ctx: &mut Ctx) {
    let thorough = ctx.tier.thorough();
    ctx.rule = "deviation-bounded: case = base ontology (HP:1, HP:118, one further term, two records per kind) with 0, 1, 2 or 3 (thorough: 4) deviations from the listed dimensions (names incl. 255/256-byte and limit-inside-a-character, flags, ids, record shapes, versions), built through every public constructor able to express it (Builder, from_bytes of the independent encoder, from_standard) and round-tripped twice; plus the small-ontology family of C08 (all DAG shapes <= 4 terms with flags and records); distinct by construction; non-trivial = at least one deviation".into();
    ctx.assumptions = vec![
        "term and gene names are limited to 255 bytes by the format: the expected reloaded name is the longest prefix ending on a character boundary within 255 bytes; disease names are unlimited".into(),
        "the ontology contains HP:0000001 and HP:0000118".into(),
        "observational identity = equality of the sorted whole-read-API observation (DESIGN.md 2.3), information content bit for bit".into(),
    ];
    let devs = deviations();
    ctx.space("deviations/0-and-1", &format!("base + each of {} single deviations", devs.len()));
    if ctx.take() {
        ctx.state();
        run_spec(ctx, &Spec::base(), "none");
        ctx.sample(|| json!({"deviations": "none", "facts": Spec::base().facts().to_json()}));
    }
    for (name, d) in &devs {
        if !ctx.take() {
            continue;
        }
        ctx.state();
        ctx.nontrivial();
        let mut s = Spec::base();
        d(&mut s);
        run_spec(ctx, &s, name);
        ctx.sample(|| json!({"deviations": name}));
    }
    ctx.space("deviations/2", &format!("all {} unordered pairs of deviations", devs.len() * (devs.len() - 1) / 2));
    for i in 0..devs.len() {
        for j in i + 1..devs.len() {
            if !ctx.take() {
                continue;
            }
            ctx.state();
            ctx.nontrivial();
            let mut s = Spec::base();
            (devs[i].1)(&mut s);
            (devs[j].1)(&mut s);
            let label = format!("{} + {}", devs[i].0, devs[j].0);
            run_spec(ctx, &s, &label);
            ctx.sample(|| json!({"deviations": label}));
        }
    }
    {
        ctx.space("deviations/3", "all unordered triples of deviations");
        for i in 0..devs.len() {
            for j in i + 1..devs.len() {
                for k in j + 1..devs.len() {
                    if !ctx.take() {
                        continue;
                    }
                    ctx.state();
                    ctx.nontrivial();
                    let mut s = Spec::base();
                    (devs[i].1)(&mut s);
                    (devs[j].1)(&mut s);
                    (devs[k].1)(&mut s);
                    let label = format!("{} + {} + {}", devs[i].0, devs[j].0, devs[k].0);
                    run_spec(ctx, &s, &label);
                    ctx.sample(|| json!({"deviations": label}));
                }
            }
        }
    }
    if thorough {
        ctx.space("deviations/4", "all unordered quadruples of deviations (thorough)");
        for i in 0..devs.len() {
            for j in i + 1..devs.len() {
                for k in j + 1..devs.len() {
                    for l in k + 1..devs.len() {
                        if !ctx.take() {
                            continue;
                        }
                        ctx.state();
                        ctx.nontrivial();
                        let mut s = Spec::base();
                        (devs[i].1)(&mut s);
                        (devs[j].1)(&mut s);
                        (devs[k].1)(&mut s);
                        (devs[l].1)(&mut s);
                        let label = format!("{} + {} + {} + {}", devs[i].0, devs[j].0, devs[k].0, devs[l].0);
                        run_spec(ctx, &s, &label);
                        ctx.sample(|| json!({"deviations": label}));
                    }
                }
            }
            if ctx.out_of_time() {
                break;
            }
        }
    }

    // ---- every small shape (DAGs <= 4 terms x flags x record patterns), loaded from the independent
    // encoder (so obsolete / replaced terms occur) and from the Builder where no flag is set
    let family = format_family(4, if thorough { 1 } else { 2 });
    ctx.space("family/small-ontologies", &format!("{} fact sets (labelled DAGs over HP:1, HP:118 + <=2 terms x flag variants x record patterns) via from_bytes(encoder), without flags via Builder, with flags via from_standard in both stanza orders", family.len()));
    for (f, what) in &family {
        if !ctx.take() {
            continue;
        }
        ctx.state();
        if !f.anns.is_empty() {
            ctx.nontrivial();
        }
        let case = || json!({"family": what, "facts": f.to_json()});
        ctx.transitions(f.n_steps());
        match drive::from_bytes(&encode::encode(f, &EncOpts::v(3))) {
            Ok(Ok(o)) => roundtrip(ctx, &o, "from_bytes(independent encoder)", &case),
            other => ctx.violation("Ontology::from_bytes", "rejects a file laid out as documented", json!({"case": case(), "observed": format!("{:?}", other.map(|r| r.map(|_| ())))})),
        }
        if f.terms.iter().all(|t| !t.obsolete && t.replacement.is_none()) {
            ctx.transitions(f.n_steps());
            if let Ok(o) = drive::build(f, Mode::Defaults) {
                roundtrip(ctx, &o, "Builder", &case);
            }
        } else {
            // flagged terms from a constructor that does not share code with the binary loader: the text
            // loader, in ascending and descending stanza order (so a replaced term is stored both before and
            // after its replacement; the serialiser writes terms in the order they were added)
            let mut tf = f.clone();
            tf.anns.retain(|a| a.term.is_some());
            for t in tf.terms.iter_mut() {
                if t.name.is_empty() {
                    t.name = "n".into();
                }
            }
            let n = tf.terms.len();
            for (order, oname) in [((0..n).collect::<Vec<usize>>(), "from_standard, stanzas ascending"), ((0..n).rev().collect::<Vec<usize>>(), "from_standard, stanzas descending")] {
                let mut o = jax::JaxOpts::default();
                o.stanza_order = Some(order);
                ctx.transitions(tf.n_steps());
                if let Ok(Ok(ont)) = jax::load(&jax::render(&tf, &o), false) {
                    roundtrip(ctx, &ont, oname, &|| json!({"family": what, "facts": tf.to_json(), "constructor": oname}));
                }
            }
        }
        ctx.sample(|| json!({"family": what}));
    }
    jax::cleanup();

}
