//! C07 - binary serialisation round-trips every ontology.

use super::common::format_family;
use crate::ctx::{guard, Ctx};
use crate::drive;
use crate::encode::{self, EncOpts};
use crate::jax::{self, JaxOpts};
use crate::model::{Facts, Kind, Mode};
use crate::obs::Obs;
use hpo::annotations::AnnotationId;
use hpo::Ontology;
use serde_json::{json, Value};

/// longest prefix of `s` that ends on a character boundary within 255 bytes
fn truncate255(s: &str) -> String {
    let mut n = s.len().min(255);
    while !s.is_char_boundary(n) {
        n -= 1;
    }
    s[..n].to_string()
}

fn names() -> Vec<String> {
    vec![
        "Base name".to_string(),
        String::new(),
        "a".to_string(),
        "\u{e9}\u{1F600}".to_string(),
        "A".repeat(255),
        "A".repeat(256),
        format!("{}\u{e9}", "A".repeat(254)),
        format!("{}\u{1F600}", "A".repeat(253)),
        "\u{e9}\u{1F600}".repeat(100),
        format!("{}\u{20ac}{}", "B".repeat(252), "C".repeat(10)),
        // a name that merely LOOKS like a retired term's label (the flag is a separate field)
        "obsolete Foo".to_string(),
        // white space at both ends is part of the name
        " padded ".to_string(),
        " ".to_string(),
    ]
}

#[derive(Clone, Debug)]
struct Spec {
    term_name: usize,
    gene_name: usize,
    omim_name: usize, // index into names, or names.len() = 70_000 byte name
    orpha_name: usize,
    obsolete: bool,
    replacement: u8, // 0 none, 1 -> HP:118, 2 -> HP:1, 3 -> HP:4242 (a term that is absent from the ontology)
    extra_id: u32,
    rec_id: u32,
    rec_terms: u8, // 0, 1, 2 direct terms per record
    kinds_present: [bool; 3],
    version: (u16, u8, u8),
    second_extra: bool,
    same_names: bool,
    obsolete_keeps_link: bool,
}

impl Spec {
    fn base() -> Spec {
        Spec { term_name: 0, gene_name: 0, omim_name: 0, orpha_name: 0, obsolete: false, replacement: 0, extra_id: 119, rec_id: 7, rec_terms: 1, kinds_present: [true; 3], version: (2024, 2, 29), second_extra: false, same_names: false, obsolete_keeps_link: false }
    }
    fn facts(&self) -> Facts {
        let nm = names();
        let name_of = |i: usize| -> String { if i < nm.len() { nm[i].clone() } else { "long disease name ".repeat(4000) } };
        let mut f = Facts::default();
        f.version = self.version;
        f.terms.push(Facts::term(1, "All"));
        f.terms.push(Facts::term(118, "Phenotypic abnormality"));
        f.edges.push((118, 1));
        f.terms.push(crate::model::TermFact { id: self.extra_id, name: name_of(self.term_name), obsolete: self.obsolete, replacement: match self.replacement { 0 => None, 1 => Some(118), 2 => Some(1), _ => Some(4242) } });
        if !self.obsolete || self.obsolete_keeps_link {
            f.edges.push((self.extra_id, 118));
        }
        if self.second_extra {
            f.terms.push(Facts::term(5, "Mode of inheritance"));
            f.edges.push((5, 1));
            f.terms.push(Facts::term(6, "child of modifier"));
            f.edges.push((6, 5));
        }
        let targets: Vec<u32> = match self.rec_terms {
            0 => vec![],
            1 => vec![if self.obsolete { 118 } else { self.extra_id }],
            _ => vec![118, if self.obsolete { 1 } else { self.extra_id }],
        };
        for (k, kind) in [Kind::Gene, Kind::Omim, Kind::Orpha].into_iter().enumerate() {
            if !self.kinds_present[k] {
                continue;
            }
            let name = match kind {
                Kind::Gene => name_of(self.gene_name),
                Kind::Omim => name_of(self.omim_name),
                Kind::Orpha => name_of(self.orpha_name),
            };
            if targets.is_empty() {
                f.anns.push(Facts::ann(kind, self.rec_id, &name, None));
            }
            for t in &targets {
                f.anns.push(Facts::ann(kind, self.rec_id, &name, Some(*t)));
            }
            // a second record of the kind so that sections hold several records
            f.anns.push(Facts::ann(kind, 1000 + k as u32, if self.same_names { &name } else { "Second record" }, Some(118)));
        }
        f.edges.dedup();
        f
    }
    fn needs_flags(&self) -> bool {
        self.obsolete || self.replacement != 0
    }
    fn long_names(&self) -> bool {
        let nm = names();
        let l = |i: usize| if i < nm.len() { nm[i].len() } else { 70_000 };
        l(self.term_name) > 255 || l(self.gene_name) > 255
    }
    fn textable(&self) -> bool {
        self.version.0 <= 9999 && self.version.1 <= 99 && self.version.2 <= 99
    }
    /// HP:0000000 as a real term: the id range is documented as "1 to 10 million" in one place and ids are plain u32
    /// in the public API, so a constructor may refuse it (tolerated); an ontology that does contain it must round-trip
    fn tolerant(&self) -> bool {
        self.extra_id == 0
    }
}

/// the alternative values of every dimension (deviations from the base)
fn deviations() -> Vec<(String, Box<dyn Fn(&mut Spec)>)> {
    let mut v: Vec<(String, Box<dyn Fn(&mut Spec)>)> = vec![];
    let n = names().len();
    for i in 1..n {
        v.push((format!("term name #{i}"), Box::new(move |s: &mut Spec| s.term_name = i)));
        v.push((format!("gene name #{i}"), Box::new(move |s: &mut Spec| s.gene_name = i)));
        v.push((format!("omim name #{i}"), Box::new(move |s: &mut Spec| s.omim_name = i)));
        v.push((format!("orpha name #{i}"), Box::new(move |s: &mut Spec| s.orpha_name = i)));
    }
    v.push(("omim name 70000 bytes".into(), Box::new(move |s: &mut Spec| s.omim_name = n)));
    v.push(("orpha name 70000 bytes".into(), Box::new(move |s: &mut Spec| s.orpha_name = n)));
    v.push(("obsolete".into(), Box::new(|s: &mut Spec| s.obsolete = true)));
    v.push(("replacement -> HP:118".into(), Box::new(|s: &mut Spec| s.replacement = 1)));
    v.push(("replacement -> HP:1".into(), Box::new(|s: &mut Spec| s.replacement = 2)));
    v.push(("replacement -> HP:4242 (absent from the ontology)".into(), Box::new(|s: &mut Spec| s.replacement = 3)));
    v.push(("extra id 0".into(), Box::new(|s: &mut Spec| s.extra_id = 0)));
    v.push(("extra id 2".into(), Box::new(|s: &mut Spec| s.extra_id = 2)));
    v.push(("extra id 9999999".into(), Box::new(|s: &mut Spec| s.extra_id = 9_999_999)));
    v.push(("record id 1".into(), Box::new(|s: &mut Spec| s.rec_id = 1)));
    v.push(("record id u32::MAX".into(), Box::new(|s: &mut Spec| s.rec_id = u32::MAX)));
    v.push(("records without terms".into(), Box::new(|s: &mut Spec| s.rec_terms = 0)));
    v.push(("records with two terms".into(), Box::new(|s: &mut Spec| s.rec_terms = 2)));
    v.push(("no genes".into(), Box::new(|s: &mut Spec| s.kinds_present[0] = false)));
    v.push(("no omim".into(), Box::new(|s: &mut Spec| s.kinds_present[1] = false)));
    v.push(("no orpha".into(), Box::new(|s: &mut Spec| s.kinds_present[2] = false)));
    v.push(("no records at all".into(), Box::new(|s: &mut Spec| s.kinds_present = [false; 3])));
    v.push(("version 0000-00-00".into(), Box::new(|s: &mut Spec| s.version = (0, 0, 0))));
    v.push(("version 65535-255-255".into(), Box::new(|s: &mut Spec| s.version = (65535, 255, 255))));
    v.push(("modifier branch".into(), Box::new(|s: &mut Spec| s.second_extra = true)));
    v.push(("both records of each kind have the same name".into(), Box::new(|s: &mut Spec| s.same_names = true)));
    v.push(("obsolete term keeps its is_a link".into(), Box::new(|s: &mut Spec| {
        s.obsolete = true;
        s.obsolete_keeps_link = true;
    })));
    v
}

/// The text formats cannot carry an empty (or all-blank) term name, gene symbol or disease name: `name: ` and an
/// empty tab-separated column are not valid JAX content, so such fact sets are not built through the text loaders.
fn text_expressible(f: &Facts) -> bool {
    f.terms.iter().all(|t| !t.name.trim().is_empty()) && f.anns.iter().filter(|a| a.term.is_some()).all(|a| !a.name.trim().is_empty())
}

#[derive(Clone, Copy, Default)]
struct Rt {
    /// the source was built without the default categories / modifier roots (`sub_ontology` returns such ontologies);
    /// the binary format does not store them and the loader always applies the defaults, so they are not compared
    no_defaults: bool,
    /// a source whose own read API is inconsistent is skipped instead of reported (HP:0000000, see Spec::tolerant)
    tolerant: bool,
}

/// serialise, reload, compare through the whole read API and compare(); then once more (fixed point)
fn roundtrip(ctx: &mut Ctx, o: &Ontology, constructor: &str, case: &dyn Fn() -> Value) {
    roundtrip_with(ctx, o, constructor, case, Rt::default())
}

fn roundtrip_with(ctx: &mut Ctx, o: &Ontology, constructor: &str, case: &dyn Fn() -> Value, rt: Rt) {
    ctx.exec();
    ctx.validated();
    ctx.transitions(2);
    let site = "Ontology::as_bytes -> from_bytes";
    let before = match Obs::of(o) {
        Ok(b) => b,
        Err(_) if rt.tolerant => {
            ctx.bump("sources_with_term_id_0_not_walkable_skipped", 1);
            return;
        }
        Err(i) => {
            ctx.violation(&i.site, &format!("[{constructor}] read API inconsistent before serialisation"), json!({"case": case(), "observed": i.what}));
            return;
        }
    };
    let bytes = match guard(|| o.as_bytes()) {
        Ok(b) => b,
        Err(p) => {
            ctx.violation("Ontology::as_bytes", "panics", json!({"case": case(), "constructor": constructor, "observed": p}));
            return;
        }
    };
    let o2 = match drive::from_bytes(&bytes) {
        Ok(Ok(o2)) => o2,
        Ok(Err(e)) => {
            ctx.violation(site, "serialisation emits bytes that the loader rejects", json!({"case": case(), "constructor": constructor, "observed": e}));
            return;
        }
        Err(p) => {
            ctx.violation(site, "serialisation emits bytes that the loader panics on", json!({"case": case(), "constructor": constructor, "observed": p}));
            return;
        }
    };
    // expectation: the same observation, term and gene names cut to 255 bytes at a character boundary
    let mut exp = before.clone();
    let mut truncated_terms = vec![];
    let mut truncated_genes = vec![];
    for t in exp.terms.iter_mut() {
        let c = truncate255(&t.name);
        if c != t.name {
            truncated_terms.push(t.id);
            t.name = c;
        }
    }
    for g in exp.recs[0].iter_mut() {
        let c = truncate255(&g.name);
        if c != g.name {
            truncated_genes.push(g.id);
            g.name = c;
        }
    }
    let after = match Obs::of(&o2) {
        Ok(a) => a,
        Err(i) => {
            ctx.violation(&i.site, &format!("[{constructor}] read API inconsistent after the round trip"), json!({"case": case(), "observed": i.what}));
            return;
        }
    };
    if rt.no_defaults {
        exp.categories = after.categories.clone();
        exp.modifier = after.modifier.clone();
        for (e, a) in exp.terms.iter_mut().zip(after.terms.iter()) {
            if e.id == a.id {
                e.is_modifier = a.is_modifier;
                e.categories = a.categories.clone();
            }
        }
    }
    if let Some((s, sig, det)) = after.diff(&exp, true) {
        ctx.violation(&s, &format!("[round trip] {sig}"), json!({"case": case(), "constructor": constructor, "difference (reloaded vs original)": det}));
        return;
    }
    // Ontology::compare reports nothing (apart from the documented name truncation)
    let cmp = guard(|| {
        let c = o.compare(&o2);
        let mut problems: Vec<String> = vec![];
        if !c.added_hpo_terms().is_empty() || !c.removed_hpo_terms().is_empty() {
            problems.push("added/removed terms".into());
        }
        let mut changed: Vec<u32> = c.changed_hpo_terms().iter().map(|d| d.id().as_u32()).collect();
        changed.sort_unstable();
        if changed != truncated_terms {
            problems.push(format!("changed terms {changed:?}, expected only the truncated names {truncated_terms:?}"));
        }
        if !c.added_genes().is_empty() || !c.removed_genes().is_empty() {
            problems.push("added/removed genes".into());
        }
        let mut cg: Vec<String> = c.changed_genes().iter().map(|d| d.id().to_string()).collect();
        cg.sort();
        let mut eg: Vec<String> = truncated_genes.iter().map(|g| format!("NCBI-GeneID:{g}")).collect();
        eg.sort();
        if cg != eg {
            problems.push(format!("changed genes {cg:?}, expected {eg:?}"));
        }
        if !c.added_omim_diseases().is_empty() || !c.removed_omim_diseases().is_empty() || !c.changed_omim_diseases().is_empty() {
            problems.push("omim differences".into());
        }
        if !c.added_orpha_diseases().is_empty() || !c.removed_orpha_diseases().is_empty() || !c.changed_orpha_diseases().is_empty() {
            problems.push("orpha differences".into());
        }
        problems
    });
    match cmp {
        Ok(p) if p.is_empty() => {}
        Ok(p) => ctx.violation("Ontology::compare", "[round trip] reports differences between an ontology and its binary round trip", json!({"case": case(), "constructor": constructor, "reported": p})),
        Err(p) => ctx.violation("Ontology::compare", "[round trip] panics", json!({"case": case(), "constructor": constructor, "observed": p})),
    }
    // second round trip is a fixed point
    ctx.exec();
    let again = guard(|| o2.as_bytes()).ok().and_then(|b| drive::from_bytes(&b).ok()).and_then(|r| r.ok());
    match again {
        None => ctx.violation(site, "second round trip fails", json!({"case": case(), "constructor": constructor})),
        Some(o3) => match Obs::of(&o3) {
            Ok(third) => {
                if let Some((s, sig, det)) = third.diff(&after, true) {
                    ctx.violation(&s, &format!("[second round trip] not a fixed point: {sig}"), json!({"case": case(), "constructor": constructor, "difference": det}));
                }
            }
            Err(i) => ctx.violation(&i.site, "[second round trip] read API inconsistent", json!({"case": case(), "observed": i.what})),
        },
    }
    ctx.outcome(after.fingerprint());
}

/// which of the additional source constructors (`extra_sources`) a case runs: bit e = constructor e
/// (0 clone, 1 sub_ontology, 2 v2 file, 3 v1 file, 4 from_standard_transitive).
/// `clone()` copies the 80 MB id table of the arena (some 30 ms), so it is taken on fewer cases than the others.
type Extras = u8;
const EXTRAS_NONE: Extras = 0;
const EXTRAS_ALL: Extras = 0b11111;
const EXTRAS_ALL_BUT_CLONE: Extras = 0b11110;
/// one of the four cheap constructors, in rotation
fn extras_one(k: usize) -> Extras {
    1 << (1 + k % 4)
}

const N_EXTRAS: usize = 5;

/// Further public constructors as sources of the round trip: `clone()` and `sub_ontology(HP:1, every term below it)`
/// of an ontology that was already built (`base`), `from_bytes` of a v2 and of a v1 file written by the independent
/// encoder (the documented upgrade path: read an old file, write the newest layout), `from_standard_transitive`.
#[allow(clippy::too_many_arguments)]
fn extra_sources(ctx: &mut Ctx, f: &Facts, base: Option<&Ontology>, which: Extras, encodable: bool, textable: bool, tolerant: bool, case: &dyn Fn() -> Value) {
    let rt = Rt { tolerant, no_defaults: false };
    for e in 0..N_EXTRAS {
        if which >> e & 1 == 0 {
            continue;
        }
        match e {
            0 => {
                if let Some(b) = base {
                    match guard(|| b.clone()) {
                        Ok(c) => roundtrip_with(ctx, &c, "clone() of a built ontology", case, rt),
                        Err(p) => ctx.violation("Ontology::clone", "panics", json!({"case": case(), "observed": p})),
                    }
                }
            }
            1 => {
                if let Some(b) = base {
                    // whether sub_ontology itself is right is C14's business; here its result is only a source
                    let res = guard(|| {
                        let one = hpo::HpoTermId::from_u32(1);
                        let root = b.hpo(one)?;
                        let leaves: Vec<hpo::HpoTerm> = b.iter().filter(|t| t.id() == one || t.all_parent_ids().contains(&one)).collect();
                        b.sub_ontology(root, leaves).ok()
                    });
                    match res {
                        Ok(Some(sub)) if guard(|| sub.hpo(1u32).is_some() && sub.hpo(118u32).is_some()).unwrap_or(false) => {
                            roundtrip_with(ctx, &sub, "sub_ontology(HP:1, every term below HP:1)", case, Rt { tolerant, no_defaults: true });
                        }
                        _ => ctx.bump("sub_ontology_sources_skipped (failed, or without both root terms)", 1),
                    }
                }
            }
            2 | 3 => {
                let version = if e == 2 { 2u8 } else { 1u8 };
                if encodable {
                    let pf = encode::project(f, version);
                    ctx.transitions(pf.n_steps());
                    match drive::from_bytes(&encode::encode(&pf, &EncOpts::v(version))) {
                        Ok(Ok(o)) => roundtrip_with(ctx, &o, &format!("from_bytes(independent encoder, v{version} file)"), case, rt),
                        _ if tolerant => ctx.bump("sources_with_term_id_0_refused_by_a_constructor", 1),
                        other => ctx.violation("Ontology::from_bytes", &format!("rejects a v{version} file laid out as documented"), json!({"case": case(), "observed": format!("{:?}", other.map(|r| r.map(|_| ())))})),
                    }
                }
            }
            _ => {
                let mut tf = f.clone();
                tf.anns.retain(|a| a.term.is_some());
                if textable && text_expressible(&tf) {
                    ctx.transitions(tf.n_steps());
                    match jax::load(&jax::render(&tf, &JaxOpts::default()), true) {
                        Ok(Ok(o)) => roundtrip_with(ctx, &o, "from_standard_transitive", case, rt),
                        _ if tolerant => ctx.bump("sources_with_term_id_0_refused_by_a_constructor", 1),
                        other => ctx.violation("Ontology::from_standard_transitive", "rejects valid JAX files", json!({"case": case(), "observed": format!("{:?}", other.map(|r| r.map(|_| ())))})),
                    }
                }
            }
        }
    }
}

/// Build the ontology of a spec through every public constructor that can express it, and round-trip each.
fn run_spec(ctx: &mut Ctx, spec: &Spec, label: &str, extras: Extras) {
    let f = spec.facts();
    let case = || json!({"deviations": label, "facts": f.to_json()});
    let tolerant = spec.tolerant();
    let rt = Rt { tolerant, no_defaults: false };
    let mut built = 0;
    let mut base: Option<Ontology> = None;
    if !spec.needs_flags() {
        ctx.transitions(f.n_steps());
        match drive::build(&f, Mode::Defaults) {
            Ok(o) => {
                built += 1;
                roundtrip_with(ctx, &o, "Builder", &case, rt);
                base = Some(o);
            }
            Err(_) if tolerant => ctx.bump("sources_with_term_id_0_refused_by_a_constructor", 1),
            Err(e) => ctx.violation("Builder", "construction fails on valid facts", json!({"case": case(), "observed": e})),
        }
    }
    if !spec.long_names() {
        ctx.transitions(f.n_steps());
        let bytes = encode::encode(&f, &EncOpts::v(3));
        match drive::from_bytes(&bytes) {
            Ok(Ok(o)) => {
                built += 1;
                roundtrip_with(ctx, &o, "from_bytes(independent encoder)", &case, rt);
                if base.is_none() {
                    base = Some(o);
                }
            }
            _ if tolerant => ctx.bump("sources_with_term_id_0_refused_by_a_constructor", 1),
            other => ctx.violation("Ontology::from_bytes", "rejects a file laid out as documented", json!({"case": case(), "observed": format!("{:?}", other.map(|r| r.map(|_| ())))})),
        }
    }
    if spec.textable() {
        let mut tf = f.clone();
        tf.anns.retain(|a| a.term.is_some());
        if text_expressible(&tf) {
            ctx.transitions(f.n_steps());
            match jax::load(&jax::render(&tf, &JaxOpts::default()), false) {
                Ok(Ok(o)) => {
                    built += 1;
                    roundtrip_with(ctx, &o, "from_standard", &case, rt);
                    if base.is_none() {
                        base = Some(o);
                    }
                }
                _ if tolerant => ctx.bump("sources_with_term_id_0_refused_by_a_constructor", 1),
                other => ctx.violation("Ontology::from_standard", "rejects valid JAX files", json!({"case": case(), "observed": format!("{:?}", other.map(|r| r.map(|_| ())))})),
            }
        } else {
            ctx.bump("text_path_skipped (an empty or blank name cannot be expressed in the text formats)", 1);
        }
    }
    extra_sources(ctx, &f, base.as_ref(), extras, !spec.long_names(), spec.textable(), tolerant, &case);
    if built == 0 {
        ctx.bump("specs_not_constructible_through_any_public_constructor", 1);
    }
}

pub fn run(ctx: &mut Ctx) {
    let thorough = ctx.tier.thorough();
    ctx.rule = "deviation-bounded: case = base ontology (HP:1, HP:118, one further term, two records per kind) with 0, 1, 2 or 3 (thorough: 4) deviations from the listed dimensions (names incl. 255/256-byte and limit-inside-a-character, flags, ids, record shapes, versions), built through every public constructor able to express it (Builder, from_bytes of the independent encoder for v3 / v2 / v1 files, from_standard, from_standard_transitive, clone, sub_ontology) and round-tripped twice; plus the small-ontology family of C08 (all DAG shapes <= 4 terms with flags and records); plus structured sizes on the writer side (id lists across 10 / 30 / 255 entries, sections beyond 64 KiB); distinct by construction; non-trivial = at least one deviation".into();
    ctx.assumptions = vec![
        "term and gene names are limited to 255 bytes by the format: the expected reloaded name is the longest prefix ending on a character boundary within 255 bytes; disease names are unlimited".into(),
        "the ontology contains HP:0000001 and HP:0000118".into(),
        "observational identity = equality of the sorted whole-read-API observation (DESIGN.md 2.3), information content bit for bit".into(),
        "categories and modifier roots are not stored in the file and the loader always applies the defaults: every source is built with the defaults, except sub_ontology results (built without), for which categories / modifier roots / is_modifier are not compared".into(),
        "a replacement id naming a term that is absent from the ontology is data like any other and must survive unchanged".into(),
        "HP:0000000 as a real term: a constructor may refuse it and a source that is not walkable is skipped; an ontology that contains it must round-trip".into(),
        "empty or all-blank term names / gene symbols / disease names cannot be expressed in the text formats: such fact sets are not built through the text loaders".into(),
    ];
    let devs = deviations();
    ctx.space("deviations/0-and-1", &format!("base + each of {} single deviations, each through Builder / from_bytes(encoder) / from_standard and clone / sub_ontology / v2 file / v1 file / from_standard_transitive where expressible", devs.len()));
    if ctx.take() {
        ctx.state();
        run_spec(ctx, &Spec::base(), "none", EXTRAS_ALL);
        ctx.sample(|| json!({"deviations": "none", "facts": Spec::base().facts().to_json()}));
    }
    for (name, d) in &devs {
        if !ctx.take() {
            continue;
        }
        ctx.state();
        ctx.nontrivial();
        let mut s = Spec::base();
        d(&mut s);
        run_spec(ctx, &s, name, EXTRAS_ALL);
        ctx.sample(|| json!({"deviations": name}));
    }
    ctx.space("deviations/2", &format!("all {} unordered pairs of deviations, each also through sub_ontology / v2 file / v1 file / from_standard_transitive and every 97th (thorough: every) pair through clone()", devs.len() * (devs.len() - 1) / 2));
    let mut pair_no = 0usize;
    for i in 0..devs.len() {
        for j in i + 1..devs.len() {
            pair_no += 1;
            if !ctx.take() {
                continue;
            }
            ctx.state();
            ctx.nontrivial();
            let mut s = Spec::base();
            (devs[i].1)(&mut s);
            (devs[j].1)(&mut s);
            let label = format!("{} + {}", devs[i].0, devs[j].0);
            run_spec(ctx, &s, &label, if thorough || pair_no % 97 == 0 { EXTRAS_ALL } else { EXTRAS_ALL_BUT_CLONE });
            ctx.sample(|| json!({"deviations": label}));
        }
    }
    {
        ctx.space("deviations/3", "all unordered triples of deviations; every 5th triple additionally through one of sub_ontology / v2 file / v1 file / from_standard_transitive (in rotation)");
        let mut triple_no = 0usize;
        for i in 0..devs.len() {
            for j in i + 1..devs.len() {
                for k in j + 1..devs.len() {
                    triple_no += 1;
                    if !ctx.take() {
                        continue;
                    }
                    ctx.state();
                    ctx.nontrivial();
                    let mut s = Spec::base();
                    (devs[i].1)(&mut s);
                    (devs[j].1)(&mut s);
                    (devs[k].1)(&mut s);
                    let label = format!("{} + {} + {}", devs[i].0, devs[j].0, devs[k].0);
                    run_spec(ctx, &s, &label, if triple_no % 5 == 0 { extras_one(triple_no / 5) } else { EXTRAS_NONE });
                    ctx.sample(|| json!({"deviations": label}));
                }
            }
        }
    }
    if thorough {
        ctx.space("deviations/4", "all unordered quadruples of deviations (thorough)");
        for i in 0..devs.len() {
            for j in i + 1..devs.len() {
                for k in j + 1..devs.len() {
                    for l in k + 1..devs.len() {
                        if !ctx.take() {
                            continue;
                        }
                        ctx.state();
                        ctx.nontrivial();
                        let mut s = Spec::base();
                        (devs[i].1)(&mut s);
                        (devs[j].1)(&mut s);
                        (devs[k].1)(&mut s);
                        (devs[l].1)(&mut s);
                        let label = format!("{} + {} + {} + {}", devs[i].0, devs[j].0, devs[k].0, devs[l].0);
                        run_spec(ctx, &s, &label, EXTRAS_NONE);
                        ctx.sample(|| json!({"deviations": label}));
                    }
                }
            }
            if ctx.out_of_time() {
                break;
            }
        }
    }

    // ---- every small shape (DAGs <= 4 terms x flags x record patterns), loaded from the independent
    // encoder (so obsolete / replaced terms occur) and from the Builder where no flag is set
    let family = format_family(4, if thorough { 1 } else { 2 });
    ctx.space("family/small-ontologies", &format!("{} fact sets (labelled DAGs over HP:1, HP:118 + <=2 terms x flag variants x record patterns) via from_bytes(encoder), without flags via Builder, with flags via from_standard in both stanza orders, and through one of sub_ontology / v2 file / v1 file / from_standard_transitive in rotation (thorough: also clone)", family.len()));
    let mut family_no = 0usize;
    for (f, what) in &family {
        family_no += 1;
        if !ctx.take() {
            continue;
        }
        ctx.state();
        if !f.anns.is_empty() {
            ctx.nontrivial();
        }
        let case = || json!({"family": what, "facts": f.to_json()});
        ctx.transitions(f.n_steps());
        let mut base: Option<Ontology> = None;
        match drive::from_bytes(&encode::encode(f, &EncOpts::v(3))) {
            Ok(Ok(o)) => {
                roundtrip(ctx, &o, "from_bytes(independent encoder)", &case);
                base = Some(o);
            }
            other => ctx.violation("Ontology::from_bytes", "rejects a file laid out as documented", json!({"case": case(), "observed": format!("{:?}", other.map(|r| r.map(|_| ())))})),
        }
        // one of the further constructors, in rotation over the family
        extra_sources(ctx, f, base.as_ref(), if thorough && family_no % 5 == 0 { 1 } else { extras_one(family_no) }, true, true, false, &case);
        if f.terms.iter().all(|t| !t.obsolete && t.replacement.is_none()) {
            ctx.transitions(f.n_steps());
            if let Ok(o) = drive::build(f, Mode::Defaults) {
                roundtrip(ctx, &o, "Builder", &case);
            }
        } else {
            // flagged terms from a constructor that does not share code with the binary loader: the text
            // loader, in ascending and descending stanza order (so a replaced term is stored both before and
            // after its replacement; the serialiser writes terms in the order they were added)
            let mut tf = f.clone();
            tf.anns.retain(|a| a.term.is_some());
            for t in tf.terms.iter_mut() {
                if t.name.is_empty() {
                    t.name = "n".into();
                }
            }
            let n = tf.terms.len();
            for (order, oname) in [((0..n).collect::<Vec<usize>>(), "from_standard, stanzas ascending"), ((0..n).rev().collect::<Vec<usize>>(), "from_standard, stanzas descending")] {
                let mut o = jax::JaxOpts::default();
                o.stanza_order = Some(order);
                ctx.transitions(tf.n_steps());
                if let Ok(Ok(ont)) = jax::load(&jax::render(&tf, &o), false) {
                    roundtrip(ctx, &ont, oname, &|| json!({"family": what, "facts": tf.to_json(), "constructor": oname}));
                }
            }
        }
        ctx.sample(|| json!({"family": what}));
    }

    // ---- writer-side sizes: id lists across the inline capacities and 8-bit borders, sections beyond 64 KiB
    {
        // fan-in: m hub terms below HP:118 and one leaf with all m hubs as parents; a gene on all m+1 of them, an OMIM
        // disease on the m hubs, an ORPHA disease on m-1 hubs; a second record per kind
        let fan = |m: usize| -> Facts {
            let mut f = Facts::default();
            f.version = (2024, 2, 29);
            f.terms.push(Facts::term(1, "All"));
            f.terms.push(Facts::term(118, "Phenotypic abnormality"));
            f.edges.push((118, 1));
            let leaf = 5000u32;
            for k in 0..m as u32 {
                f.terms.push(Facts::term(1000 + k, &format!("Hub {k}")));
                f.edges.push((1000 + k, 118));
            }
            f.terms.push(Facts::term(leaf, "Leaf"));
            for k in 0..m as u32 {
                f.edges.push((leaf, 1000 + k));
            }
            for k in 0..m as u32 {
                f.anns.push(Facts::ann(Kind::Gene, 11, "GENE1", Some(1000 + k)));
                f.anns.push(Facts::ann(Kind::Omim, 600_001, "Disease one", Some(1000 + k)));
                if k + 1 < m as u32 {
                    f.anns.push(Facts::ann(Kind::Orpha, 77, "Orpha one", Some(1000 + k)));
                }
            }
            f.anns.push(Facts::ann(Kind::Gene, 11, "GENE1", Some(leaf)));
            f.anns.push(Facts::ann(Kind::Gene, 22, "GENE2", Some(leaf)));
            f.anns.push(Facts::ann(Kind::Omim, 600_002, "Disease two", Some(118)));
            f.anns.push(Facts::ann(Kind::Orpha, 78, "Orpha two", Some(leaf)));
            f
        };
        let mut sizes: Vec<usize> = vec![9, 10, 11, 29, 30, 31, 32, 35, 40, 255, 256, 300];
        if thorough {
            sizes = (2..=70).chain(250..=260).chain([300, 511, 512, 1000]).collect();
        }
        let mut cases: Vec<(Facts, String)> = sizes.iter().map(|&m| (fan(m), format!("a term with {m} parents, a gene with {} terms, an OMIM disease with {m} terms, an ORPHA disease with {} terms", m + 1, m - 1))).collect();
        for (f, what) in super::common::large_family() {
            if what.starts_with("deep chain of 300 terms") {
                let mut g = f.clone();
                for t in &f.terms {
                    g.anns.push(Facts::ann(Kind::Gene, 11, "GENE1", Some(t.id)));
                    g.anns.push(Facts::ann(Kind::Omim, 600_001, "Disease one", Some(t.id)));
                }
                g.anns.push(Facts::ann(Kind::Orpha, 77, "Orpha one", Some(118)));
                cases.push((g, format!("{what}, a gene and an OMIM disease on every term")));
            }
        }
        {
            // sections beyond 64 KiB: 3000 leaves with 20-byte names (term section ~100 KiB) and five parents each
            // (parent section ~84 KiB), one gene per leaf (gene section ~78 KiB), an OMIM disease on every leaf
            let mut f = Facts::default();
            f.version = (2024, 2, 29);
            f.terms.push(Facts::term(1, "All"));
            f.terms.push(Facts::term(118, "Phenotypic abnormality"));
            f.edges.push((118, 1));
            for h in 0..5u32 {
                f.terms.push(Facts::term(1000 + h, &format!("Hub {h}")));
                f.edges.push((1000 + h, 118));
            }
            for k in 0..3000u32 {
                f.terms.push(Facts::term(10_000 + k, &format!("Term number {k:08}")));
                for h in 0..5u32 {
                    f.edges.push((10_000 + k, 1000 + h));
                }
                f.anns.push(Facts::ann(Kind::Gene, 100_000 + k, &format!("GENE{k:05}"), Some(10_000 + k)));
                f.anns.push(Facts::ann(Kind::Omim, 600_001, "Disease one", Some(10_000 + k)));
                if k < 300 {
                    f.anns.push(Facts::ann(Kind::Orpha, 77, "Orpha one", Some(10_000 + k)));
                }
            }
            f.anns.push(Facts::ann(Kind::Omim, 600_002, "Disease two", Some(1000)));
            f.anns.push(Facts::ann(Kind::Orpha, 78, "Orpha two", Some(1001)));
            cases.push((f, "3007 terms with 20-byte names and five parents each, 3000 genes: term, parent and gene sections beyond 64 KiB; an OMIM disease with 3000 terms".into()));
        }
        ctx.space("sizes/writer-side", &format!("{} fact sets (a term with m parents and records with m-1, m, m+1 terms for m in {:?}; a chain of 300 with records on every term; sections beyond 64 KiB) via Builder, from_bytes(encoder), from_standard", cases.len(), sizes));
        for (f, what) in &cases {
            if !ctx.take() {
                continue;
            }
            ctx.state();
            ctx.nontrivial();
            let case = || json!({"shape": what, "terms": f.terms.len(), "links": f.edges.len(), "annotation_facts": f.anns.len()});
            ctx.transitions(f.n_steps());
            match drive::build(f, Mode::Defaults) {
                Ok(o) => roundtrip(ctx, &o, "Builder", &case),
                Err(e) => ctx.violation("Builder", "construction fails on valid facts", json!({"case": case(), "observed": e})),
            }
            ctx.transitions(f.n_steps());
            match drive::from_bytes(&encode::encode(f, &EncOpts::v(3))) {
                Ok(Ok(o)) => roundtrip(ctx, &o, "from_bytes(independent encoder)", &case),
                other => ctx.violation("Ontology::from_bytes", "rejects a file laid out as documented", json!({"case": case(), "observed": format!("{:?}", other.map(|r| r.map(|_| ())))})),
            }
            ctx.transitions(f.n_steps());
            match jax::load(&jax::render(f, &JaxOpts::default()), false) {
                Ok(Ok(o)) => roundtrip(ctx, &o, "from_standard", &case),
                other => ctx.violation("Ontology::from_standard", "rejects valid JAX files", json!({"case": case(), "observed": format!("{:?}", other.map(|r| r.map(|_| ())))})),
            }
            ctx.sample(|| case());
        }
    }
    jax::cleanup();
}
