//! Sets by every construction route (shared by C05 and C06): a small decoded ontology with nested phenotype
//! terms, obsolete terms with and without replacement and a modifier; start sets and an alphabet of set
//! operations. A property about "a set of terms" is about the set as it is, whichever public route produced it.

use crate::model::{Facts, Kind};
use hpo::{HpoSet, Ontology};

/// two nested phenotype terms, a third one, an obsolete term replaced by the third, an obsolete term without
/// replacement, a modifier
pub const POOL: [u32; 6] = [200, 210, 300, 400, 410, 500];

pub fn facts() -> Facts {
    let mut f = Facts::default();
    f.version = (2024, 2, 29);
    f.terms.push(Facts::term(1, "All"));
    f.terms.push(Facts::term(118, "Phenotypic abnormality"));
    f.terms.push(Facts::term(12823, "Clinical modifier"));
    f.edges.push((118, 1));
    f.edges.push((12823, 1));
    for (id, parent) in [(200u32, 118u32), (210, 200), (300, 118), (500, 12823)] {
        f.terms.push(Facts::term(id, &format!("T{id}")));
        f.edges.push((id, parent));
    }
    let mut o1 = Facts::term(400, "obsolete T400");
    o1.obsolete = true;
    o1.replacement = Some(300);
    f.terms.push(o1);
    let mut o2 = Facts::term(410, "obsolete T410");
    o2.obsolete = true;
    f.terms.push(o2);
    f.anns.push(Facts::ann(Kind::Gene, 7, "G7", Some(210)));
    f.anns.push(Facts::ann(Kind::Gene, 7, "G7", Some(500)));
    f.anns.push(Facts::ann(Kind::Gene, 17, "G17", Some(300)));
    f.anns.push(Facts::ann(Kind::Omim, 8, "D8", Some(200)));
    f.anns.push(Facts::ann(Kind::Omim, 8, "D8", Some(300)));
    f.anns.push(Facts::ann(Kind::Omim, 18, "D18", Some(210)));
    f.anns.push(Facts::ann(Kind::Orpha, 9, "O9", Some(300)));
    f.anns.push(Facts::ann(Kind::Orpha, 19, "O19", Some(500)));
    f.anns.push(Facts::ann(Kind::Orpha, 19, "O19", Some(200)));
    f
}

pub const DESCRIPTION: &str = "decoded (v3) ontology: phenotype terms 200 > 210, 300, obsolete 400 (replaced by 300), obsolete 410, modifier 500; start = HpoSet::new over each of the 64 subsets of the pool, or Gene/OmimDisease/OrphaDisease::to_hpo_set; operations = {extend by one pool term (6), remove_modifier, remove_obsolete, replace_obsolete, without_modifier, without_obsolete, with_replaced_obsolete, child_nodes}";

#[derive(Clone, Copy, Debug)]
pub enum Op {
    Extend(u32),
    RemoveModifier,
    RemoveObsolete,
    ReplaceObsolete,
    WithoutModifier,
    WithoutObsolete,
    WithReplacedObsolete,
    ChildNodes,
}

pub fn alphabet() -> Vec<Op> {
    let mut a: Vec<Op> = POOL.iter().map(|p| Op::Extend(*p)).collect();
    a.extend([Op::RemoveModifier, Op::RemoveObsolete, Op::ReplaceObsolete, Op::WithoutModifier, Op::WithoutObsolete, Op::WithReplacedObsolete, Op::ChildNodes]);
    a
}

pub fn apply<'a>(ont: &'a Ontology, s: HpoSet<'a>, op: Op) -> HpoSet<'a> {
    let mut s = s;
    match op {
        Op::Extend(x) => {
            s.extend(ont.hpo(x));
            s
        }
        Op::RemoveModifier => {
            s.remove_modifier();
            s
        }
        Op::RemoveObsolete => {
            s.remove_obsolete();
            s
        }
        Op::ReplaceObsolete => {
            s.replace_obsolete();
            s
        }
        Op::WithoutModifier => s.without_modifier(),
        Op::WithoutObsolete => s.without_obsolete(),
        Op::WithReplacedObsolete => s.with_replaced_obsolete(),
        Op::ChildNodes => s.child_nodes(),
    }
}

/// 64 subsets through HpoSet::new, then the three record routes
pub const N_STARTS: usize = 64 + 3;

pub fn fresh<'a>(ont: &'a Ontology, ids: &[u32]) -> HpoSet<'a> {
    let mut g = hpo::term::HpoGroup::new();
    for i in ids {
        g.insert(*i);
    }
    HpoSet::new(ont, g)
}

pub fn start_name(start: usize) -> String {
    if start < 64 {
        format!("HpoSet::new({:?})", POOL.iter().enumerate().filter(|(k, _)| start >> k & 1 == 1).map(|(_, p)| *p).collect::<Vec<_>>())
    } else {
        ["Gene 7 to_hpo_set", "OmimDisease 8 to_hpo_set", "OrphaDisease 9 to_hpo_set"][start - 64].to_string()
    }
}

pub fn start<'a>(ont: &'a Ontology, start: usize) -> Option<HpoSet<'a>> {
    use hpo::annotations::Disease;
    Some(match start {
        64 => ont.gene(&7u32.into())?.to_hpo_set(ont),
        65 => ont.omim_disease(&8u32.into())?.to_hpo_set(ont),
        66 => ont.orpha_disease(&9u32.into())?.to_hpo_set(ont),
        _ => fresh(ont, &POOL.iter().enumerate().filter(|(k, _)| start >> k & 1 == 1).map(|(_, p)| *p).collect::<Vec<_>>()),
    })
}

/// all operation sequences (as indices into the alphabet) up to the depth, shortest first
pub fn sequences(n_ops: usize, depth: usize) -> Vec<Vec<usize>> {
    let mut seqs: Vec<Vec<usize>> = vec![vec![]];
    let mut frontier: Vec<Vec<usize>> = vec![vec![]];
    for _ in 0..depth {
        let mut next = vec![];
        for s in &frontier {
            for k in 0..n_ops {
                let mut t = s.clone();
                t.push(k);
                next.push(t);
            }
        }
        seqs.extend(next.iter().cloned());
        frontier = next;
    }
    seqs
}
