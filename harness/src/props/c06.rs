//! C06 - enrichment reports exact hypergeometric tail probabilities and fold changes.
//!
//! Staircase layout: a flat ontology with leaves l_1..l_L (children of one root) and, per kind, records
//! r_1..r_L with r_j annotated to l_1..l_j. Background = l_1..l_N, sample = l_s..l_{s+n-1}:
//! record j realises K = min(j,N), k = clamp(j-s+1, 0, n). Sweeping all n <= N, s <= N-n+1 realises
//! every admissible (N,K,n,k).
//! The staircase is the same in the three kinds (same ids, same leaves); so that a read of another kind's links
//! cannot go unnoticed, every staircase ontology carries one more record per kind, with ONE id (XREC) in all kinds
//! but a kind-specific layout: genes on the leaves 1, 5, 9, .., OMIM on the odd leaves, ORPHA on every third leaf.

use crate::bigint::Binomials;
use crate::ctx::{guard, Ctx};
use crate::drive;
use crate::model::{Facts, Kind, Mode, KINDS};
use hpo::annotations::AnnotationId;
use hpo::stats::hypergeom::{gene_enrichment, omim_disease_enrichment, orpha_disease_enrichment};
use hpo::Ontology;
use serde_json::json;

const LEAF0: u32 = 100; // leaf i (1-based) has id LEAF0 + i
const REC0: u32 = 5000; // record j (1-based) has id REC0 + j
const XREC: u32 = 4242; // the extra record whose layout differs between the kinds

/// leaves the extra record of a kind is annotated to
fn extra_on(kind: Kind, i: usize) -> bool {
    match kind {
        Kind::Gene => i % 4 == 1,
        Kind::Omim => i % 2 == 1,
        Kind::Orpha => i % 3 == 0,
    }
}

thread_local! {
    /// record ids of the staircase in use, by record number (None: REC0 + j)
    static REC_IDS: std::cell::RefCell<Option<Vec<u32>>> = std::cell::RefCell::new(None);
}

fn rec_id(j: u32) -> u32 {
    REC_IDS.with(|m| m.borrow().as_ref().map_or(REC0 + j, |v| v[j as usize]))
}

fn rec_no(id: u32) -> usize {
    REC_IDS.with(|m| match m.borrow().as_ref() {
        None => id.wrapping_sub(REC0) as usize,
        Some(v) => v.iter().position(|x| *x == id).unwrap_or(0),
    })
}

fn staircase(l: usize, kinds: &[Kind]) -> Ontology {
    let mut f = Facts::default();
    f.terms.push(Facts::term(1, "root"));
    for i in 1..=l as u32 {
        f.terms.push(Facts::term(LEAF0 + i, &format!("L{i}")));
        f.edges.push((LEAF0 + i, 1));
    }
    for &k in kinds {
        for j in 1..=l as u32 {
            for i in 1..=j {
                f.anns.push(Facts::ann(k, rec_id(j), &format!("R{j}"), Some(LEAF0 + i)));
            }
        }
        for i in (1..=l).filter(|i| extra_on(k, *i)) {
            f.anns.push(Facts::ann(k, XREC, "X", Some(LEAF0 + i as u32)));
        }
    }
    drive::build(&f, Mode::Minimal).expect("staircase ontology must build")
}

/// The same layout decoded from a v3 file in which leaves are flagged: leaf i is obsolete when i % 3 == 0 and
/// carries a replacement (a neighbouring leaf) when i % 4 == 1. Enrichment counts terms as given; flags are
/// not part of the definition. (HP:118 is added because the decoder installs the defaults.)
fn staircase_flagged(l: usize, kinds: &[Kind]) -> Result<Ontology, String> {
    let mut f = Facts::default();
    f.version = (2024, 2, 29);
    f.terms.push(Facts::term(1, "root"));
    f.terms.push(Facts::term(118, "Phenotypic abnormality"));
    f.edges.push((118, 1));
    for i in 1..=l as u32 {
        let mut t = Facts::term(LEAF0 + i, &format!("L{i}"));
        t.obsolete = i % 3 == 0;
        if i % 4 == 1 {
            t.replacement = Some(LEAF0 + if i < l as u32 { i + 1 } else { i - 1 });
        }
        f.terms.push(t);
        f.edges.push((LEAF0 + i, 1));
    }
    for &k in kinds {
        for j in 1..=l as u32 {
            for i in 1..=j {
                f.anns.push(Facts::ann(k, REC0 + j, &format!("R{j}"), Some(LEAF0 + i)));
            }
        }
        for i in (1..=l).filter(|i| extra_on(k, *i)) {
            f.anns.push(Facts::ann(k, XREC, "X", Some(LEAF0 + i as u32)));
        }
    }
    match drive::from_bytes(&crate::encode::encode(&f, &crate::encode::EncOpts::v(3))) {
        Ok(Ok(o)) => Ok(o),
        Ok(Err(e)) => Err(e),
        Err(p) => Err(format!("panic: {p}")),
    }
}

/// (id, count, pvalue, fold) per returned record
/// `whole`: the background is `&ontology` itself (the documented call): the root and all leaves
fn run_enrichment(ont: &Ontology, kind: Kind, n_bg: usize, s: usize, n: usize, whole: bool) -> Vec<(u32, u64, f64, f64)> {
    // The collections are handed over in different shapes, chosen deterministically per call:
    // exact-size iterators, filtering adapters over a larger collection (whose size_hint upper bound
    // exceeds the real size), Vec, and HpoSet (as sample and as background).
    let shape = if whole { 5 } else { (n_bg + 2 * s + 3 * n) % 5 };
    let all: Vec<hpo::HpoTerm> = ont.iter().collect();
    let in_bg = |t: &hpo::HpoTerm| {
        let id = hpo::annotations::AnnotationId::as_u32(&t.id());
        id > LEAF0 && id <= LEAF0 + n_bg as u32
    };
    let in_sample = |t: &hpo::HpoTerm| {
        let id = hpo::annotations::AnnotationId::as_u32(&t.id());
        id >= LEAF0 + s as u32 && id < LEAF0 + (s + n) as u32
    };
    let bg_vec: Vec<hpo::HpoTerm> = (1..=n_bg as u32).map(|i| ont.hpo(LEAF0 + i).unwrap()).collect();
    let sample_vec: Vec<hpo::HpoTerm> = (s as u32..(s + n) as u32).map(|i| ont.hpo(LEAF0 + i).unwrap()).collect();
    macro_rules! call {
        ($f:ident) => {
            match shape {
                0 => $f(bg_vec.iter().copied(), sample_vec.iter().copied()),
                1 => $f(all.iter().copied().filter(|t| in_bg(t)), all.iter().copied().filter(|t| in_sample(t))),
                2 => $f(bg_vec.clone(), all.iter().copied().filter(|t| in_sample(t))),
                4 => {
                    let mut g = hpo::term::HpoGroup::new();
                    for t in &bg_vec {
                        g.insert(t.id());
                    }
                    let set = hpo::HpoSet::new(ont, g);
                    $f(&set, sample_vec.clone())
                }
                5 => $f(ont, sample_vec.iter().copied()),
                _ => {
                    let mut g = hpo::term::HpoGroup::new();
                    for t in &sample_vec {
                        g.insert(t.id());
                    }
                    let set = hpo::HpoSet::new(ont, g);
                    $f(all.iter().copied().filter(|t| in_bg(t)), &set)
                }
            }
            .iter()
            .map(|e| (e.id().as_u32(), e.count(), e.pvalue(), e.enrichment()))
            .collect()
        };
    }
    match kind {
        Kind::Gene => call!(gene_enrichment),
        Kind::Omim => call!(omim_disease_enrichment),
        Kind::Orpha => call!(orpha_disease_enrichment),
    }
}

#[allow(dead_code)]
fn run_enrichment_plain(ont: &Ontology, kind: Kind, n_bg: usize, s: usize, n: usize) -> Vec<(u32, u64, f64, f64)> {
    let bg = (1..=n_bg as u32).map(|i| ont.hpo(LEAF0 + i).unwrap());
    let sample = (s as u32..(s + n) as u32).map(|i| ont.hpo(LEAF0 + i).unwrap());
    match kind {
        Kind::Gene => gene_enrichment(bg, sample).iter().map(|e| (e.id().as_u32(), e.count(), e.pvalue(), e.enrichment())).collect(),
        Kind::Omim => omim_disease_enrichment(bg, sample).iter().map(|e| (e.id().as_u32(), e.count(), e.pvalue(), e.enrichment())).collect(),
        Kind::Orpha => orpha_disease_enrichment(bg, sample).iter().map(|e| (e.id().as_u32(), e.count(), e.pvalue(), e.enrichment())).collect(),
    }
}

fn site(kind: Kind) -> &'static str {
    match kind {
        Kind::Gene => "gene_enrichment",
        Kind::Omim => "omim_disease_enrichment",
        Kind::Orpha => "orpha_disease_enrichment",
    }
}

trait PRef {
    /// P[X >= k], X ~ Hypergeometric(N, K, n), and the relative tolerance the reference supports
    fn p(&self, big_n: usize, big_k: usize, n: usize, k: usize) -> f64;
    fn rtol(&self) -> f64;
}

struct Exact(Binomials);
impl PRef for Exact {
    fn p(&self, big_n: usize, big_k: usize, n: usize, k: usize) -> f64 {
        self.0.sf_ge(big_n, big_k, n, k)
    }
    fn rtol(&self) -> f64 {
        1e-9
    }
}

/// log-domain reference for large populations: ln i! by compensated summation of ln(i), log-sum-exp of the tail
struct LogDomain {
    lnfact: Vec<f64>,
}
impl LogDomain {
    fn new(max: usize) -> LogDomain {
        let mut v = vec![0.0f64; max + 1];
        let (mut sum, mut comp) = (0.0f64, 0.0f64);
        for i in 1..=max {
            let y = (i as f64).ln() - comp;
            let t = sum + y;
            comp = (t - sum) - y;
            sum = t;
            v[i] = sum;
        }
        LogDomain { lnfact: v }
    }
    fn lnc(&self, n: usize, k: usize) -> f64 {
        self.lnfact[n] - self.lnfact[k] - self.lnfact[n - k]
    }
}
impl PRef for LogDomain {
    fn p(&self, big_n: usize, big_k: usize, n: usize, k: usize) -> f64 {
        let hi = big_k.min(n);
        let lo = k.max((n + big_k).saturating_sub(big_n));
        if lo > hi {
            return 0.0;
        }
        let den = self.lnc(big_n, n);
        let terms: Vec<f64> = (lo..=hi).map(|i| self.lnc(big_k, i) + self.lnc(big_n - big_k, n - i) - den).collect();
        let m = terms.iter().cloned().fold(f64::NEG_INFINITY, f64::max);
        let s: f64 = terms.iter().map(|t| (t - m).exp()).sum();
        (m + s.ln()).exp().min(1.0)
    }
    fn rtol(&self) -> f64 {
        1e-6
    }
}

/// Check one (N, n): every window start s, every record. Returns number of (record,window) evaluations.
#[allow(clippy::too_many_arguments)]
fn check_n_n(ctx: &mut Ctx, ont: &Ontology, l: usize, kind: Kind, big_n: usize, n: usize, starts: &[usize], pref: &dyn PRef, full_monotone: bool) -> u64 {
    check_n_n_bg(ctx, ont, l, kind, big_n, n, starts, pref, full_monotone, false)
}

/// `whole`: the background is `&ontology` (needs big_n == l): the population is the root and the l leaves, and the
/// root is linked to every record
#[allow(clippy::too_many_arguments)]
fn check_n_n_bg(ctx: &mut Ctx, ont: &Ontology, l: usize, kind: Kind, leaves_n: usize, n: usize, starts: &[usize], pref: &dyn PRef, full_monotone: bool, whole: bool) -> u64 {
    let mut evals = 0u64;
    // population size, and what the root adds to every K
    let (big_n, root) = if whole { (leaves_n + 1, 1usize) } else { (leaves_n, 0) };
    // last p seen per record for increasing k (s descending => k ascending); slot l + 1 = the extra record
    let mut last: Vec<Option<(usize, f64)>> = vec![None; l + 2];
    let extra_k = (1..=leaves_n).filter(|i| extra_on(kind, *i)).count();
    for &s in starts {
        ctx.transitions(1);
        let got = guard(|| run_enrichment(ont, kind, leaves_n, s, n, whole));
        let case = |extra: serde_json::Value| json!({"layout": "staircase: record j annotated to leaves 1..j; extra record 4242 on the leaves 1, 5, 9.. (gene) / odd leaves (omim) / every third leaf (orpha)", "N(background leaves 1..N)": leaves_n, "background": if whole { "&ontology (root + all leaves)" } else { "the leaves 1..N" }, "n(sample size)": n, "s(sample = leaves s..s+n-1)": s, "kind": kind.name(), "detail": extra});
        let extra_small_k = (s..s + n).filter(|i| extra_on(kind, *i)).count();
        let res = match got {
            Ok(r) => r,
            Err(p) => {
                ctx.violation(site(kind), "panics", case(json!({"observed": p})));
                continue;
            }
        };
        // exactly one record per annotation with k >= 1
        let mut seen = vec![false; l + 2];
        for (id, count, p, fold) in &res {
            let j = if *id == XREC { l + 1 } else { rec_no(*id) };
            if j == 0 || (j > l && *id != XREC) || seen[j] {
                ctx.violation(site(kind), "returns an unknown annotation or the same annotation twice", case(json!({"id": id})));
                continue;
            }
            seen[j] = true;
            let (big_k, k) = if *id == XREC { (extra_k + root, extra_small_k) } else { (j.min(leaves_n) + root, (j + 1).saturating_sub(s).min(n)) };
            evals += 1;
            if k == 0 {
                ctx.violation(site(kind), "reports an annotation that is linked to no sample term", case(json!({"record": j})));
                continue;
            }
            if *count != k as u64 {
                ctx.violation(site(kind), "count is not the number of linked sample terms", case(json!({"record": j, "K": big_k, "k": k, "observed_count": count})));
                continue;
            }
            if !(*p >= 0.0 && *p <= 1.0) {
                ctx.violation(site(kind), "p-value outside [0,1]", case(json!({"record": j, "K": big_k, "k": k, "observed_p": p})));
                continue;
            }
            let want = pref.p(big_n, big_k, n, k);
            // absolute slack: four steps of the subnormal grid (tails below 2.2e-308 lose relative precision
            // in any f64 computation; below 4.9e-324 the correctly rounded tail is 0)
            if (*p - want).abs() > pref.rtol() * want.abs() + 2e-323 {
                ctx.violation(site(kind), "p-value is not the hypergeometric tail P[X >= k]", case(json!({"record": j, "N": big_n, "K": big_k, "n": n, "k": k, "observed_p": p, "expected_p": want})));
                continue;
            }
            let want_fold = (k as f64 / n as f64) / (big_k as f64 / big_n as f64);
            if (*fold - want_fold).abs() > 1e-12 * want_fold.abs() {
                ctx.violation(site(kind), "fold enrichment is not (k/n)/(K/N)", case(json!({"record": j, "N": big_n, "K": big_k, "n": n, "k": k, "observed": fold, "expected": want_fold})));
                continue;
            }
            if full_monotone {
                if let Some((pk, pp)) = last[j] {
                    if k > pk && *p > pp {
                        ctx.violation(site(kind), "p-value increases as k grows with N, K, n fixed", case(json!({"record": j, "N": big_n, "K": big_k, "n": n, "k_prev": pk, "p_prev": pp, "k": k, "p": p})));
                    }
                }
                last[j] = Some((k, *p));
            }
            if want > 0.0 && want < 1.0 {
                ctx.nontrivial();
            }
            ctx.outcome(p.to_bits() % 100_003);
        }
        for j in 1..=l {
            let k = (j + 1).saturating_sub(s).min(n);
            if k >= 1 && !seen[j] {
                ctx.violation(site(kind), "annotation linked to a sample term is missing from the result", case(json!({"record": j, "k": k})));
            }
        }
        if extra_small_k >= 1 && !seen[l + 1] {
            ctx.violation(site(kind), "annotation linked to a sample term is missing from the result", case(json!({"record": "the extra record 4242", "k": extra_small_k})));
        }
    }
    ctx.execs(evals);
    ctx.validateds(evals);
    evals
}

pub fn run(ctx: &mut Ctx) {
    let thorough = ctx.tier.thorough();
    ctx.rule = "case = (kind, N, n) with every window start s = N-n+1 down to 1 (so every record's k grows step by step); staircase layout realises every admissible (N,K,n,k); every staircase ontology also carries the extra record 4242, whose id is the same and whose leaves differ between the three kinds; evaluations = (record, window) pairs checked; distinct by construction; non-trivial = exact p strictly between 0 and 1".into();
    ctx.assumptions = vec![
        "p-values compared with rtol 1e-9 against exact big-integer binomial sums (N <= 200) and with rtol 1e-6 against a log-domain reference for the large-population slices; range, monotonicity (in every space in which two windows share N, K, n - the exact ones and the log-domain slices N = 400 ... 3000), counts strict; fold change rtol 1e-12".into(),
        "sample terms are drawn from the background (property statement)".into(),
        "background and sample are passed as exact-size iterators, filtering adapters over a larger collection, Vec and &HpoSet (as sample and as background) in rotation, and `&ontology` as background (the functions accept any IntoIterator)".into(),
        "strict by the statement: 0 <= p <= 1 and p never larger for a larger k (no rounding allowance); tails below the smallest normal f64 are compared on the subnormal grid (the value is P[X >= k], not 0)".into(),
    ];
    // ---- small populations, all kinds
    let nmax = if thorough { 64 } else { 30 };
    let ont = staircase(nmax, &KINDS);
    let exact = Exact(Binomials::new(210));
    for kind in KINDS {
        ctx.space(&format!("exact/{}/N<={nmax}", kind.name()), &format!("all N <= {nmax}, all n <= N, all window starts; records 1..{nmax} and the extra record (one id in the three kinds, another layout in each)"));
        for big_n in 1..=nmax {
            for n in 1..=big_n {
                if !ctx.take() {
                    continue;
                }
                ctx.state();
                let starts: Vec<usize> = (1..=big_n - n + 1).rev().collect();
                check_n_n(ctx, &ont, nmax, kind, big_n, n, &starts, &exact, true);
                if big_n == 7 && n == 3 {
                    ctx.sample(|| json!({"kind": kind.name(), "N": big_n, "n": n, "window_starts": starts, "records": nmax}));
                }
            }
        }
    }
    // ---- the ontology itself as the background (the documented call) on staircases of every small size: the
    // population is the root plus L leaves and the root is linked to every record (N = L + 1, K = j + 1) - a size
    // taken from anything but counting the terms handed over shows here
    {
        let sizes: Vec<usize> = (1..=14).chain([30]).collect();
        for kind in KINDS {
            ctx.space(&format!("exact/{}/whole-ontology-background", kind.name()), &format!("staircase ontologies with L in {sizes:?} leaves, background = `&ontology` (root + L leaves), all n <= L, all window starts; records 1..L and the extra record"));
            for &l in &sizes {
                let mut ont: Option<Ontology> = None;
                for n in 1..=l {
                    if !ctx.take() {
                        continue;
                    }
                    ctx.state();
                    if ont.is_none() {
                        ont = Some(staircase(l, &KINDS));
                    }
                    let starts: Vec<usize> = (1..=l - n + 1).rev().collect();
                    check_n_n_bg(ctx, ont.as_ref().unwrap(), l, kind, l, n, &starts, &exact, true, true);
                    if l == 7 && n == 3 {
                        ctx.sample(|| json!({"kind": kind.name(), "background": "&ontology", "leaves": l, "n": n, "window_starts": starts}));
                    }
                }
            }
        }
    }
    // ---- hierarchies: backgrounds and samples that contain ancestors together with their descendants, the root,
    // unannotated terms; the ontology itself as background (the documented call)
    for n in 2..=(if thorough { 4 } else { 3 }) {
        let dags = crate::space::all_dags(n);
        ctx.space(&format!("hierarchy/D{n}"), &format!("{} labelled DAGs, record i on term i (genes) / i + 1 (OMIM) / i + 2 (ORPHA) cyclically (inherited by its ancestors), a bare record, an OMIM and an ORPHA disease with the same number on the same term; ontology built by the Builder and, where the loaders take the hp.obo, loaded by from_standard and from_standard_transitive (OMIM / ORPHA twin in adjacent rows): every non-empty background subset B (and `&ontology` itself) x every non-empty sample S within B x 3 kinds: one result per record linked to a sample term, K and k counted over inherited links, exact tail, fold", dags.len()));
        for d in &dags {
            if !ctx.take() {
                continue;
            }
            ctx.state();
            ctx.nontrivial();
            let mut f = Facts::from_dag(d, &[1, 7, 118, 4000, 77_777, 9_999_999]);
            let ids: Vec<u32> = f.terms.iter().map(|t| t.id).collect();
            for kind in KINDS {
                // (the same ids in the three kinds, but on other terms: gene i on term i, OMIM i on term i + 1, ORPHA i on
                // term i + 2 - a count read from another kind's links differs)
                for i in 0..ids.len() {
                    f.anns.push(Facts::ann(kind, 50 + i as u32, &format!("R{i}"), Some(ids[(i + kind.idx()) % ids.len()])));
                }
                f.anns.push(Facts::ann(kind, 99, "bare", None));
                // two records annotated to TWO terms each - the first and the last node - supplied in the two possible
                // orders (K and k count inherited links: what a second annotation of a record still has to hand up
                // depends on the shape, not on what the first one already linked)
                f.anns.push(Facts::ann(kind, 70, "R-first-then-last", Some(ids[0])));
                f.anns.push(Facts::ann(kind, 70, "R-first-then-last", Some(ids[ids.len() - 1])));
                f.anns.push(Facts::ann(kind, 71, "R-last-then-first", Some(ids[ids.len() - 1])));
                f.anns.push(Facts::ann(kind, 71, "R-last-then-first", Some(ids[0])));
            }
            // an OMIM and an ORPHA disease that share their number, on the same term, in adjacent rows of the file
            f.anns.push(Facts::ann(Kind::Omim, 72, "twin number, OMIM", Some(ids[0])));
            f.anns.push(Facts::ann(Kind::Orpha, 72, "twin number, ORPHA", Some(ids[0])));
            let r = crate::model::RefOnt::derive(&f);
            let Ok(ont) = drive::build(&f, Mode::Minimal) else {
                ctx.violation("Builder", "[builder] construction fails on valid facts", json!({"case": f.to_json()}));
                continue;
            };
            ctx.transitions(f.n_steps());
            // the same facts loaded from hp.obo and the annotation files (both loaders), where the loaders take them:
            // an hp.obo without HP:0000118 is outside what the loaders are documented for
            let mut onts: Vec<(&str, Ontology)> = vec![("Builder", ont)];
            for transitive in [false, true] {
                match crate::jax::load(&crate::jax::render(&f, &crate::jax::JaxOpts::default()), transitive) {
                    Ok(Ok(o)) => {
                        ctx.transitions(f.n_steps());
                        onts.push((if transitive { "from_standard_transitive" } else { "from_standard" }, o));
                    }
                    _ => ctx.bump("skipped: text loaders refuse this hp.obo (the two-term graphs, which lack HP:0000118)", 1),
                }
            }
            let full = (1u32 << n) - 1;
            for (route, ont) in &onts {
            let route = *route;
            for bmask in 1..=full + 1 {
                // bmask == full + 1 stands for `&ontology` handed over as the background
                let whole = bmask == full + 1;
                let bm = if whole { full } else { bmask };
                let bg_ids: Vec<u32> = crate::space::bits(bm, n).iter().map(|i| ids[*i]).collect();
                let mut smask = bm;
                while smask > 0 {
                    let s_ids: Vec<u32> = crate::space::bits(smask, n).iter().map(|i| ids[*i]).collect();
                    for kind in KINDS {
                        ctx.exec();
                        ctx.validated();
                        ctx.transitions(1);
                        let got = guard(|| {
                            let smp = s_ids.iter().map(|t| ont.hpo(*t).unwrap());
                            let mut v: Vec<(u32, u64, f64, f64)> = match (kind, whole) {
                                (Kind::Gene, true) => gene_enrichment(ont, smp).iter().map(|e| (e.id().as_u32(), e.count(), e.pvalue(), e.enrichment())).collect(),
                                (Kind::Omim, true) => omim_disease_enrichment(ont, smp).iter().map(|e| (e.id().as_u32(), e.count(), e.pvalue(), e.enrichment())).collect(),
                                (Kind::Orpha, true) => orpha_disease_enrichment(ont, smp).iter().map(|e| (e.id().as_u32(), e.count(), e.pvalue(), e.enrichment())).collect(),
                                (Kind::Gene, false) => gene_enrichment(bg_ids.iter().map(|t| ont.hpo(*t).unwrap()), smp).iter().map(|e| (e.id().as_u32(), e.count(), e.pvalue(), e.enrichment())).collect(),
                                (Kind::Omim, false) => omim_disease_enrichment(bg_ids.iter().map(|t| ont.hpo(*t).unwrap()), smp).iter().map(|e| (e.id().as_u32(), e.count(), e.pvalue(), e.enrichment())).collect(),
                                (Kind::Orpha, false) => orpha_disease_enrichment(bg_ids.iter().map(|t| ont.hpo(*t).unwrap()), smp).iter().map(|e| (e.id().as_u32(), e.count(), e.pvalue(), e.enrichment())).collect(),
                            };
                            v.sort_by_key(|x| x.0);
                            v
                        });
                        let case = |extra: serde_json::Value| json!({"facts": f.to_json(), "background": if whole { json!("&ontology") } else { json!(bg_ids) }, "sample": s_ids, "kind": kind.name(), "ontology_built_by": route, "detail": extra});
                        let res = match got {
                            Ok(x) => x,
                            Err(p) => {
                                ctx.violation(site(kind), "panics", case(json!({"observed": p})));
                                continue;
                            }
                        };
                        let linked = |t: u32, rec: u32| r.terms[&t].recs[kind.idx()].contains(&rec);
                        let (big_n, sn) = (bg_ids.len(), s_ids.len());
                        let want: Vec<(u32, usize, usize)> = (0..n as u32).map(|i| 50 + i).chain([70u32, 71, 72]).map(|rec| (rec, bg_ids.iter().filter(|t| linked(**t, rec)).count(), s_ids.iter().filter(|t| linked(**t, rec)).count())).filter(|w| w.2 > 0).collect();
                        if res.len() != want.len() || res.iter().zip(&want).any(|(x, w)| x.0 != w.0) {
                            ctx.violation(site(kind), "not exactly one record per annotation linked to a sample term", case(json!({"observed_ids": res.iter().map(|x| x.0).collect::<Vec<_>>(), "expected_ids": want.iter().map(|w| w.0).collect::<Vec<_>>()})));
                            continue;
                        }
                        for (x, w) in res.iter().zip(&want) {
                            let (big_k, k) = (w.1, w.2);
                            let want_p = exact.p(big_n, big_k, sn, k);
                            let want_fold = (k as f64 / sn as f64) / (big_k as f64 / big_n as f64);
                            if x.1 != k as u64 {
                                ctx.violation(site(kind), "count is not the number of linked sample terms", case(json!({"record": w.0, "K": big_k, "k": k, "observed_count": x.1})));
                            } else if !(x.2 >= 0.0 && x.2 <= 1.0) || (x.2 - want_p).abs() > 1e-9 * want_p {
                                ctx.violation(site(kind), "p-value is not the hypergeometric tail P[X >= k]", case(json!({"record": w.0, "N": big_n, "K": big_k, "n": sn, "k": k, "observed_p": x.2, "expected_p": want_p})));
                            } else if !((x.3 - want_fold).abs() <= 1e-12 * want_fold.abs()) {
                                ctx.violation(site(kind), "fold enrichment is not (k/n)/(K/N)", case(json!({"record": w.0, "N": big_n, "K": big_k, "n": sn, "k": k, "observed": x.3, "expected": want_fold})));
                            }
                        }
                    }
                    smask = (smask - 1) & bm;
                }
            }
            }
            ctx.sample(|| json!({"dag": d.describe(), "ids": ids}));
        }
    }
    crate::jax::cleanup();
    // ---- sample sets that come about through every public route (constructed, grown by Extend, filtered,
    // obsolete members replaced, reduced to child nodes, derived from a record): the enrichment of a set is
    // about its members, whichever route produced it
    {
        use super::setroutes;
        let f = setroutes::facts();
        let depth = if thorough { 3 } else { 2 };
        ctx.space("sample-sets/construction-routes", &format!("{}; every sequence of <= {depth} operations; after every sequence the three enrichments of the set against `&ontology`: one result per record linked to a member, k counted over the distinct members, exact tail, fold - and equal to the enrichment of a freshly constructed set with the same members", setroutes::DESCRIPTION));
        match drive::from_bytes(&crate::encode::encode(&f, &crate::encode::EncOpts::v(3))) {
            Ok(Ok(ont)) => {
                let r = crate::model::RefOnt::derive(&f);
                let all_ids: Vec<u32> = f.terms.iter().map(|t| t.id).collect();
                let alphabet = setroutes::alphabet();
                let seqs = setroutes::sequences(alphabet.len(), depth);
                for start in 0..setroutes::N_STARTS {
                    if !ctx.take() {
                        continue;
                    }
                    ctx.state();
                    ctx.nontrivial();
                    let start_name = setroutes::start_name(start);
                    'seqs: for seq in &seqs {
                        let ops: Vec<setroutes::Op> = seq.iter().map(|k| alphabet[*k]).collect();
                        for kind in KINDS {
                            ctx.exec();
                            ctx.validated();
                            ctx.transitions(seq.len() as u64 + 1);
                            type Rows = Vec<(u32, u64, f64, f64)>;
                            let got = guard(|| -> Option<(Vec<u32>, Rows, Rows)> {
                                let mut a = setroutes::start(&ont, start)?;
                                for op in &ops {
                                    a = setroutes::apply(&ont, a, *op);
                                }
                                let members: Vec<u32> = a.iter().map(|t| t.id().as_u32()).collect();
                                let mut distinct = members.clone();
                                distinct.sort_unstable();
                                distinct.dedup();
                                let fresh = setroutes::fresh(&ont, &distinct);
                                let run = |s: &hpo::HpoSet| -> Rows {
                                    let mut v: Rows = match kind {
                                        Kind::Gene => gene_enrichment(&ont, s).iter().map(|e| (e.id().as_u32(), e.count(), e.pvalue(), e.enrichment())).collect(),
                                        Kind::Omim => omim_disease_enrichment(&ont, s).iter().map(|e| (e.id().as_u32(), e.count(), e.pvalue(), e.enrichment())).collect(),
                                        Kind::Orpha => orpha_disease_enrichment(&ont, s).iter().map(|e| (e.id().as_u32(), e.count(), e.pvalue(), e.enrichment())).collect(),
                                    };
                                    v.sort_by_key(|x| x.0);
                                    v
                                };
                                Some((distinct, run(&a), run(&fresh)))
                            });
                            let case = |extra: serde_json::Value| json!({"facts": f.to_json(), "set": format!("{start_name} then {ops:?}"), "background": "&ontology", "kind": kind.name(), "detail": extra});
                            let (distinct, res, res_fresh) = match got {
                                Ok(Some(x)) => x,
                                // (that a record of a decoded file is found by its id is C02's / C08's statement: without
                                // the record there is no start set, and nothing of this property to judge)
                                Ok(None) => {
                                    ctx.bump("start_record_not_found_no_verdict", 1);
                                    break 'seqs;
                                }
                                Err(p) => {
                                    ctx.violation(site(kind), "[set built by a sequence of set operations] panics", case(json!({"observed": p})));
                                    break 'seqs;
                                }
                            };
                            let same = res.len() == res_fresh.len() && res.iter().zip(&res_fresh).all(|(x, y)| x.0 == y.0 && x.1 == y.1 && (x.2 - y.2).abs() <= 1e-12 * y.2.abs() && (x.3 - y.3).abs() <= 1e-12 * y.3.abs());
                            if !same {
                                ctx.violation(site(kind), "[set built by a sequence of set operations] differs from the enrichment of a freshly constructed set with the same members", case(json!({"members": distinct, "observed": format!("{res:?}"), "fresh_set": format!("{res_fresh:?}")})));
                                break 'seqs;
                            }
                            let linked = |t: u32, rec: u32| r.terms[&t].recs[kind.idx()].contains(&rec);
                            let recs: Vec<u32> = r.recs[kind.idx()].keys().copied().collect();
                            let (big_n, sn) = (all_ids.len(), distinct.len());
                            let want: Vec<(u32, usize, usize)> = recs.iter().map(|rec| (*rec, all_ids.iter().filter(|t| linked(**t, *rec)).count(), distinct.iter().filter(|t| linked(**t, *rec)).count())).filter(|w| w.2 > 0).collect();
                            if res.len() != want.len() || res.iter().zip(&want).any(|(x, w)| x.0 != w.0) {
                                ctx.violation(site(kind), "[set built by a sequence of set operations] not exactly one record per annotation linked to a sample term", case(json!({"members": distinct, "observed_ids": res.iter().map(|x| x.0).collect::<Vec<_>>(), "expected_ids": want.iter().map(|w| w.0).collect::<Vec<_>>()})));
                                break 'seqs;
                            }
                            for (x, w) in res.iter().zip(&want) {
                                let (big_k, k) = (w.1, w.2);
                                let want_p = exact.p(big_n, big_k, sn, k);
                                let want_fold = (k as f64 / sn as f64) / (big_k as f64 / big_n as f64);
                                if x.1 != k as u64 || !(x.2 >= 0.0 && x.2 <= 1.0) || (x.2 - want_p).abs() > 1e-9 * want_p || !((x.3 - want_fold).abs() <= 1e-12 * want_fold.abs()) {
                                    ctx.violation(site(kind), "[set built by a sequence of set operations] count, p-value or fold differ from the hypergeometric model of the set's members", case(json!({"members": distinct, "record": w.0, "N": big_n, "K": big_k, "n": sn, "k": k, "observed": format!("{x:?}"), "expected_p": want_p, "expected_fold": want_fold})));
                                    break 'seqs;
                                }
                            }
                        }
                    }
                    ctx.sample(|| json!({"start": start_name, "sequences": seqs.len()}));
                }
            }
            other => ctx.violation("Ontology::from_bytes", "cannot decode a file laid out as documented", json!({"facts": f.to_json(), "observed": format!("{:?}", other.map(|r| r.map(|_| ())))})),
        }
    }
    // ---- the same sweep on a decoded ontology whose leaves are partly obsolete and / or replaced
    {
        let lf = if thorough { 24 } else { 14 };
        match staircase_flagged(lf, &KINDS) {
            Err(e) => {
                ctx.space("exact/flagged-terms", "decoded staircase with obsolete / replaced leaves");
                ctx.violation("Ontology::from_bytes", "cannot decode a file laid out as documented", json!({"observed": e}));
            }
            Ok(fl) => {
                for kind in KINDS {
                    ctx.space(&format!("exact/{}/flagged-terms/N<={lf}", kind.name()), &format!("decoded (v3) staircase in which every 3rd leaf is obsolete and every 4th carries a replacement: all N <= {lf}, all n <= N, all window starts; records 1..{lf}"));
                    for big_n in 1..=lf {
                        for n in 1..=big_n {
                            if !ctx.take() {
                                continue;
                            }
                            ctx.state();
                            let starts: Vec<usize> = (1..=big_n - n + 1).rev().collect();
                            check_n_n(ctx, &fl, lf, kind, big_n, n, &starts, &exact, true);
                            if big_n == 7 && n == 3 {
                                ctx.sample(|| json!({"kind": kind.name(), "N": big_n, "n": n, "window_starts": starts, "records": lf, "obsolete_leaves": "every 3rd", "replaced_leaves": "every 4th + 1"}));
                            }
                        }
                    }
                }
            }
        }
    }
    // ---- record ids from a spread pool (the staircases above use ids 5001..): N <= 12, all kinds
    {
        // (index 0 is not used: record numbers start at 1; the id 0 is record 1)
        let pool: Vec<u32> = vec![5000, 0, 1, 255, 256, 65_535, 65_536, (1 << 24) + 1, 100_000_007, u32::MAX - 1, u32::MAX, 0x8000_0000, 77];
        REC_IDS.with(|m| *m.borrow_mut() = Some(pool.clone()));
        let l = 12usize;
        let sp = staircase(l, &KINDS);
        for kind in KINDS {
            ctx.space(&format!("exact/{}/spread-record-ids/N<=12", kind.name()), &format!("records with the ids {:?} (and the extra record): all N <= 12, all n <= N, all window starts", &pool[1..=l]));
            for big_n in 1..=l {
                for n in 1..=big_n {
                    if !ctx.take() {
                        continue;
                    }
                    ctx.state();
                    let starts: Vec<usize> = (1..=big_n - n + 1).rev().collect();
                    check_n_n(ctx, &sp, l, kind, big_n, n, &starts, &exact, true);
                }
            }
        }
        REC_IDS.with(|m| *m.borrow_mut() = None);
    }
    // ---- populations between the exhaustive bound and the factorial-table seam: every N in 31..=167 with a few n
    if !thorough {
        let l = 174usize;
        let ont = staircase(l, &[Kind::Gene]);
        ctx.space("exact/gene/N=31..167/selected-n", "every N in 31..=167, n in {1, 2, N/3, N/2, N-1, N}, all window starts; records 1..174 (all n in the thorough tier up to N = 64 and from 150)");
        for big_n in 31..=167usize {
            let mut ns = vec![1usize, 2, big_n / 3, big_n / 2, big_n - 1, big_n];
            ns.dedup();
            for n in ns {
                if !ctx.take() {
                    continue;
                }
                ctx.state();
                let starts: Vec<usize> = (1..=big_n - n + 1).rev().collect();
                check_n_n(ctx, &ont, l, Kind::Gene, big_n, n, &starts, &exact, true);
            }
        }
        ctx.mark_partial("N = 31..167: a listed subset of n by design");
    }
    // ---- populations straddling the 170-entry factorial table (genes)
    {
        let range: Vec<usize> = if thorough { (150..=200).collect() } else { (168..=174).collect() };
        let l = *range.last().unwrap();
        let ont = staircase(l, &[Kind::Gene]);
        ctx.space("exact/gene/factorial-table-seam", &format!("N in {}..={}, all n <= N (quick: n in 1..=12, N-12..=N and every 7th), all window starts; records 1..{l}", range[0], l));
        for &big_n in &range {
            for n in 1..=big_n {
                let keep = thorough || n <= 12 || n + 12 >= big_n || n % 7 == 0;
                if !keep {
                    continue;
                }
                if !ctx.take() {
                    continue;
                }
                ctx.state();
                let starts: Vec<usize> = (1..=big_n - n + 1).rev().collect();
                check_n_n(ctx, &ont, l, Kind::Gene, big_n, n, &starts, &exact, true);
                if big_n == 171 && n == 2 {
                    ctx.sample(|| json!({"kind": "gene", "N": big_n, "n": n, "window_starts": starts.len(), "records": l}));
                }
            }
        }
        if !thorough {
            ctx.mark_partial("factorial-table-seam: quick tier keeps n in 1..=12, N-12..=N and multiples of 7 (all n in the thorough tier)");
        }
    }
    // ---- the same seam and one large population for OMIM and ORPHA (the three kinds have separate entry points)
    {
        let l = 174usize;
        let ont = staircase(l, &[Kind::Omim, Kind::Orpha]);
        for kind in [Kind::Omim, Kind::Orpha] {
            ctx.space(&format!("exact/{}/factorial-table-seam", kind.name()), &format!("N in 169..=172, n in {{1, 2, 3, N/2, N-2, N-1, N}}{}, all window starts; records 1..{l}", if thorough { " and every 5th n" } else { "" }));
            for big_n in 169..=172usize {
                for n in 1..=big_n {
                    let keep = n <= 3 || n + 2 >= big_n || n == big_n / 2 || (thorough && n % 5 == 0);
                    if !keep || !ctx.take() {
                        continue;
                    }
                    ctx.state();
                    let starts: Vec<usize> = (1..=big_n - n + 1).rev().collect();
                    check_n_n(ctx, &ont, l, kind, big_n, n, &starts, &exact, true);
                    if big_n == 171 && n == 2 {
                        ctx.sample(|| json!({"kind": kind.name(), "N": big_n, "n": n, "window_starts": starts.len(), "records": l}));
                    }
                }
            }
            ctx.mark_partial("factorial-table-seam for OMIM / ORPHA: a listed subset of n by design");
        }
        let big_n = 400usize;
        let lref = LogDomain::new(big_n + 1);
        let mut ont: Option<Ontology> = None;
        for kind in [Kind::Omim, Kind::Orpha] {
            ctx.space(&format!("logref/{}/N={big_n}", kind.name()), &format!("N = {big_n}, n in {{2, N/4, N/2, N-1}}, window starts {{last, 1/2, n, 1}}; records 1..{big_n}; log-domain reference, rtol 1e-6"));
            for n in [2usize, big_n / 4, big_n / 2, big_n - 1] {
                if !ctx.take() {
                    continue;
                }
                ctx.state();
                if ont.is_none() {
                    ont = Some(staircase(big_n, &[Kind::Omim, Kind::Orpha]));
                }
                let last = big_n - n + 1;
                let mut starts = vec![last, (last + 1) / 2, n.min(last), 1];
                starts.sort_unstable_by(|a, b| b.cmp(a));
                starts.dedup();
                // (the starts descend, so every record's k ascends with N, K, n fixed: the strict claim applies here too)
                check_n_n(ctx, ont.as_ref().unwrap(), big_n, kind, big_n, n, &starts, &lref, true);
                ctx.sample(|| json!({"kind": kind.name(), "N": big_n, "n": n, "window_starts": starts}));
            }
            ctx.mark_partial("large-population slices are a listed subset of (n, s) by design");
        }
    }
    // ---- tails around the smallest f64 values: N = 1200, K = n = k sweeping 335..=360 gives 1/C(1200, n) from
    // 1e-305 down to 1e-318 (the normal / subnormal border is crossed at n = 341), and n = 400 underflows to 0
    {
        let big_n = 1200usize;
        ctx.space("logref/gene/subnormal-tails", "N = 1200, n in 335..=360 and 400, sample = leaves 1..n (so record n has K = n = k and the tail is 1/C(N, n)), all 1200 records; log-domain reference, rtol 1e-6 + 4 subnormal steps");
        let lref = LogDomain::new(big_n + 1);
        let mut ont: Option<Ontology> = None;
        for n in (335..=360usize).chain([400]) {
            if !ctx.take() {
                continue;
            }
            ctx.state();
            if ont.is_none() {
                ont = Some(staircase(big_n, &[Kind::Gene]));
            }
            check_n_n(ctx, ont.as_ref().unwrap(), big_n, Kind::Gene, big_n, n, &[1], &lref, false);
            ctx.sample(|| json!({"kind": "gene", "N": big_n, "n": n, "smallest_tail": lref.p(big_n, n, n, n)}));
        }
    }
    // ---- large populations: log-domain reference
    {
        let sizes: Vec<usize> = if thorough { vec![400, 1000, 2000, 3000] } else { vec![400, 2000] };
        for &big_n in &sizes {
            ctx.space(&format!("logref/gene/N={big_n}"), &format!("N = {big_n}, n in {{1, 2, N/4, N/2, N-1, N}}, window starts {{last, 3/4, 1/2, n, 1/4, 1}}; records 1..{big_n}; log-domain reference, rtol 1e-6"));
            let ns = [1usize, 2, big_n / 4, big_n / 2, big_n - 1, big_n];
            // one case per n; the ontology is built lazily by the process that owns at least one case
            let mut ont: Option<Ontology> = None;
            let lref = LogDomain::new(big_n + 1);
            for &n in &ns {
                if !ctx.take() {
                    continue;
                }
                ctx.state();
                if ont.is_none() {
                    ont = Some(staircase(big_n, &[Kind::Gene]));
                }
                let last = big_n - n + 1;
                // window starts from the far end down to 1; s = n makes the record with K = n start at k = 1
                let mut starts = vec![last, last * 3 / 4, (last + 1) / 2, n.min(last), last / 4, 1];
                starts.retain(|s| *s >= 1);
                starts.sort_unstable_by(|a, b| b.cmp(a));
                starts.dedup();
                check_n_n(ctx, ont.as_ref().unwrap(), big_n, Kind::Gene, big_n, n, &starts, &lref, true);
                ctx.sample(|| json!({"kind": "gene", "N": big_n, "n": n, "window_starts": starts}));
            }
            ctx.mark_partial("large-population slices are a listed subset of (n, s) by design");
        }
    }
    // ---- (last: 100 000 terms leave garbage in the allocator) populations of real-HPO size and beyond: a background
    // of the first N of 100 000 leaves for N in {4097, 18 500, 65 537, 100 000}; records on leaves 1..70 000,
    // 60 001..100 000, every 2500th, every 143rd and every 11th leaf; samples of 50 and 1000 consecutive leaves,
    // 1000 evenly spread leaves, and the big samples whose count PRODUCTS exceed 32 bits
    {
        ctx.space("huge/N<=100000", "flat ontology with 100 000 leaves; records {1: leaves 1..70000, 2: 60001..100000, 3: every 2500th, 4: every 143rd, 5: every 11th (3 - 5 shifted by 0 / 1 / 2 leaves for gene / OMIM / ORPHA), 6: leaves 1..50000} of each kind; backgrounds = the first N leaves, N in {4097, 18500, 65537, 100000}; samples {first 50, first 1000, 1000 evenly spread, and for N = 100000: 1..42000, 1..43000, 30001..100000, all, 10001..10010 + 50001..99990 (record 6: a tail of 49 991 terms)}: one record per linked annotation, count, fold enrichment exactly, p-value against the log-domain reference (rtol 1e-6)");
        let total = 100_000usize;
        let pred = |kind: Kind, rec: u32, i: usize| -> bool {
            match rec {
                1 => i <= 70_000,
                2 => i >= 60_001,
                3 => i % 2500 == kind.idx(),
                4 => i % 143 == kind.idx(),
                5 => i % 11 == kind.idx(),
                _ => i <= 50_000,
            }
        };
        let mut cases: Vec<(usize, Vec<usize>, String)> = vec![];
        for big_n in [4097usize, 18_500, 65_537, 100_000] {
            cases.push((big_n, (1..=50).collect(), "the first 50 leaves".into()));
            cases.push((big_n, (1..=1000).collect(), "the first 1000 leaves".into()));
            let step = big_n / 1000;
            cases.push((big_n, (1..=1000).map(|j| j * step).collect(), format!("every {step}th leaf (1000 leaves)")));
        }
        for (lo, hi) in [(1usize, 42_000usize), (1, 43_000), (30_001, 100_000), (1, 100_000)] {
            cases.push((total, (lo..=hi).collect(), format!("leaves {lo}..={hi}")));
        }
        // a tail of 49 991 terms (more than any 15- or 16-bit bound on the number of summands): record 6 has
        // K = 50 000, the sample holds 10 of its leaves and 49 990 others (n = 50 000, k = 10, P[X >= 10] ~ 1)
        cases.push((total, (10_001..=10_010).chain(50_001..=99_990).collect(), "leaves 10001..=10010 and 50001..=99990".into()));
        let mut ont: Option<Ontology> = None;
        let mut lref: Option<LogDomain> = None;
        for (big_n, sample, label) in &cases {
            if !ctx.take() {
                continue;
            }
            ctx.state();
            ctx.nontrivial();
            if ont.is_none() {
                let mut f = Facts::default();
                f.terms.push(Facts::term(1, "root"));
                for i in 1..=total as u32 {
                    f.terms.push(Facts::term(LEAF0 + i, "l"));
                    f.edges.push((LEAF0 + i, 1));
                }
                for kind in KINDS {
                    for rec in 1..=6u32 {
                        for i in 1..=total {
                            if pred(kind, rec, i) {
                                f.anns.push(Facts::ann(kind, rec, "R", Some(LEAF0 + i as u32)));
                            }
                        }
                    }
                }
                ont = drive::build(&f, Mode::Minimal).ok();
                lref = Some(LogDomain::new(total + 1));
            }
            let (Some(o), Some(lr)) = (ont.as_ref(), lref.as_ref()) else {
                ctx.violation("Builder", "[builder] construction fails on valid facts", json!({"leaves": total}));
                break;
            };
            let (big_n, n) = (*big_n, sample.len());
            for kind in KINDS {
                ctx.exec();
                ctx.validated();
                ctx.transitions(1);
                let got = guard(|| {
                    let bg = (1..=big_n as u32).map(|i| o.hpo(LEAF0 + i).unwrap());
                    let smp = sample.iter().map(|i| o.hpo(LEAF0 + *i as u32).unwrap());
                    let mut v: Vec<(u32, u64, f64, f64)> = match kind {
                        Kind::Gene => gene_enrichment(bg, smp).iter().map(|e| (e.id().as_u32(), e.count(), e.pvalue(), e.enrichment())).collect(),
                        Kind::Omim => omim_disease_enrichment(bg, smp).iter().map(|e| (e.id().as_u32(), e.count(), e.pvalue(), e.enrichment())).collect(),
                        Kind::Orpha => orpha_disease_enrichment(bg, smp).iter().map(|e| (e.id().as_u32(), e.count(), e.pvalue(), e.enrichment())).collect(),
                    };
                    v.sort_by_key(|x| x.0);
                    v
                });
                let case = |extra: serde_json::Value| json!({"layout": "100 000 leaves; records 1: leaves 1..70000, 2: 60001..100000, 3: every 2500th, 4: every 143rd, 5: every 11th leaf (shifted by 0 / 1 / 2 for gene / omim / orpha), 6: leaves 1..50000", "background": format!("the first {big_n} leaves"), "sample": label, "kind": kind.name(), "detail": extra});
                let res = match got {
                    Ok(r) => r,
                    Err(p) => {
                        ctx.violation(site(kind), "panics", case(json!({"observed": p})));
                        continue;
                    }
                };
                let want: Vec<(u32, usize, usize)> = (1..=6u32).map(|rec| (rec, (1..=big_n).filter(|i| pred(kind, rec, *i)).count(), sample.iter().filter(|i| pred(kind, rec, **i)).count())).filter(|w| w.2 > 0).collect();
                if res.len() != want.len() || res.iter().zip(&want).any(|(r, w)| r.0 != w.0) {
                    ctx.violation(site(kind), "not exactly one record per annotation linked to a sample term", case(json!({"observed_ids": res.iter().map(|r| r.0).collect::<Vec<_>>(), "expected_ids": want.iter().map(|w| w.0).collect::<Vec<_>>()})));
                    continue;
                }
                for (r, w) in res.iter().zip(&want) {
                    let (big_k, k) = (w.1, w.2);
                    if r.1 != k as u64 {
                        ctx.violation(site(kind), "count is not the number of linked sample terms", case(json!({"record": w.0, "K": big_k, "k": k, "observed_count": r.1})));
                        continue;
                    }
                    let want_fold = (k as f64 / n as f64) / (big_k as f64 / big_n as f64);
                    if !((r.3 - want_fold).abs() <= 1e-12 * want_fold.abs()) {
                        ctx.violation(site(kind), "fold enrichment is not (k/n)/(K/N)", case(json!({"record": w.0, "N": big_n, "K": big_k, "n": n, "k": k, "observed": r.3, "expected": want_fold})));
                        continue;
                    }
                    let want_p = lr.p(big_n, big_k, n, k);
                    if want_p > 1e-300 && want_p < 0.999 {
                        ctx.bump("huge_nontrivial_p_values", 1);
                    }
                    if !(r.2 >= 0.0 && r.2 <= 1.0) || (r.2 - want_p).abs() > 1e-6 * want_p.abs() + 2e-323 {
                        ctx.violation(site(kind), "p-value is not the hypergeometric tail P[X >= k]", case(json!({"record": w.0, "N": big_n, "K": big_k, "n": n, "k": k, "observed_p": r.2, "expected_p": want_p})));
                    }
                }
            }
            ctx.sample(|| json!({"N": big_n, "sample": label}));
        }
    }
}
