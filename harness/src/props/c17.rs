//! C17 - hierarchical clustering returns a valid dendrogram built from closest pairs.
//!
//! Set-up: a small ontology (root 1; 2,3,4,6,8,9,10,11 children of 1; 5 child of 2; 7 child of 5).
//! An input family is a list of n pairwise term-disjoint HpoSets (singletons of unrelated terms in
//! the main spaces; singletons / pairs of RELATED terms and EMPTY sets in the dedicated spaces).
//! The distance callback is a pure function of the exact CONTENT (term ids) of the two sets it is
//! handed, so the same table serves the initial call and, for `union`, the later calls (merged set
//! vs. every other live set). Every invocation is recorded.
//! Space: rank orders of the base distances (all of them up to 10 base pairs, Kendall-tau balls
//! around three base orders for n = 6, 7) x the four linkage methods.
//! Oracle: structural dendrogram checks + callback accounting + a naive reference clustering.

use crate::ctx::{fnv, guard, Ctx};
use crate::drive;
use crate::model::{Facts, Mode};
use hpo::annotations::AnnotationId;
use hpo::stats::Linkage;
use hpo::term::HpoGroup;
use hpo::utils::Combinations;
use hpo::{HpoSet, Ontology};
use serde_json::{json, Value};
use std::cell::{Cell, RefCell};

const ROOT: u32 = 1;
/// (child, parent) links of the ontology; terms 1..=11
const LINKS: [(u32, u32); 10] = [(2, 1), (3, 1), (4, 1), (6, 1), (8, 1), (9, 1), (10, 1), (11, 1), (5, 2), (7, 5)];
const MAX_TERM: u32 = 11;
/// pairwise unrelated terms for the "flat" families: input i is the singleton {FLAT[i]}
const FLAT: [u32; 8] = [2, 3, 4, 6, 8, 9, 10, 11];
const MAX_N: usize = 8;
/// largest n of the rank-order spaces (the merge-history spaces go up to MAX_N)
const MAX_N_RANKS: usize = 7;
/// largest cluster index + 1 for n = MAX_N (2n-1 nodes in the dendrogram)
const MAX_NODES: usize = 2 * MAX_N - 1;

/// Atoms of the distance table: bit t (1..=11) = term t; bits 0 and 12 = pseudo-atoms standing for
/// an empty set (an empty set has no term the table could be keyed by). By CONTENT an empty set is
/// always atom 0; in the initial call, which is keyed by input index, a second empty input is atom 12
/// so that every unordered pair of input indices has its own distance.
const EPS1: usize = 0;
const EPS2: usize = 12;
const MAX_ATOMS: usize = 13;

#[derive(Clone, Copy, PartialEq, Eq, Debug)]
enum Method {
    Single,
    Complete,
    Average,
    Union,
}

const METHODS: [Method; 4] = [Method::Single, Method::Complete, Method::Average, Method::Union];

impl Method {
    fn name(self) -> &'static str {
        match self {
            Method::Single => "single",
            Method::Complete => "complete",
            Method::Average => "average",
            Method::Union => "union",
        }
    }
    fn site(self) -> &'static str {
        match self {
            Method::Single => "Linkage::single",
            Method::Complete => "Linkage::complete",
            Method::Average => "Linkage::average",
            Method::Union => "Linkage::union",
        }
    }
}

fn n_pairs(n: usize) -> usize {
    n * n.saturating_sub(1) / 2
}

/// The unordered pairs {i,j}, i<j, in the order `Combinations` documents: (0,1),(0,2),..,(1,2),..
fn pair_list(n: usize) -> Vec<(usize, usize)> {
    (0..n).flat_map(|i| (i + 1..n).map(move |j| (i, j))).collect()
}

fn bits_of(mask: u32) -> Vec<usize> {
    (0..32).filter(|b| mask >> b & 1 == 1).collect()
}

/// Atoms of a set by its content.
fn atomize(content: u32) -> u32 {
    if content == 0 {
        1 << EPS1
    } else {
        content
    }
}

// ------------------------------------------------------------------------------------------
// Input families
// ------------------------------------------------------------------------------------------

/// n input sets as term bit masks (bit t = term t); pairwise disjoint; at most two are empty.
struct Inputs {
    sets: Vec<u32>,
    /// atoms of input i in the initial (index keyed) call
    first_atoms: Vec<u32>,
    /// involved atoms in order of first appearance: their pairs, in `pair_list` order, carry the ranks
    atoms: Vec<usize>,
    /// all terms of all inputs
    all_terms: u32,
    /// pair_list(n)
    pairs: Vec<(usize, usize)>,
}

impl Inputs {
    fn new(sets: &[u32]) -> Inputs {
        let mut first_atoms = vec![];
        let mut atoms = vec![];
        let mut all_terms = 0u32;
        let mut empties = 0;
        for &s in sets {
            assert!(s & 1 == 0 && s >> (MAX_TERM + 1) == 0, "C17 harness: input term out of range");
            assert!(s & all_terms == 0, "C17 harness: input sets must be pairwise disjoint");
            all_terms |= s;
            let a = if s != 0 {
                s
            } else {
                empties += 1;
                assert!(empties <= 2, "C17 harness: at most two empty inputs");
                if empties == 1 {
                    1 << EPS1
                } else {
                    1 << EPS2
                }
            };
            first_atoms.push(a);
            atoms.extend(bits_of(a));
        }
        Inputs { sets: sets.to_vec(), first_atoms, atoms, all_terms, pairs: pair_list(sets.len()) }
    }
    /// Non-empty input sets that may overlap or be equal (only used with a `Table::for_subsets` table).
    fn overlapping(sets: &[u32]) -> Inputs {
        let mut all_terms = 0u32;
        for &s in sets {
            assert!(s != 0 && s & 1 == 0 && s >> (MAX_TERM + 1) == 0, "C17 harness: input term out of range");
            all_terms |= s;
        }
        Inputs { sets: sets.to_vec(), first_atoms: sets.to_vec(), atoms: bits_of(all_terms), all_terms, pairs: pair_list(sets.len()) }
    }
    fn overlaps(&self) -> bool {
        (0..self.n()).any(|i| (i + 1..self.n()).any(|j| self.sets[i] & self.sets[j] != 0))
    }
    fn flat(n: usize) -> Inputs {
        let sets: Vec<u32> = (0..n).map(|i| 1u32 << FLAT[i]).collect();
        Inputs::new(&sets)
    }
    fn n(&self) -> usize {
        self.sets.len()
    }
    /// number of base distances (pairs of involved atoms)
    fn m(&self) -> usize {
        n_pairs(self.atoms.len())
    }
    fn describe(&self) -> String {
        self.sets.iter().map(|&s| format!("{{{}}}", bits_of(s).iter().map(|t| t.to_string()).collect::<Vec<_>>().join(","))).collect::<Vec<_>>().join(" ")
    }
    fn to_json(&self) -> Value {
        json!(self.sets.iter().map(|&s| bits_of(s)).collect::<Vec<_>>())
    }
}

fn set_of(terms: &[u32]) -> u32 {
    terms.iter().fold(0, |m, t| m | 1 << t)
}

// ------------------------------------------------------------------------------------------
// Distance table
// ------------------------------------------------------------------------------------------

/// Distance "table", keyed by set content (atoms). The base value of the atom pair with rank r
/// (0 = closest) among m pairs is the integer I_r = (r+1)*2^m + 2^r, scaled by 2^-(m+6): strictly
/// increasing in the rank, roughly (r+1)/64, and the low-order bit pattern 2^r keeps means of
/// different groups of base values apart (so `average` / `union` rarely produce ties; ties are
/// nevertheless detected by the reference and never assumed absent).
/// For two disjoint non-empty atom sets A, B: value = (sum of I over A x B) / (|A||B|) / 2^(m+6),
/// computed exactly in integers, divided in f64 and rounded once to f32 (size-weighted mean of
/// the base distances between members). Symmetric by construction.
/// In the family "one infinite distance" the pair of the largest rank is at +inf instead; a set pair
/// whose members include that pair is at +inf as well (the mean of values one of which is +inf).
/// `fixed` (n = 2 only) overrides the single base distance with an explicit f32 value.
/// `offset` (an integer, in units of 1/scale) is subtracted from every value (after the mean, which
/// is affine): it moves some or all distances below zero without changing their order.
/// `subsets` switches to a different kind of table for OVERLAPPING inputs: a plain look-up keyed by
/// the contents of the two sets, each a non-empty subset of a 3-term universe (code = bit k set iff
/// universe[k] is in the set), with a value for every unordered pair of subsets, equal ones included.
struct Table {
    m: usize,
    ival: [[u64; MAX_ATOMS]; MAX_ATOMS],
    inf: [[bool; MAX_ATOMS]; MAX_ATOMS],
    /// the value of the pairs marked in `inf`: +inf (family one-infinite) or -inf (family one-negative-infinite)
    inf_value: f32,
    fixed: Option<f32>,
    scale: f64,
    offset: f64,
    subsets: Option<SubsetTable>,
}

struct SubsetTable {
    universe: [u32; 3],
    /// integer value per (code, code), symmetric; value = integer / 2^18
    ints: [[u64; 8]; 8],
}

const SUBSET_SCALE: f64 = 262144.0;

impl SubsetTable {
    fn code(&self, content: u32) -> usize {
        (0..3).filter(|&k| content >> self.universe[k] & 1 == 1).map(|k| 1usize << k).sum()
    }
    fn value(&self, ca: u32, cb: u32) -> f32 {
        (self.ints[self.code(ca)][self.code(cb)] as f64 / SUBSET_SCALE) as f32
    }
    /// `variant` selects one of four fixed assignments of the 28 ranks to the unordered pairs of subsets.
    /// rank r -> integer (r+1)*4096 + (37 r^2 mod 4093): increasing, exact, and means of two values rarely
    /// coincide with a third one (ties are detected by the reference anyway).
    fn new(universe: [u32; 3], variant: usize) -> SubsetTable {
        let mut ints = [[0u64; 8]; 8];
        let mut p = 0usize;
        for a in 1..8usize {
            for b in a..8usize {
                let r = match variant {
                    0 => p,
                    1 => 27 - p,
                    2 => {
                        if p % 2 == 0 {
                            p / 2
                        } else {
                            27 - p / 2
                        }
                    }
                    _ => (p * 11 + 5) % 28,
                } as u64;
                let v = (r + 1) * 4096 + (37 * r * r) % 4093;
                ints[a][b] = v;
                ints[b][a] = v;
                p += 1;
            }
        }
        assert_eq!(p, 28);
        SubsetTable { universe, ints }
    }
}

/// JSON rendering of a distance (serde_json would turn a non-finite number into null).
fn fj(v: f32) -> Value {
    if v.is_finite() {
        json!(v)
    } else {
        json!(format!("{v}"))
    }
}

/// How a rank is turned into a base distance. Only `average` and `union` can tell the families
/// apart (single / complete only compare values).
#[derive(Clone, Copy, PartialEq, Eq, Debug)]
enum Family {
    /// ((r+1)*2^m + 2^r) / 2^(m+6): near-linear, means of different groups stay apart (main family)
    Spread,
    /// (r+1)/64: equally spaced, means of two values regularly coincide with a third value
    /// (incidental ties, detected by the reference and excluded from exact comparison)
    Linear,
    /// 3^r / 2^16: the largest member dominates every mean
    Geometric,
    /// as Spread, but the pair of the largest rank is at f32::INFINITY (a legal distance, e.g. -ln 0)
    InfTop,
    /// as Spread, but the pair of rank 0 (the closest) is at f32::NEG_INFINITY
    InfBottom,
    /// as Spread minus an offset that puts exactly the closest pair below zero
    NegOne,
    /// as Spread minus an offset that puts exactly the ceil(m/2) closest pairs below zero
    NegHalf,
    /// as Spread minus an offset that puts every pair below zero
    NegAll,
    /// the Spread values times 2^-30 / 2^-60 / 2^-100 (all far below f32::EPSILON, still exact and distinct)
    Tiny30,
    Tiny60,
    Tiny100,
    /// the Spread values times 2^60
    Huge60,
    /// the 2 closest pairs / the ceil(m/2) closest pairs at the Spread values times 2^-40 (tiny), the others ordinary
    MixedTiny2,
    MixedTinyHalf,
    /// the bottom of the f32 range: (8 * Spread integer + 1) times the smallest subnormal 2^-149 - all odd
    /// multiples, congruent 1 mod 8, so that the means of two parts taken up to three levels deep are integers
    /// (exactly representable); halving such a value alone is not exact
    Subnormal,
    /// the top of the f32 range: the Spread values scaled so that the largest lies in [2^127, 2^128); the
    /// sum of two large values overflows although their mean is finite
    Top,
    /// one binade below `Top`: the largest value lies in [2^126, 2^127), so no sum of two values overflows and
    /// every `average` mean at the top of the range is compared (Top itself leaves them don't-care)
    BelowTop,
    /// the Spread values, but the first two ranks >= 1 whose pairs share an input get the SAME value:
    /// two inputs exactly equidistant from a third while the closest pair is unique
    EqualPair,
    /// the Spread values minus the value of rank 0 / 1 / m/2 / m-1: that pair is at exactly 0.0, the closer
    /// pairs are negative, the others positive (tie-free)
    ZeroRank0,
    ZeroRank1,
    ZeroRankMid,
    ZeroRankTop,
}

impl Family {
    fn name(self) -> &'static str {
        match self {
            Family::Spread => "spread",
            Family::Linear => "linear",
            Family::Geometric => "geometric",
            Family::InfTop => "one-infinite",
            Family::InfBottom => "one-negative-infinite",
            Family::NegOne => "closest-negative",
            Family::NegHalf => "half-negative",
            Family::NegAll => "all-negative",
            Family::Tiny30 => "scaled-2^-30",
            Family::Tiny60 => "scaled-2^-60",
            Family::Tiny100 => "scaled-2^-100",
            Family::Huge60 => "scaled-2^60",
            Family::MixedTiny2 => "two-closest-tiny",
            Family::MixedTinyHalf => "closest-half-tiny",
            Family::Subnormal => "subnormal",
            Family::Top => "top-of-range",
            Family::BelowTop => "one-binade-below-top",
            Family::EqualPair => "two-equal",
            Family::ZeroRank0 => "zero-at-rank-0",
            Family::ZeroRank1 => "zero-at-rank-1",
            Family::ZeroRankMid => "zero-at-middle-rank",
            Family::ZeroRankTop => "zero-at-top-rank",
        }
    }
    fn scale(self, m: usize) -> f64 {
        match self {
            Family::Spread | Family::InfTop | Family::InfBottom | Family::NegOne | Family::NegHalf | Family::NegAll | Family::EqualPair | Family::ZeroRank0 | Family::ZeroRank1 | Family::ZeroRankMid | Family::ZeroRankTop => (1u64 << (m + 6)) as f64,
            Family::Subnormal => 2f64.powi(149),
            Family::Top | Family::BelowTop => {
                let top = if m == 0 { 1 } else { base_int(Family::Spread, m - 1, m) };
                let bits = 64 - top.leading_zeros() as i32;
                2f64.powi(bits - if self == Family::Top { 128 } else { 127 })
            }
            Family::Tiny30 => (1u64 << (m + 6)) as f64 * 2f64.powi(30),
            Family::Tiny60 => (1u64 << (m + 6)) as f64 * 2f64.powi(60),
            Family::Tiny100 => (1u64 << (m + 6)) as f64 * 2f64.powi(100),
            Family::Huge60 => (1u64 << (m + 6)) as f64 * 2f64.powi(-60),
            Family::MixedTiny2 | Family::MixedTinyHalf => (1u64 << (m + 6)) as f64 * 2f64.powi(40),
            Family::Linear => 64.0,
            Family::Geometric => 65536.0,
        }
    }
}

/// Number of pairs (the closest ones) that a mixed family keeps at tiny magnitude (times 2^-40).
fn tiny_ranks(fam: Family, m: usize) -> usize {
    match fam {
        Family::MixedTiny2 => 2.min(m),
        Family::MixedTinyHalf => (m + 1) / 2,
        _ => 0,
    }
}

/// Number of pairs (the closest ones) that the family puts below zero.
fn negatives(fam: Family, m: usize) -> usize {
    match fam {
        Family::NegOne => 1.min(m),
        Family::NegHalf => (m + 1) / 2,
        Family::NegAll => m,
        _ => 0,
    }
}

/// The offset (integer units) that makes exactly the k closest of m Spread values negative and none zero:
/// I_r = (r+1)*2^m + 2^r lies strictly between k*2^m + 2^(m-1) for r < k <= r' (k < m); for k = m the
/// offset is (m+1)*2^m, above every value.
fn negative_offset(k: usize, m: usize) -> u64 {
    if k == 0 || m == 0 {
        0
    } else if k >= m {
        ((m as u64) + 1) << m
    } else {
        ((k as u64) << m) + (1u64 << (m - 1))
    }
}

/// The rank whose pair a zero family puts at exactly 0.0.
fn zero_rank(fam: Family, m: usize) -> Option<usize> {
    if m == 0 {
        return None;
    }
    match fam {
        Family::ZeroRank0 => Some(0),
        Family::ZeroRank1 => Some(1.min(m - 1)),
        Family::ZeroRankMid => Some(m / 2),
        Family::ZeroRankTop => Some(m - 1),
        _ => None,
    }
}

fn base_int(fam: Family, rank: usize, m: usize) -> u64 {
    match fam {
        Family::Spread | Family::InfTop | Family::InfBottom | Family::NegOne | Family::NegHalf | Family::NegAll | Family::Tiny30 | Family::Tiny60 | Family::Tiny100 | Family::Huge60 | Family::Top | Family::BelowTop | Family::EqualPair | Family::ZeroRank0 | Family::ZeroRank1 | Family::ZeroRankMid | Family::ZeroRankTop => (((rank as u64) + 1) << m) | (1u64 << rank),
        Family::Subnormal => 8 * ((((rank as u64) + 1) << m) | (1u64 << rank)) + 1,
        Family::MixedTiny2 | Family::MixedTinyHalf => {
            let spread = (((rank as u64) + 1) << m) | (1u64 << rank);
            if rank < tiny_ranks(fam, m) {
                spread
            } else {
                spread << 40
            }
        }
        Family::Linear => rank as u64 + 1,
        Family::Geometric => 3u64.pow(rank as u32),
    }
}

impl Table {
    /// `rank_of_pair[p]` = rank of the p-th pair (in `pair_list` order) of the involved atoms.
    fn new(inp: &Inputs, rank_of_pair: &[usize], fam: Family) -> Table {
        let atoms = &inp.atoms;
        let m = n_pairs(atoms.len());
        assert_eq!(rank_of_pair.len(), m);
        let mut ival = [[0u64; MAX_ATOMS]; MAX_ATOMS];
        let mut inf = [[false; MAX_ATOMS]; MAX_ATOMS];
        let mut p = 0;
        for x in 0..atoms.len() {
            for y in x + 1..atoms.len() {
                let (i, j) = (atoms[x], atoms[y]);
                let v = base_int(fam, rank_of_pair[p], m);
                ival[i][j] = v;
                ival[j][i] = v;
                if (fam == Family::InfTop && rank_of_pair[p] + 1 == m) || (fam == Family::InfBottom && rank_of_pair[p] == 0) {
                    inf[i][j] = true;
                    inf[j][i] = true;
                }
                p += 1;
            }
        }
        if fam == Family::EqualPair {
            // pairs by rank; the first (r, r') in lexicographic order, 1 <= r < r', whose pairs share an input
            let mut by_rank = vec![(0usize, 0usize); m];
            let mut p = 0;
            for x in 0..atoms.len() {
                for y in x + 1..atoms.len() {
                    by_rank[rank_of_pair[p]] = (atoms[x], atoms[y]);
                    p += 1;
                }
            }
            'find: for r in 1..m {
                for r2 in r + 1..m {
                    let ((a, b), (c, d)) = (by_rank[r], by_rank[r2]);
                    if a == c || a == d || b == c || b == d {
                        ival[c][d] = ival[a][b];
                        ival[d][c] = ival[a][b];
                        break 'find;
                    }
                }
            }
        }
        let offset = match zero_rank(fam, m) {
            Some(r) => base_int(Family::Spread, r, m) as f64,
            None => negative_offset(negatives(fam, m), m) as f64,
        };
        Table { m, ival, inf, inf_value: if fam == Family::InfBottom { f32::NEG_INFINITY } else { f32::INFINITY }, fixed: None, scale: fam.scale(m), offset, subsets: None }
    }

    /// Content-keyed look-up table for overlapping inputs over a 3-term universe.
    fn for_subsets(universe: [u32; 3], variant: usize) -> Table {
        Table { m: 28, ival: [[0u64; MAX_ATOMS]; MAX_ATOMS], inf: [[false; MAX_ATOMS]; MAX_ATOMS], inf_value: f32::INFINITY, fixed: None, scale: SUBSET_SCALE, offset: 0.0, subsets: Some(SubsetTable::new(universe, variant)) }
    }

    /// The distance of inputs i and j in the initial call (keyed by input index).
    fn initial(&self, inp: &Inputs, i: usize, j: usize) -> f32 {
        match &self.subsets {
            Some(t) => t.value(inp.sets[i], inp.sets[j]),
            None => self.value(inp.first_atoms[i], inp.first_atoms[j]),
        }
    }

    /// Singleton inputs with explicit integer base distances `ints[i][j]` (value = integer / scale).
    fn from_ints(inp: &Inputs, ints: &[[u64; MAX_N]; MAX_N], scale: f64) -> Table {
        let n = inp.n();
        assert!(inp.atoms.len() == n, "C17 harness: from_ints needs singleton inputs");
        let mut ival = [[0u64; MAX_ATOMS]; MAX_ATOMS];
        for i in 0..n {
            for j in 0..n {
                if i != j {
                    ival[inp.atoms[i]][inp.atoms[j]] = ints[i][j];
                }
            }
        }
        Table { m: n_pairs(n), ival, inf: [[false; MAX_ATOMS]; MAX_ATOMS], inf_value: f32::INFINITY, fixed: None, scale, offset: 0.0, subsets: None }
    }

    /// Two singleton inputs with the explicit distance `v` between them.
    fn fixed2(inp: &Inputs, v: f32) -> Table {
        assert!(!v.is_nan(), "C17 harness: NaN is not a distance");
        assert!(inp.n() == 2 && inp.m() == 1);
        let mut t = Table::new(inp, &[0], Family::Spread);
        t.fixed = Some(v);
        t
    }

    /// Value for two disjoint non-empty atom masks.
    fn value(&self, a: u32, b: u32) -> f32 {
        debug_assert!(a != 0 && b != 0 && a & b == 0);
        if let Some(v) = self.fixed {
            return v;
        }
        let mut sum = 0u64;
        let mut cnt = 0u64;
        let mut infinite = false;
        let mut ra = a;
        while ra != 0 {
            let i = ra.trailing_zeros() as usize;
            ra &= ra - 1;
            let mut rb = b;
            while rb != 0 {
                let j = rb.trailing_zeros() as usize;
                rb &= rb - 1;
                sum += self.ival[i][j];
                cnt += 1;
                infinite |= self.inf[i][j];
            }
        }
        if infinite {
            return self.inf_value;
        }
        (((sum as f64) / (cnt as f64) - self.offset) / self.scale) as f32
    }

    /// The distance the callback answers for two set contents outside the initial call.
    fn by_content(&self, ca: u32, cb: u32) -> f32 {
        match &self.subsets {
            Some(t) => t.value(ca, cb),
            None => self.value(atomize(ca), atomize(cb)),
        }
    }

    fn base_json(&self, inp: &Inputs) -> Value {
        let mut v = vec![];
        for (i, j) in pair_list(inp.n()) {
            v.push(json!({"inputs": [i, j], "terms": [bits_of(inp.sets[i]), bits_of(inp.sets[j])], "distance": fj(self.initial(inp, i, j))}));
        }
        json!(v)
    }
}

/// Harness self-check: base values are exactly representable, distinct and increasing in the rank.
fn selfcheck_values(m: usize, fam: Family) {
    let scale = fam.scale(m);
    let mut prev = -1.0f64;
    for r in 0..m {
        let exact = base_int(fam, r, m) as f64 / scale;
        let f = exact as f32;
        assert!(f as f64 == exact, "C17 harness: base value of rank {r} (m={m}, {fam:?}) is not exact in f32");
        assert!(exact > prev, "C17 harness: base values not increasing");
        prev = exact;
    }
}

// ------------------------------------------------------------------------------------------
// Callback recorder
// ------------------------------------------------------------------------------------------

#[derive(Default)]
struct Rec {
    calls: u32,
    /// the first n(n-1)/2 pairs received (term content masks), in the order received: the initial phase
    first: Vec<(u32, u32)>,
    /// number of invocations the initial phase took
    initial_calls: u32,
    /// (invocation, lhs content, rhs content) of all later invocations
    later: Vec<(u32, u32, u32)>,
    /// terms received that belong to no input
    foreign: u32,
    /// pairs of one and the same content (the library asks union-vs-itself)
    selfpairs: u32,
    /// overlapping but different sets
    overlap: u32,
    /// sets whose iteration yields a term twice or whose len() is not the number of distinct terms (the
    /// ORDER of the iteration is not demanded); the first one as (iterated ids, len())
    malformed: u32,
    malformed_example: Option<(Vec<u32>, usize)>,
}

impl Rec {
    fn clear(&mut self) {
        self.calls = 0;
        self.first.clear();
        self.initial_calls = 0;
        self.later.clear();
        self.foreign = 0;
        self.selfpairs = 0;
        self.overlap = 0;
        self.malformed = 0;
        self.malformed_example = None;
    }
}

fn content_of(set: &HpoSet<'_>, allowed: u32, rec: &mut Rec) -> u32 {
    let mut m = 0u32;
    let mut well_formed = true;
    for t in set.iter() {
        let id = t.id().as_u32();
        if id <= MAX_TERM && allowed >> id & 1 == 1 {
            // "the union of the merged sets" fixes the content, not the order in which it is iterated (a union that
            // appends the second set's new terms is the exact union); a term handed out twice is not a union
            if m >> id & 1 == 1 {
                well_formed = false;
            }
            m |= 1 << id;
        } else {
            rec.foreign += 1;
        }
    }
    if !well_formed || set.len() != m.count_ones() as usize {
        rec.malformed += 1;
        if rec.malformed_example.is_none() {
            rec.malformed_example = Some((set.iter().map(|t| t.id().as_u32()).collect(), set.len()));
        }
    }
    m
}

// ------------------------------------------------------------------------------------------
// Running the library
// ------------------------------------------------------------------------------------------

type Merge = (usize, usize, u32, usize); // lhs, rhs, distance bits, len

/// How the input sets are handed to `Linkage::*` (they take any `IntoIterator<Item = HpoSet>`): the
/// adaptors differ in what `size_hint()` promises, the sets and their order are the same.
#[derive(Clone, Copy, PartialEq, Eq, Debug)]
enum Adaptor {
    /// a `Vec<HpoSet>` (exact size hint)
    Vec,
    /// `vec.into_iter().filter(|_| true)` (lower bound 0)
    Filter,
    /// two nested Vecs (first half, second half) flattened (lower bound 0)
    Flatten,
    /// `std::iter::from_fn` (no bounds at all)
    FromFn,
    /// `first_half.into_iter().filter(|_| true).chain(second_half_vec)` (lower bound = length of the second half)
    ChainFilterVec,
}

const ADAPTORS: [Adaptor; 5] = [Adaptor::Vec, Adaptor::Filter, Adaptor::Flatten, Adaptor::FromFn, Adaptor::ChainFilterVec];

impl Adaptor {
    fn name(self) -> &'static str {
        match self {
            Adaptor::Vec => "Vec",
            Adaptor::Filter => "into_iter().filter(|_| true)",
            Adaptor::Flatten => "nested Vecs flattened",
            Adaptor::FromFn => "std::iter::from_fn",
            Adaptor::ChainFilterVec => "filter(..).chain(Vec)",
        }
    }
    /// Rust expression handing over `sets: Vec<HpoSet>` (for the reproduction snippet).
    fn rust(self) -> &'static str {
        match self {
            Adaptor::Vec => "sets",
            Adaptor::Filter => "sets.into_iter().filter(|_| true)",
            Adaptor::Flatten => "{ let mut a = sets; let b = a.split_off(a.len() / 2); vec![a, b].into_iter().flatten() }",
            Adaptor::FromFn => "{ let mut it = sets.into_iter(); std::iter::from_fn(move || it.next()) }",
            Adaptor::ChainFilterVec => "{ let mut a = sets; let b = a.split_off((a.len() + 1) / 2); a.into_iter().filter(|_| true).chain(b) }",
        }
    }
}

fn link<'a, T, F>(method: Method, sets: T, cb: F) -> Linkage<'a>
where
    T: IntoIterator<Item = HpoSet<'a>>,
    F: Fn(Combinations<HpoSet<'_>>) -> Vec<f32>,
{
    match method {
        Method::Single => Linkage::single(sets, cb),
        Method::Complete => Linkage::complete(sets, cb),
        Method::Average => Linkage::average(sets, cb),
        Method::Union => Linkage::union(sets, cb),
    }
}

struct Obs {
    cluster: Vec<Merge>,
    /// the owned iteration, brought back to forward order; `owned_view` says which owned view was used
    into_cluster: Vec<Merge>,
    owned_view: &'static str,
    indicies: Vec<usize>,
    /// first disagreement between the borrowed views of the result: (site, description)
    views: Option<(&'static str, String)>,
    /// size_hint() of the borrowed iterator brackets the number of items left but is not exact (the
    /// ExactSizeIterator contract asks for exactness; the property does not): recorded, not a violation
    inexact_size_hint: bool,
}

/// (lhs, rhs, distance bits, len) of an item of any view of the result. A macro, not a function: the item type
/// (today `hpo::stats::cluster::Cluster`, borrowed or owned) is not named, only its four accessors are used.
macro_rules! merge_of {
    ($c:expr) => {{
        let c = $c;
        (c.lhs(), c.rhs(), c.distance().to_bits(), c.len())
    }};
}

/// Take every view of the result. The forward iteration of `cluster()` is the yardstick; `rev()`,
/// `&linkage`, `iter()`, `nth(k)`, `last()`, `len()` / `size_hint()` after taking k items (every k) are
/// compared with it here; the owned iteration (one of four ways, chosen by `variant`) is compared by the oracle.
fn observe(l: Linkage<'_>, variant: usize) -> Obs {
    let cluster: Vec<Merge> = l.cluster().map(|c| merge_of!(c)).collect();
    let len = cluster.len();
    let mut views: Option<(&'static str, String)> = None;
    let mut inexact_size_hint = false;
    let mut note = |site: &'static str, what: String| {
        if views.is_none() {
            views = Some((site, what));
        }
    };
    if !l.cluster().rev().map(|c| merge_of!(c)).eq(cluster.iter().rev().copied()) {
        note("cluster::Iter (DoubleEndedIterator)", format!("cluster().rev() yields {:?}", fmt_merges(&l.cluster().rev().map(|c| merge_of!(c)).collect::<Vec<_>>())));
    }
    if !(&l).into_iter().map(|c| merge_of!(c)).eq(cluster.iter().copied()) {
        note("IntoIterator for &Linkage", format!("(&linkage).into_iter() yields {:?}", fmt_merges(&(&l).into_iter().map(|c| merge_of!(c)).collect::<Vec<_>>())));
    }
    if !l.iter().map(|c| merge_of!(c)).eq(cluster.iter().copied()) {
        note("Linkage::iter", format!("iter() yields {:?}", fmt_merges(&l.iter().map(|c| merge_of!(c)).collect::<Vec<_>>())));
    }
    {
        let mut it = l.cluster();
        for k in 0..=len {
            let (left, hint) = (it.len(), it.size_hint());
            if left != len - k || hint.0 > len - k || hint.1.map_or(false, |u| u < len - k) {
                note("cluster::Iter (ExactSizeIterator)", format!("after taking {k} of {len} items: len() = {left}, size_hint() = {hint:?}"));
                break;
            }
            if hint != (len - k, Some(len - k)) {
                inexact_size_hint = true;
            }
            let item = it.next().map(|c| merge_of!(c));
            if item != cluster.get(k).copied() {
                note("cluster::Iter", format!("item {k} of a second forward iteration differs: {item:?}"));
                break;
            }
        }
    }
    {
        // from both ends alternately
        let mut it = l.cluster();
        let (mut lo, mut hi) = (0usize, len);
        let mut front = true;
        while lo < hi {
            let item = if front { it.next() } else { it.next_back() }.map(|c| merge_of!(c));
            let want = if front { cluster[lo] } else { cluster[hi - 1] };
            if front {
                lo += 1;
            } else {
                hi -= 1;
            }
            if item != Some(want) || it.len() != hi - lo {
                note("cluster::Iter (DoubleEndedIterator)", format!("alternating next()/next_back(): got {item:?}, {} left, expected {want:?}, {} left", it.len(), hi - lo));
                break;
            }
            front = !front;
        }
        if lo == hi && (it.next().is_some() || it.next_back().is_some()) {
            note("cluster::Iter (DoubleEndedIterator)", "yields items after both ends met".to_string());
        }
    }
    for k in 0..=len {
        let item = l.cluster().nth(k).map(|c| merge_of!(c));
        if item != cluster.get(k).copied() {
            note("cluster::Iter", format!("cluster().nth({k}) = {item:?} (the merge addressed as index n+{k})"));
            break;
        }
    }
    if l.cluster().last().map(|c| merge_of!(c)) != cluster.last().copied() {
        note("cluster::Iter", format!("cluster().last() = {:?}", l.cluster().last().map(|c| merge_of!(c))));
    }
    if l.cluster().count() != len {
        note("cluster::Iter", format!("cluster().count() = {}", l.cluster().count()));
    }
    let indicies = l.indicies();
    // ---- the owned views (the linkage can be consumed only once)
    let (owned_view, into_cluster): (&'static str, Vec<Merge>) = match variant % 4 {
        0 => {
            let it = l.into_cluster();
            if it.len() != len || it.size_hint().0 > len || it.size_hint().1.map_or(false, |u| u < len) {
                note("cluster::IntoIter (ExactSizeIterator)", format!("into_cluster(): len() = {}, size_hint() = {:?} for {len} merges", it.len(), it.size_hint()));
            }
            ("into_cluster()", it.map(|c| merge_of!(c)).collect())
        }
        1 => {
            let it = l.into_iter();
            if it.len() != len || it.size_hint().0 > len || it.size_hint().1.map_or(false, |u| u < len) {
                note("cluster::IntoIter (ExactSizeIterator)", format!("linkage.into_iter(): len() = {}, size_hint() = {:?} for {len} merges", it.len(), it.size_hint()));
            }
            ("linkage.into_iter() (IntoIterator for Linkage)", it.map(|c| merge_of!(c)).collect())
        }
        2 => {
            let mut v: Vec<Merge> = l.into_cluster().rev().map(|c| merge_of!(c)).collect();
            v.reverse();
            ("into_cluster().rev(), reversed", v)
        }
        _ => {
            let mut it = l.into_cluster();
            let (mut head, mut tail) = (vec![], vec![]);
            let mut front = true;
            loop {
                let before = it.len();
                match if front { it.next() } else { it.next_back() } {
                    Some(c) => {
                        if it.len() + 1 != before {
                            note("cluster::IntoIter (ExactSizeIterator)", format!("len() goes from {before} to {} when one item is taken", it.len()));
                        }
                        if front {
                            head.push(merge_of!(c));
                        } else {
                            tail.push(merge_of!(c));
                        }
                    }
                    None => break,
                }
                front = !front;
                if head.len() + tail.len() > len + 2 {
                    break;
                }
            }
            tail.reverse();
            head.extend(tail);
            ("into_cluster() taken alternately by next() / next_back()", head)
        }
    };
    Obs { cluster, into_cluster, owned_view, indicies, views, inexact_size_hint }
}

fn run_lib(ont: &Ontology, inp: &Inputs, method: Method, table: &Table, rec: &RefCell<Rec>, adaptor: Adaptor) -> Result<Obs, String> {
    let n = inp.n();
    let cb = |combs: Combinations<HpoSet<'_>>| -> Vec<f32> {
        let mut rec = rec.borrow_mut();
        let call = rec.calls;
        rec.calls += 1;
        let mut out = Vec::with_capacity(24);
        let by_content = |rec: &mut Rec, xa: u32, xb: u32| -> f32 {
            if table.subsets.is_some() {
                // overlapping inputs: a plain look-up by the two contents (equal or overlapping contents are legal)
                return if xa == 0 || xb == 0 { 0.0 } else { table.by_content(xa, xb) };
            }
            let (a, b) = (atomize(xa), atomize(xb));
            if a == b {
                rec.selfpairs += 1;
                0.0
            } else if a & b != 0 {
                rec.overlap += 1;
                0.0
            } else {
                table.value(a, b)
            }
        };
        // The initial phase lasts until n(n-1)/2 pairs have been received, in however many invocations. Inside
        // it the k-th pair is keyed by input index (pair k in Combinations order) if its contents are those of
        // that pair of inputs - for inputs of distinct content the same as keyed by content - else by content.
        let expected = n_pairs(n);
        for (a, b) in combs {
            let xa = content_of(a, inp.all_terms, &mut rec);
            let xb = content_of(b, inp.all_terms, &mut rec);
            let k = rec.first.len();
            if k < expected {
                rec.first.push((xa, xb));
                rec.initial_calls = call + 1;
                let (i, j) = inp.pairs[k];
                if (xa, xb) == (inp.sets[i], inp.sets[j]) {
                    out.push(table.initial(inp, i, j));
                } else {
                    let v = by_content(&mut rec, xa, xb);
                    out.push(v);
                }
            } else {
                rec.later.push((call, xa, xb));
                let v = by_content(&mut rec, xa, xb);
                out.push(v);
            }
        }
        out
    };
    guard(|| {
        let sets: Vec<HpoSet<'_>> = inp
            .sets
            .iter()
            .map(|&s| {
                let mut g = HpoGroup::new();
                let mut r = s;
                while r != 0 {
                    g.insert(r.trailing_zeros());
                    r &= r - 1;
                }
                HpoSet::new(ont, g)
            })
            .collect();
        let l = match adaptor {
            Adaptor::Vec => link(method, sets, &cb),
            Adaptor::Filter => link(method, sets.into_iter().filter(|_| true), &cb),
            Adaptor::Flatten => {
                let mut a = sets;
                let b = a.split_off(a.len() / 2);
                link(method, vec![a, b].into_iter().flatten(), &cb)
            }
            Adaptor::FromFn => {
                let mut it = sets.into_iter();
                link(method, std::iter::from_fn(move || it.next()), &cb)
            }
            Adaptor::ChainFilterVec => {
                let mut a = sets;
                let b = a.split_off((a.len() + 1) / 2);
                link(method, a.into_iter().filter(|_| true).chain(b), &cb)
            }
        };
        observe(l, method as usize + adaptor as usize)
    })
}

// ------------------------------------------------------------------------------------------
// Reference: naive agglomerative clustering
// ------------------------------------------------------------------------------------------

/// One unit in the last place of an f32 value (2^-149 for zero and subnormals; 0 for non-finite values).
fn ulp(v: f32) -> f64 {
    if !v.is_finite() {
        return 0.0;
    }
    let a = v.abs();
    let next = f32::from_bits(a.to_bits() + 1);
    if next.is_finite() {
        next as f64 - a as f64
    } else {
        a as f64 - f32::from_bits(a.to_bits() - 1) as f64
    }
}

struct RefRun {
    /// (a, b, distance, size) with a < b
    merges: Vec<(usize, usize, f32, usize)>,
    /// `average` only: how far the reported distance of the merge may be from the reference value. "Mean of
    /// the two parts" does not fix the arithmetic: (x+y)/2 in f32, x/2 + y/2, or a mean in f64 rounded once
    /// are all means; each mean may therefore be off by one unit in the last place, and a mean of such means
    /// inherits half of each part's deviation. 0 for the other methods and for the initial distances.
    errs: Vec<f64>,
    /// first step at which two live pairs shared the minimal distance (for `average`: were closer to each other
    /// than the deviations their values may have)
    tie_at: Option<usize>,
    /// `average` only: the first merge whose outcome depends on a mean of two finite values whose SUM overflows
    /// f32 (the documented "mean" is finite, the sum-then-halve arithmetic gives +inf): don't-care from there on
    overflow_from: Option<usize>,
}

fn reference(inp: &Inputs, method: Method, table: &Table) -> RefRun {
    let n = inp.n();
    let mut d = [[0f32; MAX_NODES]; MAX_NODES];
    let mut live = [false; MAX_NODES];
    // true content (union of the members' terms) of every cluster
    let mut content = [0u32; MAX_NODES];
    let mut size = [0usize; MAX_NODES];
    for i in 0..n {
        live[i] = true;
        content[i] = inp.sets[i];
        size[i] = 1;
    }
    for i in 0..n {
        for j in i + 1..n {
            let v = table.initial(inp, i, j);
            d[i][j] = v;
            d[j][i] = v;
        }
    }
    let mut out = RefRun { merges: Vec::with_capacity(n), errs: Vec::with_capacity(n), tie_at: None, overflow_from: None };
    // `average`: admissible deviation of every stored distance (see RefRun::errs)
    let mut err = [[0f64; MAX_NODES]; MAX_NODES];
    for k in 0..n.saturating_sub(1) {
        let nodes = n + k;
        // the closest live pair, and how many live pairs are at that distance
        let mut best: Option<(usize, usize, f32)> = None;
        let mut at_best = 0usize;
        for a in 0..nodes {
            for b in a + 1..nodes {
                if !(live[a] && live[b]) {
                    continue;
                }
                let v = d[a][b];
                match best {
                    Some((_, _, bv)) if v > bv => {}
                    Some((_, _, bv)) if v == bv => at_best += 1,
                    _ => {
                        best = Some((a, b, v));
                        at_best = 1;
                    }
                }
            }
        }
        let (a, b, v) = best.expect("C17 reference: at least two live clusters");
        if at_best > 1 && out.tie_at.is_none() {
            out.tie_at = Some(k);
        }
        if method == Method::Average && out.tie_at.is_none() {
            // another live pair whose interval of admissible values reaches below the upper end of the best one's
            let reach = v as f64 + err[a][b];
            'near: for a2 in 0..nodes {
                for b2 in a2 + 1..nodes {
                    if live[a2] && live[b2] && (a2, b2) != (a, b) && d[a2][b2] as f64 - err[a2][b2] <= reach {
                        out.tie_at = Some(k);
                        break 'near;
                    }
                }
            }
        }
        out.errs.push(if method == Method::Average { err[a][b] } else { 0.0 });
        let new = nodes;
        content[new] = content[a] | content[b];
        size[new] = size[a] + size[b];
        for c in 0..nodes {
            if !live[c] || c == a || c == b {
                continue;
            }
            let (x, y) = (d[c][a], d[c][b]);
            let nv = match method {
                Method::Single => {
                    if x < y {
                        x
                    } else {
                        y
                    }
                }
                Method::Complete => {
                    if x > y {
                        x
                    } else {
                        y
                    }
                }
                Method::Average => {
                    if x.is_finite() && y.is_finite() && !(x + y).is_finite() && out.overflow_from.is_none() {
                        out.overflow_from = Some(k + 1);
                    }
                    (x + y) / 2.0
                }
                // the user distance applied to the TRUE union of the merged sets and the other set
                Method::Union => table.by_content(content[new], content[c]),
            };
            d[c][new] = nv;
            d[new][c] = nv;
            if method == Method::Average {
                let e = (err[c][a] + err[c][b]) / 2.0 + ulp(nv);
                err[c][new] = e;
                err[new][c] = e;
            }
        }
        live[a] = false;
        live[b] = false;
        live[new] = true;
        out.merges.push((a, b, v, size[new]));
    }
    out
}

// ------------------------------------------------------------------------------------------
// Oracle
// ------------------------------------------------------------------------------------------

struct Fail {
    site: String,
    sig: &'static str,
    det: String,
}

fn fail(site: &str, sig: &'static str, det: String) -> Option<Fail> {
    Some(Fail { site: site.to_string(), sig, det })
}

fn fmt_merges(m: &[Merge]) -> Vec<Value> {
    m.iter().map(|&(l, r, d, s)| json!({"lhs": l, "rhs": r, "distance": fj(f32::from_bits(d)), "len": s})).collect()
}

fn fmt_pairs(p: &[(u32, u32)]) -> String {
    let v: Vec<String> = p.iter().map(|&(a, b)| format!("({:?},{:?})", bits_of(a), bits_of(b))).collect();
    v.join(" ")
}

thread_local! {
    /// set by `check` when it ends in the order don't-care (see there); read and reset by `one`
    static ORDER_DONT_CARE: std::cell::Cell<bool> = std::cell::Cell::new(false);
}

fn check(inp: &Inputs, method: Method, obs: &Obs, rf: &RefRun, rec: &Rec) -> Option<Fail> {
    let n = inp.n();
    let site = method.site();
    // ---- callback accounting (initial phase: the first n(n-1)/2 pairs, in one or several invocations)
    if rec.calls == 0 {
        return fail(site, "the distance callback is never invoked", format!("n={n}"));
    }
    let pairs = pair_list(n);
    {
        // as a multi-set of unordered content pairs
        let norm = |a: u32, b: u32| (a.min(b), a.max(b));
        let mut want: Vec<(u32, u32)> = pairs.iter().map(|&(i, j)| norm(inp.sets[i], inp.sets[j])).collect();
        let mut got: Vec<(u32, u32)> = rec.first.iter().map(|&(a, b)| norm(a, b)).collect();
        want.sort_unstable();
        got.sort_unstable();
        if want != got {
            return fail(
                site,
                "the initial distance call does not receive each unordered pair of inputs exactly once",
                format!("n={n}: expected {} pairs before any pair with a merged set, the first {} pairs received are: {}", pairs.len(), rec.first.len(), fmt_pairs(&rec.first)),
            );
        }
    }
    if rec.malformed > 0 {
        let (ids, len) = rec.malformed_example.clone().unwrap_or_default();
        return fail(
            site,
            "distance callback received a malformed set (a term twice in its iteration, or len() != number of distinct terms)",
            format!("n={n}: {} such sets, the first one iterates {:?} and has len() {}", rec.malformed, ids, len),
        );
    }
    if rec.foreign > 0 {
        return fail(site, "the distance callback receives a term that belongs to no input set", format!("n={n}: {} such terms", rec.foreign));
    }
    // ---- cluster() / into_cluster()
    if obs.cluster.len() != n - 1 {
        return fail("Linkage::cluster", "number of merges is not n-1", format!("n={n}: {} merges", obs.cluster.len()));
    }
    if obs.into_cluster.len() != n - 1 {
        return fail("Linkage::into_cluster", "number of merges is not n-1", format!("n={n}: {} merges", obs.into_cluster.len()));
    }
    if obs.cluster != obs.into_cluster {
        return fail("Linkage::into_cluster", "cluster() and into_cluster() disagree", format!("cluster() = {:?}, {} = {:?}", fmt_merges(&obs.cluster), obs.owned_view, fmt_merges(&obs.into_cluster)));
    }
    if let Some((vsite, what)) = &obs.views {
        return fail(vsite, "a view of the result disagrees with the forward iteration of cluster()", format!("n={n}: cluster() = {:?}; {what}", fmt_merges(&obs.cluster)));
    }
    // ---- binary tree over the inputs
    let mut used = [0u32; MAX_NODES];
    let mut size = [1usize; MAX_NODES];
    for (k, &(l, r, _, len)) in obs.cluster.iter().enumerate() {
        for x in [l, r] {
            if x >= n + k {
                return fail(site, "a merge refers to a cluster index that does not exist yet (index >= n + position)", format!("n={n}: merge {k} = ({l},{r}); merges {:?}", fmt_merges(&obs.cluster)));
            }
            used[x] += 1;
        }
        if l == r {
            return fail(site, "a merge joins a cluster with itself", format!("n={n}: merge {k} = ({l},{r})"));
        }
        if len != size[l] + size[r] {
            return fail("Cluster::len", "len() is not the sum of the sizes of the two parts", format!("n={n}: merge {k} = ({l},{r}) len {len}, parts {} + {}; merges {:?}", size[l], size[r], fmt_merges(&obs.cluster)));
        }
        size[n + k] = len;
    }
    for x in 0..(2 * n - 2) {
        if used[x] != 1 {
            return fail(site, "an input or intermediate cluster is not merged exactly once", format!("n={n}: index {x} is merged {} times; merges {:?}", used[x], fmt_merges(&obs.cluster)));
        }
    }
    if obs.cluster[n - 2].3 != n {
        return fail("Cluster::len", "the last merge does not contain all n inputs", format!("n={n}: last len {}", obs.cluster[n - 2].3));
    }
    // ---- indicies()
    {
        let mut s = obs.indicies.clone();
        s.sort_unstable();
        if s != (0..n).collect::<Vec<usize>>() {
            return fail("Linkage::indicies", "indicies() is not a permutation of 0..n", format!("n={n}: {:?}", obs.indicies));
        }
    }
    // ---- pairs after the initial phase (union): each must be matched BY CONTENT to one of the library's own
    //      merges: one side (either position) is exactly the union of the two sets joined by some merge k, the
    //      other side is a cluster that is live right after merge k (or that union itself). Which invocation a
    //      pair arrives in is not demanded.
    if !rec.later.is_empty() {
        let mut content = [0u32; MAX_NODES];
        for i in 0..n {
            content[i] = inp.sets[i];
        }
        let mut dead = [usize::MAX; MAX_NODES]; // the merge that consumed the index
        for (k, &(l, r, _, _)) in obs.cluster.iter().enumerate() {
            content[n + k] = content[l] | content[r];
            dead[l] = k;
            dead[r] = k;
        }
        let live_after = |k: usize, c: u32| (0..=n + k).any(|x| content[x] == c && dead[x] > k);
        // (asking again for two clusters that are live at the same moment - re-validating a row after a merge - is
        // slower but not excluded by the statement: such a pair is accepted as well; a content that is no cluster at
        // all, or two clusters that never live together, is not)
        let colive = |ca: u32, cb: u32| ((0..n).any(|x| content[x] == ca) && (0..n).any(|x| content[x] == cb)) || (0..n - 1).any(|k| live_after(k, ca) && live_after(k, cb));
        for &(call, ca, cb) in &rec.later {
            let matched = (0..n - 1).any(|k| (ca == content[n + k] && live_after(k, cb)) || (cb == content[n + k] && live_after(k, ca))) || colive(ca, cb);
            if !matched {
                let unions: Vec<Vec<usize>> = (0..n - 1).map(|k| bits_of(content[n + k])).collect();
                return fail(
                    "Linkage::union",
                    "distance callback received a set that is not the union of the merged sets",
                    format!(
                        "n={n}: invocation {call} asks for ({:?}, {:?}); these are not two clusters (inputs or unions of merged sets) that are live at the same moment, given the merges {:?} (unions formed: {:?})",
                        bits_of(ca),
                        bits_of(cb),
                        fmt_merges(&obs.cluster),
                        unions
                    ),
                );
            }
        }
    }
    if rec.overlap > 0 {
        return fail(site, "the distance callback receives two different overlapping sets (not two live clusters)", format!("n={n}: later calls {:?}", rec.later));
    }
    // The order of the pairs inside the initial call is not part of the property. The harness relies on it only
    // where the first call is keyed by POSITION: two inputs with equal content whose first-call atoms differ from
    // their content (the two empty sets of the two-empty-inputs families; the overlapping-inputs tables are keyed
    // by content, equal inputs need no order there). If the order ever differs in such a family the distances the
    // library was given are not the ones of the reference: everything that does not depend on the distances has
    // been checked above, the comparison with the reference is a counted don't-care instead of a false alarm.
    {
        let order_as_assumed = pairs.iter().enumerate().all(|(k, &(i, j))| rec.first[k] == (inp.sets[i], inp.sets[j]));
        if !order_as_assumed && inp.first_atoms != inp.sets {
            let mut contents: Vec<u32> = inp.sets.to_vec();
            contents.sort_unstable();
            if contents.windows(2).any(|w| w[0] == w[1]) {
                ORDER_DONT_CARE.with(|c| c.set(true));
                return None;
            }
        }
    }
    // ---- closest pair, reported distance, update rule: against the reference, up to the first tie
    let upto = rf.tie_at.unwrap_or(n - 1).min(rf.overflow_from.unwrap_or(n - 1));
    for k in 0..upto {
        let (l, r, dbits, _) = obs.cluster[k];
        let (a, b, v, _) = rf.merges[k];
        let same_pair = (l.min(r), l.max(r)) == (a, b);
        if !same_pair {
            return fail(
                site,
                "a merge does not join the pair that is closest at that moment under the method's update rule",
                format!("n={n}: merge {k} joins ({l},{r}) at {}, the closest pair is ({a},{b}) at {v}", f32::from_bits(dbits)),
            );
        }
        let distance_ok = if method == Method::Average { (f32::from_bits(dbits) as f64 - v as f64).abs() <= rf.errs[k] || dbits == v.to_bits() } else { dbits == v.to_bits() };
        if !distance_ok {
            return fail(
                site,
                "the reported distance of a merge is not the distance of the joined pair under the method's update rule",
                format!("n={n}: merge {k} joins ({l},{r}) reporting {:e}, the distance of that pair is {v:e}{}", f32::from_bits(dbits), if method == Method::Average { format!(" (admissible deviation of a mean of means: {:e})", rf.errs[k]) } else { String::new() }),
            );
        }
    }
    None
}

fn rust_snippet_subsets(ont_rust: &str, inp: &Inputs, method: Method, t: &SubsetTable, adaptor: Adaptor) -> String {
    let mut s = String::new();
    s.push_str("use hpo::{HpoSet, stats::Linkage, term::HpoGroup, utils::Combinations};\n");
    s.push_str(ont_rust);
    let sets: Vec<String> = inp.sets.iter().map(|&x| format!("vec!{:?}", bits_of(x))).collect();
    s.push_str(&format!("let inputs: Vec<Vec<u32>> = vec![{}]; // the terms of the input sets (they may overlap)\n", sets.join(", ")));
    s.push_str(&format!("let universe = {:?}u32;\n", t.universe).replace("]u32", "u32]"));
    let rows: Vec<String> = (0..8).map(|i| format!("{:?}", t.ints[i])).collect();
    s.push_str(&format!("// distance of two sets = ints[code(a)][code(b)] / 2^18, code = sum of 2^k over the universe terms k in the set\nlet ints: [[u64; 8]; 8] = [{}];\n", rows.join(", ")));
    s.push_str("let ids = |x: &HpoSet<'_>| -> Vec<u32> { x.iter().map(|t| hpo::annotations::AnnotationId::as_u32(&t.id())).collect() };\n");
    s.push_str("let code = |x: &HpoSet<'_>| -> usize { let v = ids(x); (0..3).filter(|k| v.contains(&universe[*k])).map(|k| 1usize << k).sum() };\n");
    s.push_str("let dist = |c: Combinations<HpoSet<'_>>| -> Vec<f32> { c.map(|(a, b)| {\n");
    s.push_str("    println!(\"callback: {:?} (len {}) vs {:?} (len {})\", ids(a), a.len(), ids(b), b.len());\n");
    s.push_str("    (ints[code(a)][code(b)] as f64 / 262144.0) as f32\n}).collect() };\n");
    s.push_str("let sets: Vec<HpoSet<'_>> = inputs.iter().map(|ts| { let mut g = HpoGroup::new(); for t in ts { g.insert(*t); } HpoSet::new(&ont, g) }).collect();\n");
    s.push_str(&format!("let l = Linkage::{}({}, dist);\n", method.name(), adaptor.rust()));
    s.push_str("for c in l.cluster() { println!(\"{} {} {} {}\", c.lhs(), c.rhs(), c.distance(), c.len()); }\nprintln!(\"{:?}\", l.indicies());\n");
    s
}

fn rust_snippet(ont_rust: &str, inp: &Inputs, method: Method, table: &Table, adaptor: Adaptor) -> String {
    if let Some(t) = &table.subsets {
        return rust_snippet_subsets(ont_rust, inp, method, t, adaptor);
    }
    let n = inp.n();
    let mut s = String::new();
    s.push_str("use hpo::{HpoSet, stats::Linkage, term::HpoGroup, utils::Combinations};\n");
    s.push_str(ont_rust);
    let sets: Vec<String> = inp.sets.iter().map(|&x| format!("vec!{:?}", bits_of(x))).collect();
    s.push_str(&format!("let inputs: Vec<Vec<u32>> = vec![{}]; // the terms of the {n} input sets\n", sets.join(", ")));
    s.push_str("// distance table over atoms: atom t = term t; an empty set is atom 0 (in the first call, which is keyed\n// by input index, a second empty input is atom 12); two sets are at the mean of the values of their atom pairs\n");
    let firsts: Vec<String> = inp.first_atoms.iter().map(|&x| format!("vec!{:?}", bits_of(x))).collect();
    s.push_str(&format!("let first_atoms: Vec<Vec<usize>> = vec![{}];\n", firsts.join(", ")));
    let rows: Vec<String> = (0..MAX_ATOMS).map(|i| format!("{:?}", table.ival[i])).collect();
    s.push_str(&format!("let ival: [[u64; {MAX_ATOMS}]; {MAX_ATOMS}] = [{}];\n", rows.join(", ")));
    let rows: Vec<String> = (0..MAX_ATOMS).map(|i| format!("{:?}", table.inf[i])).collect();
    s.push_str(&format!("let inf: [[bool; {MAX_ATOMS}]; {MAX_ATOMS}] = [{}]; // atom pairs at distance {}\n", rows.join(", "), table.inf_value));
    s.push_str(&format!("let scale = {}f64;\nlet offset = {}f64; // subtracted from every (mean) value before scaling\n", table.scale, table.offset));
    s.push_str("let value = |a: &Vec<usize>, b: &Vec<usize>| -> f32 {\n");
    s.push_str("    if a == b { return 0.0; } // the library also asks for a merged set against itself\n");
    if let Some(v) = table.fixed {
        s.push_str(&format!("    if true {{ return f32::from_bits({:#x}); }} // = {v:e}\n", v.to_bits()));
    }
    s.push_str(&format!("    if a.iter().any(|i| b.iter().any(|j| inf[*i][*j])) {{ return {}; }}\n", if table.inf_value > 0.0 { "f32::INFINITY" } else { "f32::NEG_INFINITY" }));
    s.push_str("    let mut sum = 0u64; for i in a { for j in b { sum += ival[*i][*j]; } }\n");
    s.push_str("    ((sum as f64 / (a.len() * b.len()) as f64 - offset) / scale) as f32\n};\n");
    s.push_str("let atoms = |x: &HpoSet<'_>| -> Vec<usize> { let v: Vec<usize> = x.iter().map(|t| hpo::annotations::AnnotationId::as_u32(&t.id()) as usize).collect(); if v.is_empty() { vec![0] } else { v } };\n");
    s.push_str("let calls = std::cell::Cell::new(0usize);\n");
    s.push_str("let dist = |c: Combinations<HpoSet<'_>>| -> Vec<f32> {\n");
    s.push_str("    let call = calls.get(); calls.set(call + 1);\n");
    s.push_str("    let pairs: Vec<(Vec<usize>, Vec<usize>)> = c.map(|(a, b)| (atoms(a), atoms(b))).collect();\n");
    s.push_str(&format!("    let idx: Vec<(usize, usize)> = (0..{n}usize).flat_map(|i| (i + 1..{n}usize).map(move |j| (i, j))).collect();\n"));
    s.push_str("    if call == 0 && pairs.len() == idx.len() { return idx.iter().map(|&(i, j)| value(&first_atoms[i], &first_atoms[j])).collect(); }\n");
    s.push_str("    pairs.iter().map(|(a, b)| value(a, b)).collect()\n};\n");
    s.push_str("let sets: Vec<HpoSet<'_>> = inputs.iter().map(|ts| { let mut g = HpoGroup::new(); for t in ts { g.insert(*t); } HpoSet::new(&ont, g) }).collect();\n");
    s.push_str(&format!("let l = Linkage::{}({}, dist);\n", method.name(), adaptor.rust()));
    s.push_str("for c in l.cluster() { println!(\"{} {} {} {}\", c.lhs(), c.rhs(), c.distance(), c.len()); }\nprintln!(\"{:?}\", l.indicies());\n");
    s
}

// ------------------------------------------------------------------------------------------
// Exploration
// ------------------------------------------------------------------------------------------

struct Env {
    ont: Ontology,
    facts: Facts,
    rec: RefCell<Rec>,
    /// how the next clustering hands in its inputs
    adaptor: Cell<Adaptor>,
    /// set in the dedicated adaptor spaces: no rotation
    fixed_adaptor: Cell<Option<Adaptor>>,
    /// the same terms and links decoded from bytes (format v3), some terms flagged obsolete / replaced
    flagged: Option<Flagged>,
    /// cluster over the flagged ontology
    use_flagged: Cell<bool>,
}

struct Flagged {
    ont: Ontology,
    facts: Facts,
    /// stand-alone Rust building this ontology (from the encoded bytes)
    rust: String,
}

/// (term, obsolete, replacement) of the flagged ontology; all other terms are plain.
const FLAGS: [(u32, bool, Option<u32>); 4] = [(4, true, None), (6, true, Some(3)), (5, false, Some(2)), (7, true, Some(5))];

impl Env {
    /// Rotation through the adaptors: chosen by the case number and a counter inside the case, so it is the
    /// same in every process and in a replay.
    fn rotate(&self, ctx: &Ctx, within_case: u64) {
        let case = ctx.spaces.last().map(|s| s.1.cases).unwrap_or(0);
        self.adaptor.set(self.fixed_adaptor.get().unwrap_or(ADAPTORS[((case + within_case) % ADAPTORS.len() as u64) as usize]));
    }
}

#[derive(Default)]
struct Tally {
    runs: u64,
    exact: u64,
    ties: [u64; 4],
    /// `average` runs compared only up to the first mean whose sum overflows
    overflow: u64,
    /// runs in which cluster().size_hint() was correct but not exact
    inexact_hint: u64,
    /// runs whose comparison with the reference was given up because the initial pairs came in another order
    /// while two empty inputs are told apart by position only (structure checked, not counted as validated)
    order_dont_care: u64,
}

/// One clustering of the inputs under `method` with the given rank order; compares with the reference.
fn one(ctx: &mut Ctx, env: &Env, inp: &Inputs, rank_of_pair: &[usize], table: &Table, method: Method, tally: &mut Tally) {
    let n = inp.n();
    tally.runs += 1;
    env.rec.borrow_mut().clear();
    let rf = reference(inp, method, table);
    let adaptor = env.adaptor.get();
    let flagged = if env.use_flagged.get() { env.flagged.as_ref() } else { None };
    let ont = flagged.map_or(&env.ont, |f| &f.ont);
    let got = run_lib(ont, inp, method, table, &env.rec, adaptor);
    let rec = env.rec.borrow();
    // the context keeps the detail of the first occurrence of a (site, signature) only: build it only then
    let detail = |extra: Value| {
        let exp: Vec<Value> = rf.merges.iter().map(|&(a, b, v, s)| json!({"pair": [a, b], "distance": fj(v), "len": s})).collect();
        json!({
            "n": n, "method": method.name(), "input_sets (terms)": inp.to_json(), "inputs_handed_in_as": adaptor.name(),
            "rank_of_pair (pairs of the involved atoms in order (0,1),(0,2),..)": rank_of_pair, "atoms (term id; 0/12 = an empty set)": inp.atoms,
            "base_distances": table.base_json(inp),
            "reference_merges": exp, "reference_first_tie_at_step": rf.tie_at,
            "observed": extra,
            "ontology": if flagged.is_some() { "decoded from bytes (v3), terms flagged (term, obsolete, replaced by): (4, true, -), (6, true, 3), (5, false, 2), (7, true, 5)" } else { "Builder, no flags" },
            "rust": rust_snippet(&flagged.map_or_else(|| env.facts.to_rust(false), |f| f.rust.clone()), inp, method, table, adaptor),
        })
    };
    match got {
        Err(p) => {
            let new = !ctx.violations.contains_key(&format!("{}|panics", method.site()));
            ctx.violation(method.site(), "panics", if new { detail(json!({"panic": p})) } else { Value::Null });
        }
        Ok(obs) => {
            if obs.inexact_size_hint {
                tally.inexact_hint += 1;
            }
            if rec.calls > 1 {
                // informational: later invocations (union asks new-set vs. every live set, itself included)
                if method == Method::Union {
                    ctx.bump("union_later_callback_invocations", (rec.calls - 1) as u64);
                    ctx.bump("union_callback_pairs_of_a_set_with_itself", rec.selfpairs as u64);
                } else {
                    ctx.bump("non_union_later_callback_invocations", (rec.calls - 1) as u64);
                }
            }
            match check(inp, method, &obs, &rf, &rec) {
                Some(f) => {
                    let new = !ctx.violations.contains_key(&format!("{}|{}", f.site, f.sig));
                    let d = if new {
                        detail(json!({"difference": f.det, "cluster()": fmt_merges(&obs.cluster), "into_cluster()": fmt_merges(&obs.into_cluster), "indicies()": obs.indicies, "callback_invocations": rec.calls,
                            "later_callback_pairs (invocation, lhs terms, rhs terms)": rec.later.iter().map(|&(c, a, b)| json!([c, bits_of(a), bits_of(b)])).collect::<Vec<_>>()}))
                    } else {
                        Value::Null
                    };
                    ctx.violation(&f.site, f.sig, d);
                }
                None => {
                    if ORDER_DONT_CARE.with(|c| c.replace(false)) {
                        tally.order_dont_care += 1;
                    } else if rf.tie_at.is_some() {
                        tally.ties[method as usize] += 1;
                    } else if rf.overflow_from.is_some() {
                        tally.overflow += 1;
                    } else {
                        tally.exact += 1;
                    }
                }
            }
            // fingerprint: method + tree topology (sequence of unordered pairs); not for runs with a
            // tie, whose result legitimately depends on the library's hash iteration order
            if rf.tie_at.is_some() || rf.overflow_from.is_some() {
                return;
            }
            let mut bytes = [0u8; 1 + 2 * MAX_N];
            bytes[0] = method as u8;
            for (k, m) in obs.cluster.iter().enumerate().take(MAX_N - 1) {
                bytes[1 + 2 * k] = m.0.min(m.1) as u8;
                bytes[2 + 2 * k] = m.0.max(m.1) as u8;
            }
            bytes[1 + 2 * (MAX_N - 1)] = n as u8;
            // n = 8 (every one of 1.6 M merge histories is a distinct outcome): fold to keep the outcome set small
            ctx.outcome(if n >= 8 { fnv(&bytes) % 65536 } else { fnv(&bytes) });
        }
    }
}

/// All four (or the given) methods on one rank order; returns nothing, updates the tally.
fn one_order(ctx: &mut Ctx, env: &Env, inp: &Inputs, rank_of_pair: &[usize], fam: Family, methods: &[Method], tally: &mut Tally) {
    let table = Table::new(inp, rank_of_pair, fam);
    for &m in methods {
        one(ctx, env, inp, rank_of_pair, &table, m, tally);
    }
}

/// `tag` names the tie counters; `special` = the inputs / values are non-trivial by themselves.
fn flush(ctx: &mut Ctx, n: usize, tag: &str, special: bool, orders: u64, tally: &Tally) {
    ctx.states(orders);
    ctx.execs(tally.runs);
    ctx.validateds(tally.exact);
    // constructor + cluster() + into_cluster() + indicies() + n-1 model merge steps
    ctx.transitions(tally.runs * (4 + n as u64 - 1));
    if n >= 3 || special {
        ctx.nontrivials(tally.exact);
    }
    if tally.inexact_hint > 0 {
        ctx.bump("cluster_iter_size_hint_not_exact (ExactSizeIterator contract, not part of the property)", tally.inexact_hint);
    }
    if tally.overflow > 0 {
        ctx.bump(&format!("average_sum_overflow_dont_care/{tag}/n{n}"), tally.overflow);
    }
    if tally.order_dont_care > 0 {
        ctx.bump(&format!("no verdict: initial pairs in another order with two empty inputs (first call keyed by position)/{tag}/n{n}"), tally.order_dont_care);
    }
    for &m in &METHODS {
        let t = tally.ties[m as usize];
        if t > 0 {
            ctx.bump("ties", t);
            ctx.bump(&format!("ties/{tag}/n{n}/{}", m.name()), t);
        }
    }
}

fn next_permutation(p: &mut [usize]) -> bool {
    let n = p.len();
    if n < 2 {
        return false;
    }
    let mut i = n - 1;
    while i > 0 && p[i - 1] >= p[i] {
        i -= 1;
    }
    if i == 0 {
        return false;
    }
    let mut j = n - 1;
    while p[j] <= p[i - 1] {
        j -= 1;
    }
    p.swap(i - 1, j);
    p[i..].reverse();
    true
}

/// All arrangements of `k` distinct values out of 0..m, lexicographic.
fn arrangements(m: usize, k: usize) -> Vec<Vec<usize>> {
    fn rec(m: usize, k: usize, cur: &mut Vec<usize>, out: &mut Vec<Vec<usize>>) {
        if cur.len() == k {
            out.push(cur.clone());
            return;
        }
        for v in 0..m {
            if !cur.contains(&v) {
                cur.push(v);
                rec(m, k, cur, out);
                cur.pop();
            }
        }
    }
    let mut out = vec![];
    rec(m, k, &mut vec![], &mut out);
    out
}

/// Every rank order of the m base distances of the inputs: one case = all orders sharing a prefix (tail of <= 6 pairs).
fn exhaustive(ctx: &mut Ctx, env: &Env, inp: &Inputs, fam: Family, tag: &str, special: bool, methods: &[Method]) {
    let n = inp.n();
    let m = inp.m();
    let tail = m.min(if m <= 3 { 0 } else if m <= 6 { 4 } else { 6 });
    let prefixes = arrangements(m, m - tail);
    for pre in &prefixes {
        if !ctx.take() {
            continue;
        }
        let mut rest: Vec<usize> = (0..m).filter(|r| !pre.contains(r)).collect();
        let mut order = pre.clone();
        order.extend_from_slice(&rest);
        let mut tally = Tally::default();
        let mut orders = 0u64;
        loop {
            order[m - tail..].copy_from_slice(&rest);
            env.rotate(ctx, orders);
            one_order(ctx, env, inp, &order, fam, methods, &mut tally);
            orders += 1;
            if !next_permutation(&mut rest) {
                break;
            }
        }
        flush(ctx, n, tag, special || fam == Family::InfTop || fam == Family::InfBottom, orders, &tally);
        ctx.sample(|| {
            let t = Table::new(inp, &order, fam);
            let r = reference(inp, methods[0], &t);
            json!({"n": n, "input_sets (terms)": inp.to_json(), "methods": methods.iter().map(|m| m.name()).collect::<Vec<_>>(), "rank_prefix": pre, "rank_orders_in_case": orders,
                "last_rank_order": order, "its_base_distances": t.base_json(inp),
                "its_reference_merges": r.merges.iter().map(|&(a, b, v, s)| json!([a, b, fj(v), s])).collect::<Vec<_>>()})
        });
    }
}

/// All permutations of 0..m with at most d inversions (= within d adjacent transpositions of the
/// identity), fewest inversions first; enumerated as inversion tables (`code[e]` <= e), no search.
fn for_each_inversion_table<F: FnMut(&[usize])>(m: usize, d: usize, mut f: F) {
    fn rec<F: FnMut(&[usize])>(i: usize, m: usize, left: usize, code: &mut Vec<usize>, f: &mut F) {
        if i == m {
            if left == 0 {
                f(code);
            }
            return;
        }
        // the remaining elements can absorb at most sum_{j>=i} j inversions
        let cap: usize = (i..m).sum();
        if left > cap {
            return;
        }
        for c in 0..=i.min(left) {
            code.push(c);
            rec(i + 1, m, left - c, code, f);
            code.pop();
        }
    }
    for total in 0..=d {
        rec(0, m, total, &mut Vec::with_capacity(m), &mut f);
    }
}

/// The permutation of an inversion table: element e is inserted so that it precedes exactly
/// code[e] smaller elements (so the permutation has sum(code) inversions).
fn perm_of_inversion_table(code: &[usize]) -> Vec<usize> {
    let mut p: Vec<usize> = Vec::with_capacity(code.len());
    for (e, &c) in code.iter().enumerate() {
        let pos = p.len() - c;
        p.insert(pos, e);
    }
    p
}

/// Number of permutations of m elements with at most d inversions (Mahonian numbers, by DP).
fn count_near(m: usize, d: usize) -> u64 {
    let mut ways = vec![0u64; d + 1];
    ways[0] = 1;
    for e in 0..m {
        let mut next = vec![0u64; d + 1];
        for k in 0..=d {
            for c in 0..=e.min(k) {
                next[k] += ways[k - c];
            }
        }
        ways = next;
    }
    ways.iter().sum()
}

fn base_orders(m: usize) -> Vec<(&'static str, Vec<usize>)> {
    let asc: Vec<usize> = (0..m).collect();
    let desc: Vec<usize> = (0..m).rev().collect();
    let mut inter = Vec::with_capacity(m);
    let (mut lo, mut hi) = (0usize, m);
    while lo < hi {
        inter.push(lo);
        lo += 1;
        if lo < hi {
            hi -= 1;
            inter.push(hi);
        }
    }
    vec![("ascending", asc), ("descending", desc), ("interleaved", inter)]
}

/// Rank orders within d adjacent transpositions (of the sorted list of pairs) of three base orders.
/// `sorted[r]` = pair index with rank r = base[q[r]] for q near the identity.
fn near_orders(ctx: &mut Ctx, env: &Env, n: usize, d: usize, methods: &[Method]) -> u64 {
    let inp = Inputs::flat(n);
    let m = inp.m();
    let bases = base_orders(m);
    let mut cases = 0u64;
    for_each_inversion_table(m, d, |code| {
        cases += 1;
        if !ctx.take() {
            return;
        }
        let q = perm_of_inversion_table(code);
        let mut tally = Tally::default();
        let mut last = vec![];
        for (bi, (_, base)) in bases.iter().enumerate() {
            env.rotate(ctx, bi as u64);
            let mut rank_of_pair = vec![0usize; m];
            for r in 0..m {
                rank_of_pair[base[q[r]]] = r;
            }
            one_order(ctx, env, &inp, &rank_of_pair, Family::Spread, methods, &mut tally);
            last = rank_of_pair;
        }
        flush(ctx, n, "spread-values", false, bases.len() as u64, &tally);
        ctx.sample(|| json!({"n": n, "input_sets (terms)": inp.to_json(), "transpositions_applied (as permutation of sorted positions)": q, "base_orders": bases.iter().map(|b| b.0).collect::<Vec<_>>(), "rank_of_pair_for_last_base": last}));
    });
    cases
}

/// Every merge history of n inputs: at step s any unordered pair of the live clusters is joined and
/// becomes cluster n+s. A history is the list of joined pairs (a < b). `f` gets every history of
/// n-1 merges that starts with `prefix`, in lexicographic order of the choices.
fn for_each_history<F: FnMut(&[(usize, usize)])>(n: usize, upto: usize, prefix: &[(usize, usize)], f: &mut F) {
    fn rec<F: FnMut(&[(usize, usize)])>(n: usize, upto: usize, live: &mut Vec<usize>, hist: &mut Vec<(usize, usize)>, f: &mut F) {
        let s = hist.len();
        if s == upto {
            f(hist);
            return;
        }
        let k = live.len();
        for x in 0..k {
            for y in x + 1..k {
                let (a, b) = (live[x], live[y]);
                let saved = live.clone();
                live.remove(y);
                live.remove(x);
                live.push(n + s);
                hist.push((a, b));
                rec(n, upto, live, hist, f);
                hist.pop();
                *live = saved;
            }
        }
    }
    let mut live: Vec<usize> = (0..n + prefix.len()).filter(|x| !prefix.iter().any(|p| p.0 == *x || p.1 == *x)).collect();
    let mut hist = prefix.to_vec();
    rec(n, upto, &mut live, &mut hist, f);
}

fn count_histories(n: usize) -> u64 {
    (2..=n as u64).map(|k| k * (k - 1) / 2).product()
}

/// The perturbed ultrametric table that forces a merge history under all four methods: the pair of
/// inputs whose clusters are joined at step s is at height (s+1)*256 plus a distinct perturbation in
/// 1..=28 (pair index p -> (11 p mod 29) + 1), scaled by 2^-11. Minima, maxima and means of values of
/// one height stay inside that height's band [(s+1)*256, (s+1)*256 + 28], far below the next height.
fn history_ints(n: usize, hist: &[(usize, usize)]) -> [[u64; MAX_N]; MAX_N] {
    let mut members = [0u32; MAX_NODES];
    for i in 0..n {
        members[i] = 1 << i;
    }
    let mut ints = [[0u64; MAX_N]; MAX_N];
    for (s, &(a, b)) in hist.iter().enumerate() {
        members[n + s] = members[a] | members[b];
        for i in 0..n {
            for j in 0..n {
                if members[a] >> i & 1 == 1 && members[b] >> j & 1 == 1 {
                    let (lo, hi) = (i.min(j), i.max(j));
                    // index of the pair (lo,hi) in pair_list order
                    let p = lo * n - lo * (lo + 1) / 2 + (hi - lo - 1);
                    let v = ((s as u64 + 1) << 8) | ((11 * p as u64) % 29 + 1);
                    ints[i][j] = v;
                    ints[j][i] = v;
                }
            }
        }
    }
    ints
}

/// All merge histories of n singleton inputs x 4 methods; the reference computes the expected merges
/// as usual (the harness additionally asserts that it reproduces the chosen history).
/// `negative_steps` = k > 0: an offset of k*256 + 128 (in the table's integer units) is subtracted, so the
/// distances of the first k merge steps are negative (k = n-1: all of them).
/// `scale_exp` != 0: every distance is additionally multiplied by 2^scale_exp.
fn histories(ctx: &mut Ctx, env: &Env, n: usize, negative_steps: usize, scale_exp: i32) {
    let inp = Inputs::flat(n);
    let pairs = pair_list(n);
    let total = count_histories(n);
    let offset = if negative_steps == 0 { 0.0 } else { (negative_steps * 256 + 128) as f64 };
    let mut label = if negative_steps == 0 { String::new() } else { format!("-negative-first-{negative_steps}-steps") };
    if scale_exp != 0 {
        label.push_str(&format!("-scaled-2^{scale_exp}"));
    }
    let scale = 2048.0 * 2f64.powi(-scale_exp);
    ctx.space(
        &format!("n{n}/all-merge-histories{label}/all-methods"),
        &format!(
            "n = {n}: all {total} merge histories (at every step any pair of the live clusters), each forced by a tie-free perturbed ultrametric distance table{}, x 4 methods; one case = the 18 histories sharing the first {} merges",
            format!("{}{}", if negative_steps == 0 { String::new() } else { format!(" shifted so that the distances of the first {negative_steps} of the {} merge steps are negative", n - 1) }, if scale_exp == 0 { String::new() } else { format!(" with every distance multiplied by 2^{scale_exp}") }),
            n - 4
        ),
    );
    // one case = all histories sharing the first n-4 merges (6 * 3 * 1 = 18 completions)
    let mut heads: Vec<Vec<(usize, usize)>> = vec![];
    for_each_history(n, n - 4, &[], &mut |h| heads.push(h.to_vec()));
    let mut enumerated = 0u64;
    for head in &heads {
        enumerated += 18;
        if !ctx.take() {
            continue;
        }
        let mut tally = Tally::default();
        let mut count = 0u64;
        let mut last: Vec<(usize, usize)> = vec![];
        for_each_history(n, n - 1, head, &mut |hist| {
            let ints = history_ints(n, hist);
            let mut table = Table::from_ints(&inp, &ints, scale);
            table.offset = offset;
            // the rank order this table realises (for the records)
            let vals: Vec<u64> = pairs.iter().map(|&(a, b)| ints[a][b]).collect();
            let mut sorted = vals.clone();
            sorted.sort_unstable();
            let rank_of_pair: Vec<usize> = vals.iter().map(|v| sorted.iter().position(|x| x == v).expect("C17 harness: value")).collect();
            env.rotate(ctx, count);
            for &method in &METHODS {
                let rf = reference(&inp, method, &table);
                let same = rf.tie_at.is_none() && rf.merges.iter().map(|m| (m.0, m.1)).collect::<Vec<_>>() == hist;
                assert!(same, "C17 harness: the table built for history {hist:?} does not force it under {} (reference: {:?}, tie {:?})", method.name(), rf.merges, rf.tie_at);
                one(ctx, env, &inp, &rank_of_pair, &table, method, &mut tally);
            }
            count += 1;
            last = hist.to_vec();
        });
        assert_eq!(count, 18, "C17 harness: completions of a history head");
        flush(ctx, n, &format!("merge-histories{label}"), true, count, &tally);
        let mut last_table = Table::from_ints(&inp, &history_ints(n, &last), scale);
        last_table.offset = offset;
        ctx.sample(|| json!({"n": n, "histories_in_case": count, "last_history (joined cluster indices per step; step s forms cluster n+s)": last,
            "its_base_distances": last_table.base_json(&inp)}));
    }
    assert_eq!(enumerated, total, "C17 harness: number of merge histories");
}

/// Input families whose sets contain related terms (2 > 5 > 7 is a chain of ancestors; 1 is the root).
fn related_families(n: usize, atoms: usize) -> Vec<Inputs> {
    let s = |t: &[u32]| set_of(t);
    let all: Vec<Vec<u32>> = vec![
        // n = 2
        vec![s(&[2]), s(&[5])],
        vec![s(&[5]), s(&[2])],
        vec![s(&[1]), s(&[7])],
        vec![s(&[2, 3]), s(&[5])],
        vec![s(&[7]), s(&[2, 5])],
        // n = 3
        vec![s(&[2]), s(&[5]), s(&[3])],
        vec![s(&[2]), s(&[5]), s(&[7])],
        vec![s(&[7]), s(&[3]), s(&[2])],
        vec![s(&[5]), s(&[1]), s(&[3])],
        vec![s(&[2, 3]), s(&[5]), s(&[4])],
        vec![s(&[2, 5]), s(&[7]), s(&[3])],
        // n = 4
        vec![s(&[2]), s(&[5]), s(&[3]), s(&[4])],
        vec![s(&[2]), s(&[5]), s(&[7]), s(&[3])],
        vec![s(&[7]), s(&[3]), s(&[5]), s(&[2])],
        vec![s(&[1]), s(&[2]), s(&[5]), s(&[7])],
        vec![s(&[2, 3]), s(&[5]), s(&[4]), s(&[6])],
        vec![s(&[3]), s(&[2, 5]), s(&[4]), s(&[7])],
    ];
    all.iter().map(|v| Inputs::new(v)).filter(|i| i.n() == n && i.atoms.len() == atoms).collect()
}

/// Input families with `empties` empty sets among n inputs, every choice of positions; the others are
/// singletons of `terms` in order.
fn empty_families(n: usize, empties: usize, terms: &[u32]) -> Vec<Inputs> {
    let mut out = vec![];
    for mask in 0u32..(1 << n) {
        if mask.count_ones() as usize != empties {
            continue;
        }
        let mut it = terms.iter();
        let sets: Vec<u32> = (0..n).map(|i| if mask >> i & 1 == 1 { 0 } else { 1u32 << *it.next().expect("C17 harness: enough terms") }).collect();
        out.push(Inputs::new(&sets));
    }
    out
}

fn describe_all(f: &[Inputs]) -> String {
    f.iter().map(|i| format!("[{}]", i.describe())).collect::<Vec<_>>().join(", ")
}

// ------------------------------------------------------------------------------------------
// Many inputs / large input sets: separate, vector based machinery (the small-n code uses fixed arrays)
// ------------------------------------------------------------------------------------------

/// the big ontology is root 1 + BIG_TERMS children BIG_BASE..; a set is a sorted list of term indices (id - BIG_BASE)
const BIG_BASE: u32 = 1000;
const BIG_TERMS: usize = 410;
/// terms of the big ontology itself (the formula layouts above are defined over the first BIG_TERMS of them)
const BIG_ONT_TERMS: usize = 1040;
/// the `Wide` layout: pair index over WIDE_TERMS terms, distances in 1..=WIDE_M (2^20 - 3, a prime above the
/// 540 280 pairs of 1040 terms; still exact in f32)
const WIDE_TERMS: usize = 1040;
const WIDE_M: u64 = 1_048_573;
/// a prime above the number of pairs of 410 terms (83 845); formula distances are in 1..=BIG_M, exact in f32
const BIG_M: u64 = 131071;
const BIG_SCALE: f64 = 262144.0;

/// Base distance (an integer, value = integer / 2^18) of two different terms x < y:
/// Formula: pair index p = x*N - x(x+1)/2 + (y-x-1) over N = BIG_TERMS terms -> ((p * a + b) mod BIG_M) + 1, a
///   bijection on 0..BIG_M, so all term pairs are at distinct distances;
/// Matrix: an explicit table over the first k terms (used to force a merge history).
/// Two different sets are at the mean over all pairs (a in A, b in B), a term being at 0 from itself (overlapping sets).
#[derive(Clone, Debug)]
enum BigLayout {
    Formula { name: &'static str, a: u64, b: u64 },
    /// as Formula, for more than BIG_TERMS inputs: p over WIDE_TERMS terms -> ((p * a + b) mod WIDE_M) + 1
    Wide { name: &'static str, a: u64, b: u64 },
    Matrix { name: String, k: usize, ints: Vec<u64> },
}

fn big_layout(i: usize) -> BigLayout {
    match i {
        0 => BigLayout::Formula { name: "scattered", a: 40503, b: 12345 },
        1 => BigLayout::Formula { name: "ascending in pair order", a: 1, b: 0 },
        2 => BigLayout::Formula { name: "descending in pair order", a: BIG_M - 1, b: BIG_M - 1 },
        _ => BigLayout::Formula { name: "scattered-2", a: 25717, b: 7 },
    }
}

impl BigLayout {
    fn name(&self) -> String {
        match self {
            BigLayout::Formula { name, .. } | BigLayout::Wide { name, .. } => name.to_string(),
            BigLayout::Matrix { name, .. } => name.clone(),
        }
    }
    fn int(&self, x: usize, y: usize) -> u64 {
        if x == y {
            return 0;
        }
        match self {
            BigLayout::Formula { a, b, .. } => {
                let (lo, hi) = (x.min(y) as u64, x.max(y) as u64);
                let p = lo * BIG_TERMS as u64 - lo * (lo + 1) / 2 + (hi - lo - 1);
                (p * a + b) % BIG_M + 1
            }
            BigLayout::Wide { a, b, .. } => {
                let (lo, hi) = (x.min(y) as u64, x.max(y) as u64);
                let p = lo * WIDE_TERMS as u64 - lo * (lo + 1) / 2 + (hi - lo - 1);
                (p * a + b) % WIDE_M + 1
            }
            BigLayout::Matrix { k, ints, .. } => ints[x * k + y],
        }
    }
    /// distance of two non-empty, different sets
    fn value(&self, a: &[u16], b: &[u16]) -> f32 {
        let mut sum = 0u64;
        for &i in a {
            for &j in b {
                sum += self.int(i as usize, j as usize);
            }
        }
        (sum as f64 / (a.len() * b.len()) as f64 / BIG_SCALE) as f32
    }
}

#[derive(Default)]
struct BigRec {
    calls: u32,
    /// (invocation, lhs terms, rhs terms), in the order received
    pairs: Vec<(u32, Vec<u16>, Vec<u16>)>,
    /// sets with a foreign term / a term twice / len() != number of terms: first example
    malformed: u32,
    malformed_example: Option<(Vec<u32>, usize)>,
}

fn big_members(set: &HpoSet<'_>, rec: &mut BigRec) -> Vec<u16> {
    let mut out = Vec::with_capacity(set.len());
    let mut ok = true;
    for t in set.iter() {
        let id = t.id().as_u32();
        if id < BIG_BASE || id >= BIG_BASE + BIG_ONT_TERMS as u32 {
            ok = false;
        } else {
            out.push((id - BIG_BASE) as u16);
        }
    }
    // (the order of the iteration is not demanded: members are compared sorted; a term twice is malformed)
    out.sort_unstable();
    if out.windows(2).any(|w| w[0] == w[1]) {
        ok = false;
        out.dedup();
    }
    if !ok || set.len() != out.len() {
        rec.malformed += 1;
        if rec.malformed_example.is_none() {
            rec.malformed_example = Some((set.iter().map(|t| t.id().as_u32()).collect(), set.len()));
        }
    }
    out
}

fn big_run_lib(ont: &Ontology, inputs: &[Vec<u16>], method: Method, l: &BigLayout, rec: &RefCell<BigRec>, adaptor: Adaptor) -> Result<Obs, String> {
    let cb = |combs: Combinations<HpoSet<'_>>| -> Vec<f32> {
        let mut rec = rec.borrow_mut();
        let call = rec.calls;
        rec.calls += 1;
        let mut out = Vec::new();
        for (a, b) in combs {
            let ma = big_members(a, &mut rec);
            let mb = big_members(b, &mut rec);
            let v = if ma.is_empty() || mb.is_empty() || ma == mb { 0.0 } else { l.value(&ma, &mb) };
            out.push(v);
            rec.pairs.push((call, ma, mb));
        }
        out
    };
    guard(|| {
        let sets: Vec<HpoSet<'_>> = inputs
            .iter()
            .map(|ts| {
                let mut g = HpoGroup::new();
                for &t in ts {
                    g.insert(BIG_BASE + t as u32);
                }
                HpoSet::new(ont, g)
            })
            .collect();
        let l = match adaptor {
            Adaptor::Vec => link(method, sets, &cb),
            Adaptor::Filter => link(method, sets.into_iter().filter(|_| true), &cb),
            Adaptor::Flatten => {
                let mut a = sets;
                let b = a.split_off(a.len() / 2);
                link(method, vec![a, b].into_iter().flatten(), &cb)
            }
            Adaptor::FromFn => {
                let mut it = sets.into_iter();
                link(method, std::iter::from_fn(move || it.next()), &cb)
            }
            Adaptor::ChainFilterVec => {
                let mut a = sets;
                let b = a.split_off((a.len() + 1) / 2);
                link(method, a.into_iter().filter(|_| true).chain(b), &cb)
            }
        };
        observe(l, method as usize + adaptor as usize)
    })
}

fn sorted_union(a: &[u16], b: &[u16]) -> Vec<u16> {
    let mut m = a.to_vec();
    m.extend_from_slice(b);
    m.sort_unstable();
    m.dedup();
    m
}

/// The same naive agglomerative clustering as `reference`, on vectors; inputs of distinct content.
fn big_reference(inputs: &[Vec<u16>], method: Method, l: &BigLayout) -> RefRun {
    let n = inputs.len();
    let nodes_max = 2 * n - 1;
    let mut d = vec![0f32; nodes_max * nodes_max];
    let mut err = if method == Method::Average { vec![0f64; nodes_max * nodes_max] } else { vec![] };
    let mut live = vec![false; nodes_max];
    let mut members: Vec<Vec<u16>> = vec![vec![]; nodes_max];
    let mut size = vec![0usize; nodes_max];
    for i in 0..n {
        live[i] = true;
        members[i] = inputs[i].clone();
        size[i] = 1;
    }
    for i in 0..n {
        for j in i + 1..n {
            let v = l.value(&inputs[i], &inputs[j]);
            d[i * nodes_max + j] = v;
            d[j * nodes_max + i] = v;
        }
    }
    let mut out = RefRun { merges: Vec::with_capacity(n), errs: Vec::with_capacity(n), tie_at: None, overflow_from: None };
    for k in 0..n - 1 {
        let nodes = n + k;
        let mut best: Option<(usize, usize, f32)> = None;
        let mut at_best = 0usize;
        for a in 0..nodes {
            if !live[a] {
                continue;
            }
            for b in a + 1..nodes {
                if !live[b] {
                    continue;
                }
                let v = d[a * nodes_max + b];
                match best {
                    Some((_, _, bv)) if v > bv => {}
                    Some((_, _, bv)) if v == bv => at_best += 1,
                    _ => {
                        best = Some((a, b, v));
                        at_best = 1;
                    }
                }
            }
        }
        let (a, b, v) = best.expect("C17 reference: at least two live clusters");
        if at_best > 1 && out.tie_at.is_none() {
            out.tie_at = Some(k);
        }
        if method == Method::Average && out.tie_at.is_none() {
            let reach = v as f64 + err[a * nodes_max + b];
            'near: for a2 in 0..nodes {
                if !live[a2] {
                    continue;
                }
                for b2 in a2 + 1..nodes {
                    if live[b2] && (a2, b2) != (a, b) && d[a2 * nodes_max + b2] as f64 - err[a2 * nodes_max + b2] <= reach {
                        out.tie_at = Some(k);
                        break 'near;
                    }
                }
            }
        }
        out.errs.push(if method == Method::Average { err[a * nodes_max + b] } else { 0.0 });
        let new = nodes;
        if method == Method::Union {
            members[new] = sorted_union(&members[a], &members[b]);
        }
        size[new] = size[a] + size[b];
        for c in 0..nodes {
            if !live[c] || c == a || c == b {
                continue;
            }
            let (x, y) = (d[c * nodes_max + a], d[c * nodes_max + b]);
            let nv = match method {
                Method::Single => {
                    if x < y {
                        x
                    } else {
                        y
                    }
                }
                Method::Complete => {
                    if x > y {
                        x
                    } else {
                        y
                    }
                }
                Method::Average => (x + y) / 2.0,
                Method::Union => l.value(&members[new], &members[c]),
            };
            d[c * nodes_max + new] = nv;
            d[new * nodes_max + c] = nv;
            if method == Method::Average {
                let e = (err[c * nodes_max + a] + err[c * nodes_max + b]) / 2.0 + ulp(nv);
                err[c * nodes_max + new] = e;
                err[new * nodes_max + c] = e;
            }
        }
        live[a] = false;
        live[b] = false;
        live[new] = true;
        out.merges.push((a, b, v, size[new]));
    }
    out
}

fn big_check(inputs: &[Vec<u16>], method: Method, obs: &Obs, rf: &RefRun, rec: &BigRec) -> Option<Fail> {
    let n = inputs.len();
    let site = method.site();
    if rec.calls == 0 {
        return fail(site, "the distance callback is never invoked", format!("n={n}"));
    }
    if rec.malformed > 0 {
        let (ids, len) = rec.malformed_example.clone().unwrap_or_default();
        return fail(
            site,
            "distance callback received a malformed set (a term twice in its iteration, or len() != number of distinct terms)",
            format!("n={n}: {} sets that are malformed or hold a term of no input, the first one iterates {:?} and has len() {}", rec.malformed, crate::model::short(&format!("{ids:?}")), len),
        );
    }
    // ---- initial phase (the first n(n-1)/2 pairs, in however many invocations): every unordered pair of inputs once
    let index_of: std::collections::HashMap<&[u16], usize> = inputs.iter().enumerate().map(|(i, v)| (v.as_slice(), i)).collect();
    let m = n_pairs(n);
    {
        let mut seen = vec![0u8; n * n];
        let mut bad: Option<String> = None;
        if rec.pairs.len() < m {
            bad = Some(format!("{} pairs in all instead of at least {m}", rec.pairs.len()));
        }
        for (_, a, b) in rec.pairs.iter().take(m) {
            match (index_of.get(a.as_slice()), index_of.get(b.as_slice())) {
                (Some(&i), Some(&j)) if i != j => {
                    let (i, j) = (i.min(j), i.max(j));
                    seen[i * n + j] = seen[i * n + j].saturating_add(1);
                }
                _ => {
                    bad.get_or_insert(format!("among the first {m} pairs there is ({}, {}), which is not a pair of two different inputs", crate::model::short(&format!("{a:?}")), crate::model::short(&format!("{b:?}"))));
                }
            }
        }
        if bad.is_none() {
            'outer: for i in 0..n {
                for j in i + 1..n {
                    if seen[i * n + j] != 1 {
                        bad = Some(format!("the pair of inputs ({i},{j}) occurs {} times among the first {m} pairs", seen[i * n + j]));
                        break 'outer;
                    }
                }
            }
        }
        if let Some(b) = bad {
            return fail(site, "the initial distance call does not receive each unordered pair of inputs exactly once", format!("n={n}: {b}"));
        }
    }
    // ---- cluster() / into_cluster()
    if obs.cluster.len() != n - 1 {
        return fail("Linkage::cluster", "number of merges is not n-1", format!("n={n}: {} merges", obs.cluster.len()));
    }
    if obs.into_cluster.len() != n - 1 {
        return fail("Linkage::into_cluster", "number of merges is not n-1", format!("n={n}: {} merges", obs.into_cluster.len()));
    }
    if obs.cluster != obs.into_cluster {
        return fail("Linkage::into_cluster", "cluster() and into_cluster() disagree", format!("n={n}: owned view {}", obs.owned_view));
    }
    if let Some((vsite, what)) = &obs.views {
        return fail(vsite, "a view of the result disagrees with the forward iteration of cluster()", format!("n={n}: {}", crate::model::short(what)));
    }
    // ---- binary tree over the inputs
    let nodes_max = 2 * n - 1;
    let mut used = vec![0u32; nodes_max];
    let mut size = vec![1usize; nodes_max];
    for (k, &(l, r, _, len)) in obs.cluster.iter().enumerate() {
        for x in [l, r] {
            if x >= n + k {
                return fail(site, "a merge refers to a cluster index that does not exist yet (index >= n + position)", format!("n={n}: merge {k} = ({l},{r})"));
            }
            used[x] += 1;
        }
        if l == r {
            return fail(site, "a merge joins a cluster with itself", format!("n={n}: merge {k} = ({l},{r})"));
        }
        if len != size[l] + size[r] {
            return fail("Cluster::len", "len() is not the sum of the sizes of the two parts", format!("n={n}: merge {k} = ({l},{r}) len {len}, parts {} + {}", size[l], size[r]));
        }
        size[n + k] = len;
    }
    for x in 0..(2 * n - 2) {
        if used[x] != 1 {
            return fail(site, "an input or intermediate cluster is not merged exactly once", format!("n={n}: index {x} is merged {} times", used[x]));
        }
    }
    if obs.cluster[n - 2].3 != n {
        return fail("Cluster::len", "the last merge does not contain all n inputs", format!("n={n}: last len {}", obs.cluster[n - 2].3));
    }
    {
        let mut s = obs.indicies.clone();
        s.sort_unstable();
        if s != (0..n).collect::<Vec<usize>>() {
            return fail("Linkage::indicies", "indicies() is not a permutation of 0..n", format!("n={n}: {} entries, sorted and deduplicated {} distinct", obs.indicies.len(), {
                s.dedup();
                s.len()
            }));
        }
    }
    // ---- pairs after the initial phase (union): matched BY CONTENT to the library's own merges: one side (either
    //      position) is exactly the union of the two sets joined by some merge k, the other side a cluster live
    //      right after merge k (or that union itself)
    if rec.pairs.len() > m {
        let mut members: Vec<Vec<u16>> = inputs.to_vec();
        for &(l, r, _, _) in &obs.cluster {
            let u = sorted_union(&members[l], &members[r]);
            members.push(u);
        }
        let mut dead = vec![usize::MAX; nodes_max];
        for (k, &(l, r, _, _)) in obs.cluster.iter().enumerate() {
            dead[l] = k;
            dead[r] = k;
        }
        let mut by_content: std::collections::HashMap<&[u16], Vec<usize>> = std::collections::HashMap::new();
        for (x, mem) in members.iter().enumerate() {
            by_content.entry(mem.as_slice()).or_default().push(x);
        }
        let empty: Vec<usize> = vec![];
        for (call, a, b) in rec.pairs.iter().skip(m) {
            let (xa, xb) = (by_content.get(a.as_slice()).unwrap_or(&empty), by_content.get(b.as_slice()).unwrap_or(&empty));
            // x is the cluster formed by merge x-n, y is live right after that merge (or is x itself)
            let fits = |xs: &Vec<usize>, ys: &Vec<usize>| xs.iter().any(|&x| x >= n && ys.iter().any(|&y| y <= x && dead[y] > x - n));
            // two clusters live at the same moment (asked again): cluster x is live from its birth (input: from the
            // start; cluster n+k: after merge k) until the merge that consumes it
            let born = |x: usize| if x < n { 0 } else { x - n + 1 };
            let died = |x: usize| if dead[x] == usize::MAX { usize::MAX } else { dead[x] + 1 };
            let colive = xa.iter().any(|&x| xb.iter().any(|&y| born(x).max(born(y)) < died(x).min(died(y))));
            if !(fits(xa, xb) || fits(xb, xa) || colive) {
                return fail(
                    "Linkage::union",
                    "distance callback received a set that is not the union of the merged sets",
                    format!(
                        "n={n}: invocation {call} asks for ({}, {}) (term indices); these are not two clusters (inputs or unions of merged sets) that are live at the same moment",
                        crate::model::short(&format!("{a:?}")),
                        crate::model::short(&format!("{b:?}"))
                    ),
                );
            }
        }
    }
    // ---- closest pair, reported distance, update rule: against the reference, up to the first tie
    let upto = rf.tie_at.unwrap_or(n - 1).min(rf.overflow_from.unwrap_or(n - 1));
    for k in 0..upto {
        let (l, r, dbits, _) = obs.cluster[k];
        let (a, b, v, _) = rf.merges[k];
        if (l.min(r), l.max(r)) != (a, b) {
            return fail(
                site,
                "a merge does not join the pair that is closest at that moment under the method's update rule",
                format!("n={n}: merge {k} joins ({l},{r}) at {}, the closest pair is ({a},{b}) at {v}", f32::from_bits(dbits)),
            );
        }
        let distance_ok = if method == Method::Average { (f32::from_bits(dbits) as f64 - v as f64).abs() <= rf.errs[k] || dbits == v.to_bits() } else { dbits == v.to_bits() };
        if !distance_ok {
            return fail(
                site,
                "the reported distance of a merge is not the distance of the joined pair under the method's update rule",
                format!("n={n}: merge {k} joins ({l},{r}) reporting {:e}, the distance of that pair is {v:e}", f32::from_bits(dbits)),
            );
        }
    }
    None
}

fn big_rust(inputs: &[Vec<u16>], method: Method, l: &BigLayout, adaptor: Adaptor) -> String {
    let mut s = String::new();
    s.push_str("use hpo::{HpoSet, stats::Linkage, term::HpoGroup, utils::Combinations};\n");
    s.push_str(&format!("let mut b = hpo::builder::Builder::new();\nb.new_term(\"root\", 1u32);\nfor i in 0..{BIG_ONT_TERMS}u32 {{ b.new_term(&format!(\"T{{}}\", {BIG_BASE} + i), {BIG_BASE} + i); }}\nlet mut b = b.terms_complete();\nfor i in 0..{BIG_ONT_TERMS}u32 {{ b.add_parent(1u32, {BIG_BASE} + i).unwrap(); }}\nlet ont = b.connect_all_terms().calculate_information_content().unwrap().build_minimal();\n"));
    if inputs.iter().enumerate().all(|(i, v)| v.len() == 1 && v[0] as usize == i) {
        s.push_str(&format!("let inputs: Vec<Vec<u32>> = (0..{}u32).map(|i| vec![i]).collect(); // term indices; term id = {BIG_BASE} + index\n", inputs.len()));
    } else {
        s.push_str(&format!("let inputs: Vec<Vec<u32>> = vec!{:?}; // term indices; term id = {BIG_BASE} + index\n", inputs).replace("], [", "], vec![").replace("vec![[", "vec![vec!["));
    }
    match l {
        BigLayout::Formula { a, b, .. } => {
            s.push_str(&format!("// base distance of two different terms x < y (indices): pair index p = x*{BIG_TERMS} - x*(x+1)/2 + (y-x-1); ((p * {a} + {b}) % {BIG_M} + 1) / 2^18; a term is at 0 from itself\n"));
            s.push_str(&format!("let base = |x: u64, y: u64| -> u64 {{ if x == y {{ return 0; }} let (x, y) = (x.min(y), x.max(y)); let p = x * {BIG_TERMS} - x * (x + 1) / 2 + (y - x - 1); (p * {a} + {b}) % {BIG_M} + 1 }};\n"));
        }
        BigLayout::Wide { a, b, .. } => {
            s.push_str(&format!("// base distance of two different terms x < y (indices): pair index p = x*{WIDE_TERMS} - x*(x+1)/2 + (y-x-1); ((p * {a} + {b}) % {WIDE_M} + 1) / 2^18; a term is at 0 from itself\n"));
            s.push_str(&format!("let base = |x: u64, y: u64| -> u64 {{ if x == y {{ return 0; }} let (x, y) = (x.min(y), x.max(y)); let p = x * {WIDE_TERMS} - x * (x + 1) / 2 + (y - x - 1); (p * {a} + {b}) % {WIDE_M} + 1 }};\n"));
        }
        BigLayout::Matrix { k, ints, .. } => {
            s.push_str(&format!("// base distances of the terms (indices) as a {k} x {k} table, / 2^18\nlet table: Vec<u64> = vec!{:?};\nlet base = |x: u64, y: u64| -> u64 {{ table[(x * {k} + y) as usize] }};\n", ints));
        }
    }
    s.push_str(&format!("let ids = |x: &HpoSet<'_>| -> Vec<u64> {{ x.iter().map(|t| (hpo::annotations::AnnotationId::as_u32(&t.id()) - {BIG_BASE}) as u64).collect() }};\n"));
    s.push_str("let dist = |c: Combinations<HpoSet<'_>>| -> Vec<f32> { c.map(|(a, b)| {\n    let (a, b) = (ids(a), ids(b));\n    if a == b { return 0.0; } // the library also asks for a merged set against itself\n");
    s.push_str("    let mut sum = 0u64; for i in &a { for j in &b { sum += base(*i, *j); } }\n    (sum as f64 / (a.len() * b.len()) as f64 / 262144.0) as f32\n}).collect() };\n");
    s.push_str(&format!("let sets: Vec<HpoSet<'_>> = inputs.iter().map(|ts| {{ let mut g = HpoGroup::new(); for t in ts {{ g.insert({BIG_BASE} + *t); }} HpoSet::new(&ont, g) }}).collect();\n"));
    s.push_str(&format!("let l = Linkage::{}({}, dist);\n", method.name(), adaptor.rust()));
    s.push_str("for (k, c) in l.cluster().enumerate() { println!(\"{} {} {} {} {}\", k, c.lhs(), c.rhs(), c.distance(), c.len()); }\nprintln!(\"{:?}\", l.indicies());\n");
    s
}

fn singletons(n: usize) -> Vec<Vec<u16>> {
    (0..n).map(|i| vec![i as u16]).collect()
}

/// One clustering of the big machinery: (description of the inputs, inputs, method, layout).
struct BigRun {
    what: String,
    inputs: Vec<Vec<u16>>,
    method: Method,
    layout: BigLayout,
    /// the merge history the layout is built to force (harness self-check on the reference)
    expect_history: Option<Vec<(usize, usize)>>,
}

/// One space of clusterings over the big ontology: one case per run.
fn big_space(ctx: &mut Ctx, name: &str, bound: &str, runs: &[BigRun]) {
    ctx.space(name, &format!("{bound}: {} clusterings, one case each", runs.len()));
    let mut ont: Option<Ontology> = None;
    for (idx, run) in runs.iter().enumerate() {
        if !ctx.take() {
            continue;
        }
        if ont.is_none() {
            let mut facts = Facts { terms: vec![Facts::term(ROOT, "root")], edges: vec![], anns: vec![], version: (0, 0, 0) };
            for i in 0..BIG_ONT_TERMS as u32 {
                facts.terms.push(Facts::term(BIG_BASE + i, &format!("T{}", BIG_BASE + i)));
                facts.edges.push((BIG_BASE + i, ROOT));
            }
            match drive::build(&facts, Mode::Minimal) {
                Ok(o) => ont = Some(o),
                Err(e) => {
                    ctx.violation("Builder", "construction fails on valid facts", json!({"facts": format!("root 1 + {BIG_ONT_TERMS} children from {BIG_BASE}"), "observed": e}));
                    return;
                }
            }
        }
        let ont_ref = ont.as_ref().expect("built above");
        let (inputs, method, l) = (&run.inputs, run.method, &run.layout);
        let n = inputs.len();
        let adaptor = ADAPTORS[idx % ADAPTORS.len()];
        ctx.state();
        ctx.exec();
        ctx.transitions(4 + n as u64 - 1);
        let rf = big_reference(inputs, method, l);
        if let Some(h) = &run.expect_history {
            let same = rf.tie_at.is_none() && rf.merges.iter().map(|m| (m.0, m.1)).collect::<Vec<_>>() == *h;
            assert!(same, "C17 harness: the table built for history {h:?} does not force it under {} (tie {:?})", method.name(), rf.tie_at);
        }
        let rec = RefCell::new(BigRec::default());
        let got = big_run_lib(ont_ref, inputs, method, l, &rec, adaptor);
        let rec = rec.borrow();
        let detail = |extra: Value| {
            json!({"n": n, "method": method.name(), "inputs": run.what, "inputs_handed_in_as": adaptor.name(),
                "distance_layout": l.name(),
                "reference_first_tie_at_step": rf.tie_at, "observed": extra, "rust": big_rust(inputs, method, l, adaptor)})
        };
        match got {
            Err(p) => ctx.violation(method.site(), "panics", detail(json!({"panic": p}))),
            Ok(obs) => {
                if obs.inexact_size_hint {
                    ctx.bump("cluster_iter_size_hint_not_exact (ExactSizeIterator contract, not part of the property)", 1);
                }
                match big_check(inputs, method, &obs, &rf, &rec) {
                    Some(f) => {
                        let first: Vec<Value> = rf.merges.iter().take(12).map(|&(a, b, v, s)| json!([a, b, fj(v), s])).collect();
                        ctx.violation(&f.site, f.sig, detail(json!({"difference": f.det, "callback_invocations": rec.calls, "first_reference_merges": first, "first_observed_merges": fmt_merges(&obs.cluster[..obs.cluster.len().min(12)])})));
                    }
                    None => {
                        if rf.tie_at.is_some() {
                            ctx.bump("ties", 1);
                            ctx.bump(&format!("ties/{name}/{}", method.name()), 1);
                        } else {
                            ctx.validated();
                            ctx.nontrivial();
                        }
                    }
                }
                if rf.tie_at.is_none() {
                    let mut bytes = Vec::with_capacity(4 * n);
                    for m in &obs.cluster {
                        bytes.extend_from_slice(&(m.0.min(m.1) as u16).to_be_bytes());
                        bytes.extend_from_slice(&(m.0.max(m.1) as u16).to_be_bytes());
                    }
                    bytes.push(method as u8);
                    ctx.outcome(fnv(&bytes));
                }
                ctx.sample(|| json!({"n": n, "inputs": run.what, "method": method.name(), "layout": l.name(), "inputs_handed_in_as": adaptor.name(), "callback_invocations": rec.calls,
                    "reference_first_tie_at_step": rf.tie_at,
                    "first_merges": fmt_merges(&obs.cluster[..obs.cluster.len().min(5)]), "last_merge": fmt_merges(&obs.cluster[obs.cluster.len().saturating_sub(1)..])}));
            }
        }
    }
}

/// A deterministic lattice of merge histories for medium n: history h joins at step s the pair number
/// (h * (2s+3) + s*s + h/7) mod (number of pairs of the live clusters) in lexicographic order of the live list.
fn lattice_history(n: usize, h: usize) -> Vec<(usize, usize)> {
    let mut live: Vec<usize> = (0..n).collect();
    let mut hist = vec![];
    for s in 0..n - 1 {
        let k = live.len();
        let pairs = k * (k - 1) / 2;
        let mut pick = (h * (2 * s + 3) + s * s + h / 7) % pairs;
        let (mut x, mut y) = (0, 1);
        'find: for a in 0..k {
            for b in a + 1..k {
                if pick == 0 {
                    x = a;
                    y = b;
                    break 'find;
                }
                pick -= 1;
            }
        }
        hist.push((live[x], live[y]));
        live.remove(y);
        live.remove(x);
        live.push(n + s);
    }
    hist
}

/// The perturbed ultrametric table forcing `hist` (see `history_ints`), for any n <= 40: height (s+1)*4096 plus a
/// distinct perturbation (11 p mod 1021) + 1 < 1024 per pair index p.
fn history_matrix(n: usize, hist: &[(usize, usize)]) -> Vec<u64> {
    let mut members: Vec<Vec<usize>> = (0..n).map(|i| vec![i]).collect();
    let mut ints = vec![0u64; n * n];
    for (s, &(a, b)) in hist.iter().enumerate() {
        for &i in &members[a] {
            for &j in &members[b] {
                let (lo, hi) = (i.min(j), i.max(j));
                let p = lo * n - lo * (lo + 1) / 2 + (hi - lo - 1);
                let v = ((s as u64 + 1) << 12) | ((11 * p as u64) % 1021 + 1);
                ints[i * n + j] = v;
                ints[j * n + i] = v;
            }
        }
        let mut m = members[a].clone();
        m.extend_from_slice(&members[b]);
        members.push(m);
    }
    ints
}

pub fn run(ctx: &mut Ctx) {
    ctx.rule = "an input = (n pairwise term-disjoint input sets, a rank order of the base distances, a linkage method); base distances are those between the atoms (terms; an empty set counts as one pseudo-atom) of the inputs - for singleton inputs these are the n(n-1)/2 pairwise distances - and two sets are at the mean of the base distances between their atoms; \
        the pair of rank r gets the dyadic base distance ((r+1)*2^m + 2^r)/2^(m+6) (m = number of pairs; spaces named linear-/geometric-values use (r+1)/64 resp. 3^r/2^16 instead; spaces named one-infinite-distance put the pair of the largest rank at f32::INFINITY, spaces named one-negative-infinite-distance the closest pair at f32::NEG_INFINITY; n2/explicit-distance-values uses the listed f32 values); \
        a case = a block of rank orders sharing a prefix (up to 10 base distances) or one near-base rank order applied to three base orders (n = 6,7), each run under the listed methods; \
        spaces named all-merge-histories enumerate instead every sequence of merges (any pair of live clusters at every step) and force it with the table: inputs whose clusters are joined at step s are at ((s+1)*256 + p)/2048 with a distinct p in 1..=28 per pair (a case = the 18 histories sharing the first n-4 merges); inputs are distinct by construction; \
        states = rank orders, executions = clusterings, validated = clusterings compared merge by merge (pair, distance, len) with the reference without meeting a tie; non-trivial = validated and (n >= 3 \
        (at least one distance to a newly formed cluster decides or is reported by a later merge) or a border value (+inf, 0, f32::MAX, f32::MIN_POSITIVE) is among the distances or an input is empty / related to another input); extra.ties = clusterings where the reference met two live pairs at the same minimal distance (exact comparison stopped at that step, structural checks still applied)"
        .into();
    ctx.assumptions = vec![
        "symmetric distance functions only: the callback is a pure function of the unordered content of the two sets".into(),
        "no ties are constructed; where the size-weighted/plain means produce equal f32 values at the minimum, the run is counted in extra.ties and compared only up to that step".into(),
        "`average` is checked against the documented rule (mean of the distances of the two merged parts, not size-weighted UPGMA); the arithmetic of the mean is not fixed by the property: the reported distance may deviate from the reference's f32 (x+y)/2 by one unit in the last place per mean taken (a mean of means inherits half of each part's deviation), and a step at which another live pair lies within these deviations of the closest one counts as a tie".into(),
        "for `union` the user distance of (merged set, other live set) is the mean of the base distances between the terms of the TRUE union of the merged input sets and the terms of the other set, computed by the same function in the callback (from the content it is handed) and in the reference (from the inputs)".into(),
        "callback accounting: the first n(n-1)/2 pairs received - in one or several invocations, in any order - must be each unordered pair of inputs exactly once (so every initial pair is asked before any pair with a merged set); every later pair (union) must be matched by content to the library's own merges: both sides are clusters (inputs, or exactly the union of the two sets joined by some merge) that are live at the same moment (or one union against itself - the library asks the merged set against itself; counted in extra, not a violation); which invocation a pair arrives in, and whether a pair of old live clusters is asked again, is not demanded".into(),
        "empty input sets are legal inputs (e.g. the set of an unannotated gene) and are clustered like any other; with two empty inputs the initial call is keyed by input index (both have the same content), so every unordered pair of inputs has its own distance; afterwards an empty set is keyed by its (empty) content, which makes two live empty sets equidistant to a new cluster (counted as ties when minimal)".into(),
        "input sets may contain terms related by is_a (an ancestor in one input, its descendant in another or the same): clustering must not normalise the content of merged sets".into(),
        "(lhs, rhs) of a merge is compared as an unordered pair".into(),
        "+inf, -inf, 0.0, +-f32::MAX and +-f32::MIN_POSITIVE are legal distances (e.g. -ln of a similarity of 0 is +inf, ln of it -inf); the merge at an infinite distance must be reported at that distance; NaN is not used. The statement does not mention non-finite distances and the API has no error channel: this is a policy of the harness - an implementation that refuses them by panicking is reported".into(),
        "the sign of the user distance is not restricted: the spaces named *-negative-* shift the same dyadic values by an integer offset (applied after the mean, which is affine) so that some or all distances are below zero; the reported merge distances must be those negative values".into(),
        "input sets may overlap, be nested or equal (spaces named overlapping-inputs): the distance is then a plain look-up keyed by the two contents (28 distinct exact values for the unordered pairs of the 7 non-empty subsets of a 3-term universe, equal contents included); for `union` the merged set must be the set union; equal-content inputs produce equal distances, counted as ties when minimal".into(),
        "every set handed to the callback (any space, any invocation) must iterate its terms without repetition and report len() = number of distinct terms (a union is a set of unique terms); the order of the iteration is not demanded".into(),
        "the linkage functions take any IntoIterator of sets: how the sets are handed in (Vec, filter, flatten, from_fn, chain - different size hints) must not matter; every space rotates through these adaptors by case number, the input-adaptors spaces run all of them".into(),
        "the magnitude of the distances is not restricted: tables scaled by 2^-30 .. 2^-100 (far below f32::EPSILON), by 2^60, and tables mixing tiny and ordinary distances must be clustered by exact comparison like any other".into(),
        "the number of inputs is not restricted: the many-inputs spaces cluster 255 / 256 / 257 / 300 / 400 / 520 singletons (union: 64 / 130) over a flat 310-term ontology with all pairwise distances distinct (a bijective integer formula over the pair index, scaled by 2^-17; sets at the mean over their members), checked by the same naive reference on vectors; rounding of nested means can produce equal f32 values, counted as ties as elsewhere".into(),
        "input sets may contain obsolete terms and terms that carry a replacement: the spaces named *-flagged* repeat the overlapping-inputs and related-terms spaces on an ontology decoded from bytes (format v3) in which 4 and 7 are obsolete, 6 is obsolete and replaced by 3, 5 and 7 carry replacements (2 resp. 5); clustering must neither drop nor substitute such members - the callback sees the exact union".into(),
        "subnormal distances are legal: `average` must report the mean of the two parts exactly where it is representable (the subnormal family makes every such mean an integer multiple of 2^-149)".into(),
        "at the top of the f32 range the documented mean of two parts is finite while the sum-then-halve arithmetic overflows: such `average` runs are don't-care from the first merge that depends on an overflowing sum (counted in extra.average_sum_overflow_dont_care)".into(),
        "all views of the result must agree with the forward iteration of cluster(): rev(), (&linkage).into_iter(), iter(), nth(k) for every k (the merge addressed as index n+k), last(), count(), len()/size_hint() after taking k items, alternating next()/next_back(), and the owned iteration (into_cluster(), linkage.into_iter(), reversed, from both ends)".into(),
        "an exact 0.0 is a legal distance at any rank (identical phenotype sets): the zero-at-rank families shift the values so that one pair is at exactly 0.0, closer pairs negative".into(),
        "n = 0 and n = 1 are don't-care: executed under catch_unwind, nothing is demanded".into(),
        "ontology: Builder, build_minimal; root 1; 2,3,4,6,8,9,10,11 children of 1; 5 child of 2; 7 child of 5; the main spaces use singletons of the pairwise unrelated terms 2,3,4,6,8,9,10".into(),
    ];

    // ---- set-up
    let mut facts = Facts { terms: vec![], edges: vec![], anns: vec![], version: (0, 0, 0) };
    for id in ROOT..=MAX_TERM {
        facts.terms.push(Facts::term(id, &format!("T{id}")));
    }
    for &(c, p) in &LINKS {
        facts.edges.push((c, p));
    }
    let ont = match drive::build(&facts, Mode::Minimal) {
        Ok(o) => o,
        Err(e) => {
            ctx.space("setup", "ontology with 11 terms");
            ctx.violation("Builder", "construction fails on valid facts", json!({"facts": facts.to_json(), "observed": e}));
            return;
        }
    };
    // the same terms and links plus 118 (needed by the decoder's defaults), decoded from bytes with flags
    let flagged = {
        let mut f = facts.clone();
        f.terms.push(Facts::term(118, "T118"));
        f.edges.push((118, ROOT));
        for t in f.terms.iter_mut() {
            if let Some(&(_, obsolete, replacement)) = FLAGS.iter().find(|x| x.0 == t.id) {
                t.obsolete = obsolete;
                t.replacement = replacement;
            }
        }
        let bytes = crate::encode::encode(&f, &crate::encode::EncOpts::v(3));
        match drive::from_bytes(&bytes) {
            Ok(Ok(o)) => {
                // harness self-check: the flags arrived (that they do is property C01/C02's business)
                let ok = guard(|| FLAGS.iter().all(|&(id, obs, rep)| o.hpo(id).map_or(false, |t| t.is_obsolete() == obs && t.replaced_by().map(|r| r.id().as_u32()) == rep))).unwrap_or(false);
                if ok {
                    let rust = format!("let bytes: Vec<u8> = vec!{:?};\nlet ont = hpo::Ontology::from_bytes(&bytes).unwrap(); // terms 1..=11 and 118; flagged (term, obsolete, replaced by): (4, true, -), (6, true, 3), (5, false, 2), (7, true, 5)\n", bytes);
                    Some(Flagged { ont: o, facts: f, rust })
                } else {
                    ctx.note("C17: the ontology decoded from bytes does not carry the obsolete / replacement flags; the flagged-terms spaces are skipped");
                    ctx.bump("skipped: flagged-terms spaces (the decoded ontology does not carry the flags)", 1);
                    None
                }
            }
            other => {
                ctx.note(&format!("C17: the flagged ontology cannot be decoded from bytes ({other:?}); the flagged-terms spaces are skipped", other = other.map(|r| r.map(|_| "ok"))));
                ctx.bump("skipped: flagged-terms spaces (the flagged ontology cannot be decoded from bytes)", 1);
                None
            }
        }
    };
    let env = Env { ont, facts, rec: RefCell::new(Rec::default()), adaptor: Cell::new(Adaptor::Vec), fixed_adaptor: Cell::new(None), flagged, use_flagged: Cell::new(false) };
    for n in 2..=MAX_N_RANKS {
        selfcheck_values(n_pairs(n), Family::Spread);
        selfcheck_values(n_pairs(n), Family::Linear);
        if n <= 5 {
            for fam in [Family::Tiny30, Family::Tiny60, Family::Tiny100, Family::Huge60, Family::MixedTiny2, Family::MixedTinyHalf, Family::Subnormal, Family::Top, Family::BelowTop] {
                selfcheck_values(n_pairs(n), fam);
            }
            selfcheck_values(n_pairs(n), Family::Geometric);
        }
    }
    let thorough = ctx.tier.thorough();

    // ---- n = 2, 3, 4: every rank order, all four methods
    for n in 2..=4usize {
        let m = n_pairs(n);
        let total: u64 = (1..=m as u64).product();
        ctx.space(&format!("n{n}/all-rank-orders/all-methods"), &format!("n = {n}: all {total} rank orders of the {m} pairwise distances x 4 methods"));
        exhaustive(ctx, &env, &Inputs::flat(n), Family::Spread, "spread-values", false, &METHODS);
    }

    // ---- one infinite distance: the pair of the largest rank is at +inf, n = 2, 3, 4 (n = 5: thorough, below)
    let infinite = |ctx: &mut Ctx, n: usize| {
        let m = n_pairs(n);
        let total: u64 = (1..=m as u64).product();
        ctx.space(
            &format!("n{n}/all-rank-orders/one-infinite-distance/all-methods"),
            &format!("n = {n}: all {total} rank orders of the {m} pairwise distances, the pair of the largest rank at f32::INFINITY (a set pair containing it is at +inf too) x 4 methods"),
        );
        exhaustive(ctx, &env, &Inputs::flat(n), Family::InfTop, "one-infinite-values", true, &METHODS);
    };
    for n in 2..=4usize {
        infinite(ctx, n);
    }
    // ... and one negative infinite distance: the closest pair at -inf (n = 2: among the explicit values below). The
    // first merge must be reported at -inf; no other distance involves it
    for n in 3..=4usize {
        let m = n_pairs(n);
        let total: u64 = (1..=m as u64).product();
        ctx.space(
            &format!("n{n}/all-rank-orders/one-negative-infinite-distance/all-methods"),
            &format!("n = {n}: all {total} rank orders of the {m} pairwise distances, the pair of rank 0 at f32::NEG_INFINITY x 4 methods"),
        );
        exhaustive(ctx, &env, &Inputs::flat(n), Family::InfBottom, "one-negative-infinite-values", true, &METHODS);
    }

    // ---- negative distances: the Spread values minus an offset, so that the closest pair / half of the pairs /
    //      all pairs are below zero (the property does not restrict the sign of the user distance)
    let negative = |ctx: &mut Ctx, n: usize, fams: &[Family]| {
        let m = n_pairs(n);
        let total: u64 = (1..=m as u64).product();
        for &fam in fams {
            ctx.space(
                &format!("n{n}/all-rank-orders/{}-distances/all-methods", fam.name()),
                &format!("n = {n}: all {total} rank orders of the {m} pairwise distances, shifted so that the {} closest of the {m} pairs are at negative distances x 4 methods", negatives(fam, m)),
            );
            exhaustive(ctx, &env, &Inputs::flat(n), fam, &format!("{}-values", fam.name()), true, &METHODS);
        }
    };
    negative(ctx, 2, &[Family::NegAll]);
    negative(ctx, 3, &[Family::NegOne, Family::NegHalf, Family::NegAll]);
    negative(ctx, 4, &[Family::NegOne, Family::NegHalf, Family::NegAll]);

    // ---- magnitudes: the same exact tables scaled by 2^-30, 2^-60, 2^-100 (all far below f32::EPSILON) and 2^60, and
    //      mixed tables whose 2 / ceil(m/2) closest pairs are tiny (x 2^-40) while the others are ordinary
    let scaled = |ctx: &mut Ctx, n: usize, fams: &[Family]| {
        let m = n_pairs(n);
        let total: u64 = (1..=m as u64).product();
        for &fam in fams {
            let what = match fam {
                Family::MixedTiny2 | Family::MixedTinyHalf => format!("the {} closest of the {m} pairs at 2^-40 times their ordinary value, the others ordinary", tiny_ranks(fam, m)),
                Family::Subnormal => "every distance an odd multiple (1 mod 8) of the smallest subnormal 2^-149, so that every mean of two parts is exactly representable while halving one value alone is not".to_string(),
                Family::Top => "scaled so that the largest distance lies in [2^127, 2^128): min, max and the callback are exact; for `average` a mean whose f32 sum overflows is don't-care (compared up to that merge, counted in extra)".to_string(),
                Family::BelowTop => "scaled so that the largest distance lies in [2^126, 2^127): no sum of two distances overflows, so every `average` mean at the top of the range is compared like any other".to_string(),
                Family::EqualPair => "the first two ranks >= 1 whose pairs share an input at the same value (two inputs equidistant from a third, the closest pair unique)".to_string(),
                Family::ZeroRank0 | Family::ZeroRank1 | Family::ZeroRankMid | Family::ZeroRankTop => format!("shifted so that the pair of rank {} is at exactly 0.0 (closer pairs negative, the others positive)", zero_rank(fam, m).unwrap_or(0)),
                _ => format!("every distance {}", fam.name()),
            };
            ctx.space(
                &format!("n{n}/all-rank-orders/{}-distances/all-methods", fam.name()),
                &format!("n = {n}: all {total} rank orders of the {m} pairwise distances, {what} (exact, distinct f32 values) x 4 methods"),
            );
            exhaustive(ctx, &env, &Inputs::flat(n), fam, &format!("{}-values", fam.name()), true, &METHODS);
        }
    };
    scaled(ctx, 3, &[Family::ZeroRank0, Family::ZeroRank1, Family::ZeroRankTop]);
    scaled(ctx, 4, &[Family::ZeroRank0, Family::ZeroRank1, Family::ZeroRankMid, Family::ZeroRankTop]);
    scaled(ctx, 2, &[Family::Tiny30, Family::Tiny100, Family::Huge60, Family::Subnormal, Family::Top, Family::BelowTop]);
    scaled(ctx, 3, &[Family::Tiny30, Family::Tiny60, Family::Tiny100, Family::Huge60, Family::MixedTiny2, Family::Subnormal, Family::Top, Family::BelowTop, Family::EqualPair]);
    scaled(ctx, 4, &[Family::Tiny30, Family::Tiny60, Family::Tiny100, Family::Huge60, Family::MixedTiny2, Family::MixedTinyHalf, Family::Subnormal, Family::Top, Family::BelowTop, Family::EqualPair]);

    // ---- how the inputs are handed in: every adaptor on every rank order for n <= 4 (all other spaces rotate
    //      through the adaptors by case number)
    for n in 2..=4usize {
        let m = n_pairs(n);
        let total: u64 = (1..=m as u64).product();
        ctx.space(
            &format!("n{n}/all-rank-orders/input-adaptors/all-methods"),
            &format!("n = {n}: all {total} rank orders of the {m} pairwise distances x 5 ways of handing in the same sets (Vec; into_iter().filter(|_| true); two nested Vecs flattened; std::iter::from_fn; filter(..).chain(Vec)) x 4 methods"),
        );
        for a in ADAPTORS {
            env.fixed_adaptor.set(Some(a));
            exhaustive(ctx, &env, &Inputs::flat(n), Family::Spread, "spread-values", n >= 3, &METHODS);
        }
        env.fixed_adaptor.set(None);
    }

    // ---- overlapping inputs: every sequence of n non-empty subsets of a 3-term universe (equal, nested, overlapping,
    //      disjoint inputs), distance = look-up by the two contents, 4 fixed tables x 4 methods
    let overlapping = |ctx: &mut Ctx, n: usize, flagged: bool| {
        let label = if flagged { "-flagged-terms" } else { "" };
        env.use_flagged.set(flagged);
        let universes: [[u32; 3]; 2] = [[3, 4, 6], [2, 5, 7]];
        let seqs = 7u64.pow(n as u32);
        ctx.space(
            &format!("n{n}/overlapping-inputs{label}/all-subset-sequences/all-methods"),
            &format!("n = {n}: all {seqs} sequences of non-empty subsets of a 3-term universe, universes {{3,4,6}} (unrelated terms) and {{2,5,7}} (a chain of ancestors) x 4 content-keyed distance tables (fixed rank assignments to the 28 unordered pairs of subsets) x 4 methods; one case = one sequence{}", if flagged { "; ontology decoded from bytes with 4 and 7 obsolete, 6 obsolete and replaced by 3, 5 replaced by 2" } else { "" }),
        );
        for universe in universes {
            let tables: Vec<Table> = (0..4).map(|v| Table::for_subsets(universe, v)).collect();
            for code in 0..seqs {
                if !ctx.take() {
                    continue;
                }
                let mut c = code;
                let sets: Vec<u32> = (0..n)
                    .map(|_| {
                        let sub = (c % 7 + 1) as usize;
                        c /= 7;
                        (0..3).filter(|k| sub >> k & 1 == 1).fold(0u32, |m, k| m | 1 << universe[k])
                    })
                    .collect();
                let inp = Inputs::overlapping(&sets);
                let mut tally = Tally::default();
                for (v, table) in tables.iter().enumerate() {
                    env.rotate(ctx, v as u64);
                    for &method in &METHODS {
                        one(ctx, &env, &inp, &[v], table, method, &mut tally);
                    }
                }
                flush(ctx, n, &format!("overlapping-inputs{label}"), inp.overlaps(), 1, &tally);
                ctx.sample(|| json!({"n": n, "input_sets (terms)": inp.to_json(), "universe": universe, "tables": 4, "methods": METHODS.iter().map(|m| m.name()).collect::<Vec<_>>(),
                    "base_distances_of_table_0": tables[0].base_json(&inp)}));
            }
        }
        env.use_flagged.set(false);
    };
    for n in 2..=(if thorough { 4usize } else { 3 }) {
        overlapping(ctx, n, false);
    }
    if env.flagged.is_some() {
        for n in 2..=(if thorough { 4usize } else { 3 }) {
            overlapping(ctx, n, true);
        }
    }

    // ---- n = 2 with explicit border values of the single distance
    ctx.space("n2/explicit-distance-values/all-methods", "n = 2: the distance of the two inputs in {0.5, +inf, 0.0, f32::MAX, f32::MIN_POSITIVE, -0.5, -inf, -f32::MAX, -f32::MIN_POSITIVE} x 4 methods (NaN is not a distance and is left out)");
    for v in [0.5f32, f32::INFINITY, 0.0, f32::MAX, f32::MIN_POSITIVE, -0.5, f32::NEG_INFINITY, -f32::MAX, -f32::MIN_POSITIVE] {
        if !ctx.take() {
            continue;
        }
        let inp = Inputs::flat(2);
        let table = Table::fixed2(&inp, v);
        env.rotate(ctx, 0);
        let mut tally = Tally::default();
        for &method in &METHODS {
            one(ctx, &env, &inp, &[0], &table, method, &mut tally);
        }
        flush(ctx, 2, "explicit-values", true, 1, &tally);
        ctx.sample(|| json!({"n": 2, "distance": fj(v), "distance_bits": format!("{:#x}", v.to_bits()), "methods": METHODS.iter().map(|m| m.name()).collect::<Vec<_>>()}));
    }

    // ---- inputs with related terms (ancestor in one input, descendant in another / the same), 1- and 2-term sets
    let related = |ctx: &mut Ctx, n: usize, atoms: usize, flagged: bool| {
        let label = if flagged { "-flagged" } else { "" };
        env.use_flagged.set(flagged);
        let fams = related_families(n, atoms);
        let m = n_pairs(atoms);
        let total: u64 = (1..=m as u64).product();
        ctx.space(
            &format!("n{n}/related-terms-{atoms}{label}/all-rank-orders/all-methods"),
            &format!("n = {n}, input sets over {atoms} terms some of which are ancestors of others (2 > 5 > 7, root 1){}: {} input families {} x all {total} rank orders of the {m} term-pair base distances x 4 methods", if flagged { ", ontology decoded from bytes with 7 obsolete and replaced by 5, 5 replaced by 2, 4 obsolete" } else { "" }, fams.len(), describe_all(&fams)),
        );
        for inp in &fams {
            exhaustive(ctx, &env, inp, Family::Spread, &format!("related-terms-{atoms}{label}"), true, &METHODS);
        }
        env.use_flagged.set(false);
    };
    for flagged in [false, true] {
        if flagged && env.flagged.is_none() {
            continue;
        }
        related(ctx, 2, 2, flagged);
        related(ctx, 2, 3, flagged);
        related(ctx, 3, 3, flagged);
        related(ctx, 3, 4, flagged);
        related(ctx, 4, 4, flagged);
    }

    // ---- empty input sets: one (n = 2, 3, 4) or two (n = 3, 4) of the inputs are empty, every position
    let with_empties = |ctx: &mut Ctx, n: usize, empties: usize, terms: &[u32], what: &str| {
        let mut fams = empty_families(n, empties, terms);
        if n >= 5 {
            // 10 base distances = 10! rank orders per family: the empty set first and last only
            let last = fams.pop().expect("C17 harness: families");
            fams.truncate(1);
            fams.push(last);
        }
        let m = fams[0].m();
        let total: u64 = (1..=m as u64).product();
        ctx.space(
            &format!("n{n}/{what}/all-rank-orders/all-methods"),
            &format!("n = {n}, {empties} empty input set(s) at every position (n = 5: first and last position), the others singletons of {terms:?}: {} input families {} x all {total} rank orders of the {m} pairwise distances x 4 methods", fams.len(), describe_all(&fams)),
        );
        for inp in &fams {
            exhaustive(ctx, &env, inp, Family::Spread, what, true, &METHODS);
        }
    };
    with_empties(ctx, 2, 1, &[2], "one-empty-input");
    with_empties(ctx, 3, 1, &[2, 3], "one-empty-input");
    with_empties(ctx, 3, 2, &[2], "two-empty-inputs");
    with_empties(ctx, 4, 1, &[2, 3, 4], "one-empty-input");
    with_empties(ctx, 4, 1, &[2, 5, 7], "one-empty-input-related-terms");
    with_empties(ctx, 4, 2, &[2, 3], "two-empty-inputs");

    // ---- n = 0, 1: don't-care, must merely not take the harness down
    ctx.space("n0-n1/dont-care", "n in {0,1} x 4 methods, executed under catch_unwind, nothing demanded");
    for n in 0..=1usize {
        for &method in &METHODS {
            if !ctx.take() {
                continue;
            }
            ctx.state();
            ctx.exec();
            ctx.transitions(4);
            let inp = Inputs::flat(n);
            let table = Table::new(&inp, &[], Family::Spread);
            env.rec.borrow_mut().clear();
            match run_lib(&env.ont, &inp, method, &table, &env.rec, Adaptor::Vec) {
                Ok(obs) => {
                    ctx.bump("dontcare_n01_returned", 1);
                    ctx.sample(|| json!({"n": n, "method": method.name(), "merges": obs.cluster.len(), "indicies": obs.indicies, "callback_invocations": env.rec.borrow().calls}));
                }
                Err(p) => {
                    ctx.bump("dontcare_n01_panicked", 1);
                    ctx.note(&format!("don't-care: Linkage::{} with n={n} panics: {p}", method.name()));
                }
            }
        }
    }

    // ---- other value families (only average / union can tell them apart): n = 3, 4 here, n = 5 (thorough) below
    let families = |ctx: &mut Ctx, n: usize| {
        let m = n_pairs(n);
        let total: u64 = (1..=m as u64).product();
        for fam in [Family::Linear, Family::Geometric] {
            ctx.space(
                &format!("n{n}/all-rank-orders/{}-values/average+union", fam.name()),
                &format!("n = {n}: all {total} rank orders of the {m} pairwise distances with {} base values x {{average, union}}", if fam == Family::Linear { "(rank+1)/64" } else { "3^rank/2^16" }),
            );
            exhaustive(ctx, &env, &Inputs::flat(n), fam, &format!("{}-values", fam.name()), false, &[Method::Average, Method::Union]);
        }
    };
    families(ctx, 3);
    families(ctx, 4);

    // ---- every merge history (tree shape x merge order) for n = 6, 7, forced by perturbed ultrametric tables; n = 8 thorough (below)
    histories(ctx, &env, 6, 0, 0);
    histories(ctx, &env, 7, 0, 0);
    histories(ctx, &env, 6, 0, -60);
    // the same with negative distances: the first 2 merge steps / all 5 merge steps below zero
    histories(ctx, &env, 6, 2, 0);
    histories(ctx, &env, 6, 5, 0);

    // ---- n = 5: all 10! rank orders
    for &method in &METHODS {
        ctx.space(&format!("n5/all-rank-orders/{}", method.name()), &format!("n = 5: all 3628800 rank orders of the 10 pairwise distances, method {}; one case = 720 orders sharing the first 4 ranks", method.name()));
        exhaustive(ctx, &env, &Inputs::flat(5), Family::Spread, "spread-values", false, &[method]);
    }
    if thorough {
        families(ctx, 5);
        infinite(ctx, 5);
        negative(ctx, 5, &[Family::NegHalf, Family::NegAll]);
        scaled(ctx, 5, &[Family::Tiny100, Family::MixedTinyHalf, Family::Subnormal, Family::EqualPair, Family::ZeroRank0]);
        // 5 atoms = 10 base distances: 10! rank orders each
        with_empties(ctx, 5, 1, &[2, 5, 3, 4], "one-empty-input");
        histories(ctx, &env, 8, 0, 0);
        histories(ctx, &env, 7, 3, 0);
        histories(ctx, &env, 7, 6, 0);
        histories(ctx, &env, 7, 0, -100);
        related(ctx, 4, 5, false);
    }

    // ---- many inputs: anything that depends on the NUMBER of inputs / clusters / pairs (index widths, pre-sized tables)
    {
        let run = |n: usize, method: Method, l: usize| BigRun { what: format!("{n} singletons {{{BIG_BASE}+i}}"), inputs: singletons(n), method, layout: big_layout(l), expect_history: None };
        let formula = format!("distance of terms = ((p a + b) mod {BIG_M} + 1)/2^18 over the pair index p (all pairs distinct), sets at the mean over their members; flat ontology of {BIG_TERMS} terms");
        let ns: &[usize] = if thorough { &[255, 256, 257, 300] } else { &[256, 257, 300] };
        let layouts: &[usize] = if thorough { &[0, 1, 2, 3] } else { &[0, 1] };
        let mut runs = vec![];
        for &n in ns {
            for method in [Method::Single, Method::Complete, Method::Average] {
                for &l in layouts {
                    runs.push(run(n, method, l));
                }
            }
        }
        big_space(ctx, "many-inputs/single+complete+average", &format!("n in {ns:?} singleton inputs x {{single, complete, average}} x layouts {layouts:?}; {formula}"), &runs);
        // union: 64 (slots up to 126), 65 (first slot 127/128), 129 (first slot 255/256), 257 inputs
        let mut runs = vec![];
        for &l in layouts {
            runs.push(run(64, Method::Union, l));
        }
        for (n, l) in [(65usize, 2usize), (129, 1), (257, 0)] {
            runs.push(run(n, Method::Union, l));
        }
        if thorough {
            for (n, l) in [(65usize, 0usize), (128, 3), (129, 0), (130, 0), (130, 1), (256, 3), (257, 1)] {
                runs.push(run(n, Method::Union, l));
            }
        }
        big_space(ctx, "many-inputs/union", &format!("union linkage of 64 / 65 / 129 / 257 (thorough also 128 / 130 / 256) singleton inputs; {formula}"), &runs);
        // more than 2^16 pairs
        let mut runs = vec![run(400, Method::Single, 0), run(400, Method::Average, 0)];
        if thorough {
            runs.push(run(400, Method::Complete, 0));
            runs.push(run(400, Method::Single, 1));
            runs.push(run(400, Method::Average, 3));
            runs.push(run(363, Method::Complete, 3));
        }
        big_space(ctx, "many-inputs/more-than-2^16-pairs", &format!("n = 400 singleton inputs (79 800 pairs; thorough also 363 = the first n with more than 65 536 pairs); {formula}"), &runs);
        // cluster indices beyond 1000 / 1024 (a key that packs the two indices into decimal or 10-bit fields, a table
        // pre-sized for 1024 nodes): n = 520 gives indices up to 1038; thorough n = 1030 (indices up to 2058)
        let wide = |n: usize, method: Method| BigRun { what: format!("{n} singletons {{{BIG_BASE}+i}}"), inputs: singletons(n), method, layout: BigLayout::Wide { name: "scattered over 2^20 - 3", a: 40503, b: 12345 }, expect_history: None };
        let mut runs = vec![wide(520, Method::Single)];
        if thorough {
            runs.push(wide(520, Method::Complete));
            runs.push(wide(520, Method::Average));
            runs.push(wide(1030, Method::Single));
        }
        big_space(ctx, "many-inputs/cluster-indices-beyond-1024", &format!("n = 520 singleton inputs, single linkage (cluster indices up to 1038; thorough also complete, average and n = 1030); distance of terms = ((40503 p + 12345) mod {WIDE_M} + 1)/2^18 over the pair index p among {WIDE_TERMS} terms (all pairs distinct); flat ontology of {BIG_ONT_TERMS} terms"), &runs);

        // ---- large overlapping input sets: the merged sets cross 30 terms WITH duplicates to remove
        let range = |a: u16, b: u16| (a..b).collect::<Vec<u16>>();
        let evens = |a: u16, b: u16| (a..=b).filter(|x| x % 2 == 0).collect::<Vec<u16>>();
        let fams: Vec<(String, Vec<Vec<u16>>)> = vec![
            ("terms 0..22 | 10..34 | 30..70 | even 0..=30 (22, 24, 40 and 16 terms, pairwise overlapping)".to_string(), vec![range(0, 22), range(10, 34), range(30, 70), evens(0, 30)]),
            ("terms 5..45 | even 0..=30 | 0..16 | 12..40 (40, 16, 16 and 28 terms, pairwise overlapping, nested parts)".to_string(), vec![range(5, 45), evens(0, 30), range(0, 16), range(12, 40)]),
        ];
        let mut runs = vec![];
        for (what, inputs) in &fams {
            for &method in &[Method::Union, Method::Single, Method::Complete, Method::Average] {
                for l in 0..4 {
                    if method != Method::Union && l >= 2 && !thorough {
                        continue;
                    }
                    runs.push(BigRun { what: what.clone(), inputs: inputs.clone(), method, layout: big_layout(l), expect_history: None });
                }
            }
        }
        big_space(ctx, "large-overlapping-inputs/all-methods", &format!("4 input sets of 16..40 terms with pairwise overlaps (2 families) x 4 layouts for union, 2 (thorough 4) for the others; content oracle: every set handed to the callback is well formed (no term twice, len() = number of terms) and, after the initial phase, the exact union of two merged sets; {formula}, a term at 0 from itself"), &runs);

        // ---- medium n: a deterministic lattice of merge histories, forced by perturbed ultrametric tables
        let per_n = if thorough { 60 } else { 10 };
        let mut runs = vec![];
        for n in [12usize, 20, 33] {
            for h in 0..per_n {
                let hist = lattice_history(n, h);
                let ints = history_matrix(n, &hist);
                for &method in &METHODS {
                    runs.push(BigRun {
                        what: format!("{n} singletons, merge history number {h} of the lattice"),
                        inputs: singletons(n),
                        method,
                        layout: BigLayout::Matrix { name: format!("perturbed ultrametric table forcing lattice history {h}"), k: n, ints: ints.clone() },
                        expect_history: Some(hist.clone()),
                    });
                }
            }
        }
        big_space(ctx, "medium-n/lattice-of-merge-histories/all-methods", &format!("n in {{12, 20, 33}} x {per_n} merge histories each (history h joins at step s the pair number (h(2s+3) + s^2 + h/7) mod #pairs of the live clusters), forced by tables with height (s+1)*4096 + a distinct perturbation < 1024 per pair, / 2^18, x 4 methods"), &runs);
    }

    // ---- medium n with MULTI-TERM inputs under union: several live multi-term sets and a long merge sequence at once
    //      (the other union spaces have either many singletons or at most four multi-term inputs)
    {
        let mut runs = vec![];
        for (n, hs) in [(12usize, if thorough { 30 } else { 10 }), (24, if thorough { 20 } else { 5 })] {
            for h in 0..hs {
                let hist = lattice_history(n, h);
                let hm = history_matrix(n, &hist);
                // term t belongs to block t / 3; two terms of different blocks are at the forced table's value for their
                // blocks plus a small symmetric perturbation by their positions inside the blocks (< 32, the bands of the
                // heights are 4096 apart); terms of one block are at 1 + that perturbation (only used by the overlapping variant)
                let k = 3 * n + 1;
                let mut ints = vec![0u64; k * k];
                for x in 0..k {
                    for y in 0..k {
                        if x != y {
                            let (bx, by) = ((x / 3).min(n - 1), (y / 3).min(n - 1));
                            let pert = (5 * (x % 3 + y % 3) + (x % 3) * (y % 3)) as u64;
                            ints[x * k + y] = if bx == by { 1 + pert } else { hm[bx * n + by] + pert };
                        }
                    }
                }
                let disjoint: Vec<Vec<u16>> = (0..n).map(|i| (3 * i as u16..3 * i as u16 + 3).collect()).collect();
                // every input additionally holds the first term of the next one (the last one: the term after its own)
                let chained: Vec<Vec<u16>> = (0..n).map(|i| (3 * i as u16..3 * i as u16 + 4).collect()).collect();
                for (inputs, what) in [(disjoint, "disjoint 3-term inputs {3i, 3i+1, 3i+2}"), (chained, "4-term inputs {3i .. 3i+3}, each sharing its last term with the next")] {
                    runs.push(BigRun {
                        what: format!("{n} {what}, table built from lattice history {h}"),
                        inputs,
                        method: Method::Union,
                        layout: BigLayout::Matrix { name: format!("block table: the perturbed ultrametric table of lattice history {h} over the inputs, plus 5(x%3 + y%3) + (x%3)(y%3) per term pair"), k, ints: ints.clone() },
                        expect_history: None,
                    });
                }
            }
        }
        big_space(ctx, "medium-n/multi-term-inputs/union", "n in {12, 24} inputs of 3 terms (disjoint) or 4 terms (each overlapping the next by one term) x 10 resp. 5 (thorough 30 / 20) distance tables, each built from a lattice merge history over the inputs (block heights (s+1)*4096 + perturbation, / 2^18) plus a per-term perturbation; union linkage; content oracle as in the large-overlapping space: every set handed to the callback is well formed and a true union of merged inputs", &runs);
    }

    // ---- n = 6, 7: Kendall-tau balls around three base orders
    for n in 6..=MAX_N_RANKS {
        let m = n_pairs(n);
        let d = match (thorough, n) {
            (false, _) => 3,
            (true, 6) => 8,
            (true, _) => 7,
        };
        let expect = count_near(m, d);
        ctx.space(
            &format!("n{n}/near-base-orders/all-methods"),
            &format!("n = {n}: all {expect} rank orders within {d} adjacent transpositions of each of 3 base orders (ascending, descending, interleaved) of the {m} pairs x 4 methods"),
        );
        let cases = near_orders(ctx, &env, n, d, &METHODS);
        assert_eq!(cases, expect, "C17 harness: enumerator of near-identity permutations disagrees with the Mahonian count");
    }
}
