//! C17 - hierarchical clustering returns a valid dendrogram built from closest pairs.
//!
//! Set-up: a flat ontology (root 1, children 2..=9); input i is the singleton set {2+i}.
//! The distance callback is a pure function of the CONTENT of the two sets it is handed
//! (bit masks of input indices), so the same table serves the initial call (pairs of
//! singletons) and, for `union`, the later calls (merged set vs. every other live set).
//! Space: rank orders of the n(n-1)/2 pairwise distances (all of them for n <= 5,
//! Kendall-tau balls around three base orders for n = 6, 7) x the four linkage methods.
//! Oracle: structural dendrogram checks + a naive reference agglomerative clustering.

use crate::ctx::{fnv, guard, Ctx};
use crate::drive;
use crate::model::{Facts, Mode};
use hpo::annotations::AnnotationId;
use hpo::stats::Linkage;
use hpo::term::HpoGroup;
use hpo::utils::Combinations;
use hpo::{HpoSet, Ontology};
use serde_json::{json, Value};
use std::cell::RefCell;

const ROOT: u32 = 1;
/// input i is the singleton {FIRST + i}
const FIRST: u32 = 2;
const N_CHILDREN: usize = 8;
const MAX_N: usize = 7;
/// largest cluster index + 1 for n = MAX_N (2n-1 nodes in the dendrogram)
const MAX_NODES: usize = 2 * MAX_N - 1;

#[derive(Clone, Copy, PartialEq, Eq, Debug)]
enum Method {
    Single,
    Complete,
    Average,
    Union,
}

const METHODS: [Method; 4] = [Method::Single, Method::Complete, Method::Average, Method::Union];

impl Method {
    fn name(self) -> &'static str {
        match self {
            Method::Single => "single",
            Method::Complete => "complete",
            Method::Average => "average",
            Method::Union => "union",
        }
    }
    fn site(self) -> &'static str {
        match self {
            Method::Single => "Linkage::single",
            Method::Complete => "Linkage::complete",
            Method::Average => "Linkage::average",
            Method::Union => "Linkage::union",
        }
    }
}

fn n_pairs(n: usize) -> usize {
    n * n.saturating_sub(1) / 2
}

/// The unordered pairs {i,j}, i<j, in the order `Combinations` documents: (0,1),(0,2),..,(1,2),..
fn pair_list(n: usize) -> Vec<(usize, usize)> {
    (0..n).flat_map(|i| (i + 1..n).map(move |j| (i, j))).collect()
}

// ------------------------------------------------------------------------------------------
// Distance table
// ------------------------------------------------------------------------------------------

/// Distance "table", keyed by set content. The base value of the pair with rank r (0 = closest)
/// among m pairs is the integer I_r = (r+1)*2^m + 2^r, scaled by 2^-(m+6): strictly increasing in
/// the rank, roughly (r+1)/64, and the low-order bit pattern 2^r keeps means of different groups
/// of base values apart (so `average` / `union` rarely produce ties; ties are nevertheless
/// detected by the reference and never assumed absent).
/// For two disjoint non-empty sets A, B: value = (sum of I over A x B) / (|A||B|) / 2^(m+6),
/// computed exactly in integers, divided in f64 and rounded once to f32 (size-weighted mean of
/// the base distances between members). Symmetric by construction.
/// In the family "one infinite distance" the pair of the largest rank is at +inf instead; a set pair
/// whose members include that pair is at +inf as well (the mean of values one of which is +inf).
/// `fixed` (n = 2 only) overrides the single base distance with an explicit f32 value.
struct Table {
    n: usize,
    m: usize,
    ival: [[u64; MAX_N]; MAX_N],
    inf: [[bool; MAX_N]; MAX_N],
    fixed: Option<f32>,
    scale: f64,
}

/// JSON rendering of a distance (serde_json would turn a non-finite number into null).
fn fj(v: f32) -> Value {
    if v.is_finite() {
        json!(v)
    } else {
        json!(format!("{v}"))
    }
}

/// How a rank is turned into a base distance. Only `average` and `union` can tell the families
/// apart (single / complete only compare values).
#[derive(Clone, Copy, PartialEq, Eq, Debug)]
enum Family {
    /// ((r+1)*2^m + 2^r) / 2^(m+6): near-linear, means of different groups stay apart (main family)
    Spread,
    /// (r+1)/64: equally spaced, means of two values regularly coincide with a third value
    /// (incidental ties, detected by the reference and excluded from exact comparison)
    Linear,
    /// 3^r / 2^16: the largest member dominates every mean
    Geometric,
    /// as Spread, but the pair of the largest rank is at f32::INFINITY (a legal distance, e.g. -ln 0)
    InfTop,
}

impl Family {
    fn name(self) -> &'static str {
        match self {
            Family::Spread => "spread",
            Family::Linear => "linear",
            Family::Geometric => "geometric",
            Family::InfTop => "one-infinite",
        }
    }
    fn scale(self, m: usize) -> f64 {
        match self {
            Family::Spread | Family::InfTop => (1u64 << (m + 6)) as f64,
            Family::Linear => 64.0,
            Family::Geometric => 65536.0,
        }
    }
}

fn base_int(fam: Family, rank: usize, m: usize) -> u64 {
    match fam {
        Family::Spread | Family::InfTop => (((rank as u64) + 1) << m) | (1u64 << rank),
        Family::Linear => rank as u64 + 1,
        Family::Geometric => 3u64.pow(rank as u32),
    }
}

impl Table {
    /// `rank_of_pair[p]` = rank of the p-th pair of `pair_list(n)`.
    fn new(n: usize, rank_of_pair: &[usize], fam: Family) -> Table {
        let m = n_pairs(n);
        assert_eq!(rank_of_pair.len(), m);
        let mut ival = [[0u64; MAX_N]; MAX_N];
        let mut inf = [[false; MAX_N]; MAX_N];
        let mut p = 0;
        for i in 0..n {
            for j in i + 1..n {
                let v = base_int(fam, rank_of_pair[p], m);
                ival[i][j] = v;
                ival[j][i] = v;
                if fam == Family::InfTop && rank_of_pair[p] + 1 == m {
                    inf[i][j] = true;
                    inf[j][i] = true;
                }
                p += 1;
            }
        }
        Table { n, m, ival, inf, fixed: None, scale: fam.scale(m) }
    }

    /// n = 2 with the explicit distance `v` between the two inputs.
    fn fixed2(v: f32) -> Table {
        assert!(!v.is_nan(), "C17 harness: NaN is not a distance");
        let mut t = Table::new(2, &[0], Family::Spread);
        t.fixed = Some(v);
        t
    }

    /// Value for two disjoint non-empty masks.
    fn value(&self, a: u32, b: u32) -> f32 {
        debug_assert!(a != 0 && b != 0 && a & b == 0);
        if let Some(v) = self.fixed {
            return v;
        }
        let mut sum = 0u64;
        let mut cnt = 0u64;
        let mut infinite = false;
        for i in 0..self.n {
            if a >> i & 1 == 0 {
                continue;
            }
            for j in 0..self.n {
                if b >> j & 1 == 1 {
                    sum += self.ival[i][j];
                    cnt += 1;
                    infinite |= self.inf[i][j];
                }
            }
        }
        if infinite {
            return f32::INFINITY;
        }
        ((sum as f64) / (cnt as f64) / self.scale) as f32
    }

    fn base_json(&self) -> Value {
        let mut v = vec![];
        for (i, j) in pair_list(self.n) {
            v.push(json!({"sets": [i, j], "terms": [FIRST + i as u32, FIRST + j as u32], "distance": fj(self.value(1 << i, 1 << j))}));
        }
        json!(v)
    }
}

/// Harness self-check: base values are exactly representable, distinct and increasing in the rank.
fn selfcheck_values(n: usize, fam: Family) {
    let m = n_pairs(n);
    let scale = fam.scale(m);
    let mut prev = -1.0f64;
    for r in 0..m {
        let exact = base_int(fam, r, m) as f64 / scale;
        let f = exact as f32;
        assert!(f as f64 == exact, "C17 harness: base value of rank {r} (m={m}, {fam:?}) is not exact in f32");
        assert!(exact > prev, "C17 harness: base values not increasing");
        prev = exact;
    }
}

// ------------------------------------------------------------------------------------------
// Callback recorder
// ------------------------------------------------------------------------------------------

#[derive(Default)]
struct Rec {
    calls: u32,
    /// pairs of the first invocation (content masks), in the order received
    first: Vec<(u32, u32)>,
    /// (invocation, lhs mask, rhs mask) of all later invocations
    later: Vec<(u32, u32, u32)>,
    /// sets containing a term that belongs to no input, or empty sets
    foreign: u32,
    /// pairs of one and the same content (the library asks union-vs-itself)
    selfpairs: u32,
    /// overlapping but different sets
    overlap: u32,
}

impl Rec {
    fn clear(&mut self) {
        self.calls = 0;
        self.first.clear();
        self.later.clear();
        self.foreign = 0;
        self.selfpairs = 0;
        self.overlap = 0;
    }
}

fn mask_of(set: &HpoSet<'_>, n: usize, foreign: &mut u32) -> u32 {
    let mut m = 0u32;
    for t in set.iter() {
        let id = t.id().as_u32();
        if id >= FIRST && id < FIRST + n as u32 {
            m |= 1 << (id - FIRST);
        } else {
            *foreign += 1;
        }
    }
    if m == 0 {
        *foreign += 1;
    }
    m
}

// ------------------------------------------------------------------------------------------
// Running the library
// ------------------------------------------------------------------------------------------

type Merge = (usize, usize, u32, usize); // lhs, rhs, distance bits, len

struct Obs {
    cluster: Vec<Merge>,
    into_cluster: Vec<Merge>,
    indicies: Vec<usize>,
}

fn run_lib(ont: &Ontology, n: usize, method: Method, table: &Table, rec: &RefCell<Rec>) -> Result<Obs, String> {
    let cb = |combs: Combinations<HpoSet<'_>>| -> Vec<f32> {
        let mut rec = rec.borrow_mut();
        let call = rec.calls;
        rec.calls += 1;
        let mut out = Vec::with_capacity(24);
        for (a, b) in combs {
            let mut foreign = 0;
            let ma = mask_of(a, n, &mut foreign);
            let mb = mask_of(b, n, &mut foreign);
            rec.foreign += foreign;
            if call == 0 {
                rec.first.push((ma, mb));
            } else {
                rec.later.push((call, ma, mb));
            }
            let v = if ma == 0 || mb == 0 {
                0.0
            } else if ma == mb {
                rec.selfpairs += 1;
                0.0
            } else if ma & mb != 0 {
                rec.overlap += 1;
                0.0
            } else {
                table.value(ma, mb)
            };
            out.push(v);
        }
        out
    };
    guard(|| {
        let sets = (0..n).map(|i| {
            let mut g = HpoGroup::new();
            g.insert(FIRST + i as u32);
            HpoSet::new(ont, g)
        });
        let l = match method {
            Method::Single => Linkage::single(sets, &cb),
            Method::Complete => Linkage::complete(sets, &cb),
            Method::Average => Linkage::average(sets, &cb),
            Method::Union => Linkage::union(sets, &cb),
        };
        let cluster: Vec<Merge> = l.cluster().map(|c| (c.lhs(), c.rhs(), c.distance().to_bits(), c.len())).collect();
        let indicies = l.indicies();
        let into_cluster: Vec<Merge> = l.into_cluster().map(|c| (c.lhs(), c.rhs(), c.distance().to_bits(), c.len())).collect();
        Obs { cluster, into_cluster, indicies }
    })
}

// ------------------------------------------------------------------------------------------
// Reference: naive agglomerative clustering
// ------------------------------------------------------------------------------------------

struct RefRun {
    /// (a, b, distance, size) with a < b
    merges: Vec<(usize, usize, f32, usize)>,
    /// first step at which two live pairs shared the minimal distance
    tie_at: Option<usize>,
}

fn reference(n: usize, method: Method, table: &Table) -> RefRun {
    let mut d = [[0f32; MAX_NODES]; MAX_NODES];
    let mut live = [false; MAX_NODES];
    let mut mask = [0u32; MAX_NODES];
    let mut size = [0usize; MAX_NODES];
    for i in 0..n {
        live[i] = true;
        mask[i] = 1 << i;
        size[i] = 1;
    }
    for i in 0..n {
        for j in i + 1..n {
            let v = table.value(1 << i, 1 << j);
            d[i][j] = v;
            d[j][i] = v;
        }
    }
    let mut out = RefRun { merges: Vec::with_capacity(n), tie_at: None };
    for k in 0..n.saturating_sub(1) {
        let nodes = n + k;
        // the closest live pair, and how many live pairs are at that distance
        let mut best: Option<(usize, usize, f32)> = None;
        let mut at_best = 0usize;
        for a in 0..nodes {
            for b in a + 1..nodes {
                if !(live[a] && live[b]) {
                    continue;
                }
                let v = d[a][b];
                match best {
                    Some((_, _, bv)) if v > bv => {}
                    Some((_, _, bv)) if v == bv => at_best += 1,
                    _ => {
                        best = Some((a, b, v));
                        at_best = 1;
                    }
                }
            }
        }
        let (a, b, v) = best.expect("C17 reference: at least two live clusters");
        if at_best > 1 && out.tie_at.is_none() {
            out.tie_at = Some(k);
        }
        let new = nodes;
        mask[new] = mask[a] | mask[b];
        size[new] = size[a] + size[b];
        for c in 0..nodes {
            if !live[c] || c == a || c == b {
                continue;
            }
            let (x, y) = (d[c][a], d[c][b]);
            let nv = match method {
                Method::Single => {
                    if x < y {
                        x
                    } else {
                        y
                    }
                }
                Method::Complete => {
                    if x > y {
                        x
                    } else {
                        y
                    }
                }
                Method::Average => (x + y) / 2.0,
                Method::Union => table.value(mask[new], mask[c]),
            };
            d[c][new] = nv;
            d[new][c] = nv;
        }
        live[a] = false;
        live[b] = false;
        live[new] = true;
        out.merges.push((a, b, v, size[new]));
    }
    out
}

// ------------------------------------------------------------------------------------------
// Oracle
// ------------------------------------------------------------------------------------------

struct Fail {
    site: String,
    sig: &'static str,
    det: String,
}

fn fail(site: &str, sig: &'static str, det: String) -> Option<Fail> {
    Some(Fail { site: site.to_string(), sig, det })
}

fn fmt_merges(m: &[Merge]) -> Vec<Value> {
    m.iter().map(|&(l, r, d, s)| json!({"lhs": l, "rhs": r, "distance": fj(f32::from_bits(d)), "len": s})).collect()
}

fn check(n: usize, method: Method, obs: &Obs, rf: &RefRun, rec: &Rec) -> Option<Fail> {
    let site = method.site();
    // ---- callback accounting (first invocation)
    if rec.calls == 0 {
        return fail(site, "the distance callback is never invoked", format!("n={n}"));
    }
    let pairs = pair_list(n);
    {
        let mut seen = vec![0u32; pairs.len()];
        let mut bad = rec.first.len() != pairs.len();
        for &(a, b) in &rec.first {
            if a.count_ones() != 1 || b.count_ones() != 1 || a == b {
                bad = true;
                continue;
            }
            let (i, j) = (a.trailing_zeros() as usize, b.trailing_zeros() as usize);
            let (i, j) = (i.min(j), i.max(j));
            match pairs.iter().position(|&p| p == (i, j)) {
                Some(p) => seen[p] += 1,
                None => bad = true,
            }
        }
        if bad || seen.iter().any(|&c| c != 1) {
            return fail(site, "the initial distance call does not receive each unordered pair of inputs exactly once", format!("n={n}: received (content masks) {:?}", rec.first));
        }
        for (k, &(i, j)) in pairs.iter().enumerate() {
            if rec.first[k] != (1 << i, 1 << j) {
                return fail("Combinations", "the initial distance call does not list the pairs in the documented order (i<j, lexicographic)", format!("n={n}: received (content masks) {:?}", rec.first));
            }
        }
    }
    if rec.foreign > 0 {
        return fail(site, "the distance callback receives a set that is not a non-empty union of input sets", format!("n={n}: {} such sets; later calls {:?}", rec.foreign, rec.later));
    }
    if rec.overlap > 0 {
        return fail(site, "the distance callback receives two different overlapping sets (not two live clusters)", format!("n={n}: later calls {:?}", rec.later));
    }
    // ---- cluster() / into_cluster()
    if obs.cluster.len() != n - 1 {
        return fail("Linkage::cluster", "number of merges is not n-1", format!("n={n}: {} merges", obs.cluster.len()));
    }
    if obs.into_cluster.len() != n - 1 {
        return fail("Linkage::into_cluster", "number of merges is not n-1", format!("n={n}: {} merges", obs.into_cluster.len()));
    }
    if obs.cluster != obs.into_cluster {
        return fail("Linkage::into_cluster", "cluster() and into_cluster() disagree", format!("cluster() = {:?}, into_cluster() = {:?}", fmt_merges(&obs.cluster), fmt_merges(&obs.into_cluster)));
    }
    // ---- binary tree over the inputs
    let mut used = [0u32; MAX_NODES];
    let mut size = [1usize; MAX_NODES];
    for (k, &(l, r, _, len)) in obs.cluster.iter().enumerate() {
        for x in [l, r] {
            if x >= n + k {
                return fail(site, "a merge refers to a cluster index that does not exist yet (index >= n + position)", format!("n={n}: merge {k} = ({l},{r}); merges {:?}", fmt_merges(&obs.cluster)));
            }
            used[x] += 1;
        }
        if l == r {
            return fail(site, "a merge joins a cluster with itself", format!("n={n}: merge {k} = ({l},{r})"));
        }
        if len != size[l] + size[r] {
            return fail("Cluster::len", "len() is not the sum of the sizes of the two parts", format!("n={n}: merge {k} = ({l},{r}) len {len}, parts {} + {}; merges {:?}", size[l], size[r], fmt_merges(&obs.cluster)));
        }
        size[n + k] = len;
    }
    for x in 0..(2 * n - 2) {
        if used[x] != 1 {
            return fail(site, "an input or intermediate cluster is not merged exactly once", format!("n={n}: index {x} is merged {} times; merges {:?}", used[x], fmt_merges(&obs.cluster)));
        }
    }
    if obs.cluster[n - 2].3 != n {
        return fail("Cluster::len", "the last merge does not contain all n inputs", format!("n={n}: last len {}", obs.cluster[n - 2].3));
    }
    // ---- indicies()
    {
        let mut s = obs.indicies.clone();
        s.sort_unstable();
        if s != (0..n).collect::<Vec<usize>>() {
            return fail("Linkage::indicies", "indicies() is not a permutation of 0..n", format!("n={n}: {:?}", obs.indicies));
        }
    }
    // ---- closest pair, reported distance, update rule: against the reference, up to the first tie
    let upto = rf.tie_at.unwrap_or(n - 1);
    for k in 0..upto {
        let (l, r, dbits, _) = obs.cluster[k];
        let (a, b, v, _) = rf.merges[k];
        let same_pair = (l.min(r), l.max(r)) == (a, b);
        if !same_pair {
            return fail(
                site,
                "a merge does not join the pair that is closest at that moment under the method's update rule",
                format!("n={n}: merge {k} joins ({l},{r}) at {}, the closest pair is ({a},{b}) at {v}", f32::from_bits(dbits)),
            );
        }
        if dbits != v.to_bits() {
            return fail(
                site,
                "the reported distance of a merge is not the distance of the joined pair under the method's update rule",
                format!("n={n}: merge {k} joins ({l},{r}) reporting {}, the distance of that pair is {v}", f32::from_bits(dbits)),
            );
        }
    }
    None
}

fn rust_snippet(f: &Facts, n: usize, method: Method, table: &Table) -> String {
    let mut s = String::new();
    s.push_str("use hpo::{HpoSet, stats::Linkage, term::HpoGroup, utils::Combinations};\n");
    s.push_str(&f.to_rust(false));
    s.push_str(&format!("let n = {n}usize; // input i is the singleton set {{{FIRST} + i}}\n"));
    s.push_str("// integer base distances between inputs i and j; the distance of two disjoint sets is the mean over members, scaled\n");
    let rows: Vec<String> = (0..n).map(|i| format!("{:?}", &table.ival[i][..n])).collect();
    s.push_str(&format!("let ival: [[u64; {n}]; {n}] = [{}];\n", rows.join(", ")));
    s.push_str(&format!("let scale = {}f64;\n", table.scale));
    let rows: Vec<String> = (0..n).map(|i| format!("{:?}", &table.inf[i][..n])).collect();
    s.push_str(&format!("let inf: [[bool; {n}]; {n}] = [{}]; // pairs of inputs at distance +inf\n", rows.join(", ")));
    s.push_str("let dist = |c: Combinations<HpoSet<'_>>| -> Vec<f32> { c.map(|(a, b)| {\n");
    s.push_str(&format!("    let ia: Vec<usize> = a.iter().map(|t| (hpo::annotations::AnnotationId::as_u32(&t.id()) - {FIRST}) as usize).collect();\n"));
    s.push_str(&format!("    let ib: Vec<usize> = b.iter().map(|t| (hpo::annotations::AnnotationId::as_u32(&t.id()) - {FIRST}) as usize).collect();\n"));
    s.push_str("    if ia.iter().any(|i| ib.contains(i)) { return 0.0; } // the library also asks for a merged set against itself\n");
    s.push_str("    if ia.iter().any(|i| ib.iter().any(|j| inf[*i][*j])) { return f32::INFINITY; }\n");
    if let Some(v) = table.fixed {
        s.push_str(&format!("    if true {{ return f32::from_bits({:#x}); }} // = {v:e}\n", v.to_bits()));
    }
    s.push_str("    let mut sum = 0u64; for i in &ia { for j in &ib { sum += ival[*i][*j]; } }\n");
    s.push_str("    (sum as f64 / (ia.len() * ib.len()) as f64 / scale) as f32\n}).collect() };\n");
    s.push_str(&format!("let sets = (0..n).map(|i| {{ let mut g = HpoGroup::new(); g.insert({FIRST}u32 + i as u32); HpoSet::new(&ont, g) }});\n"));
    s.push_str(&format!("let l = Linkage::{}(sets, dist);\n", method.name()));
    s.push_str("for c in l.cluster() { println!(\"{} {} {} {}\", c.lhs(), c.rhs(), c.distance(), c.len()); }\nprintln!(\"{:?}\", l.indicies());\n");
    s
}

// ------------------------------------------------------------------------------------------
// Exploration
// ------------------------------------------------------------------------------------------

struct Env {
    ont: Ontology,
    facts: Facts,
    rec: RefCell<Rec>,
}

#[derive(Default)]
struct Tally {
    runs: u64,
    exact: u64,
    ties: [u64; 4],
}

/// One clustering of n singletons under `method` with the given rank order; compares with the reference.
fn one(ctx: &mut Ctx, env: &Env, n: usize, rank_of_pair: &[usize], table: &Table, method: Method, tally: &mut Tally) {
    tally.runs += 1;
    env.rec.borrow_mut().clear();
    let rf = reference(n, method, table);
    let got = run_lib(&env.ont, n, method, table, &env.rec);
    let rec = env.rec.borrow();
    // the context keeps the detail of the first occurrence of a (site, signature) only: build it only then
    let detail = |extra: Value| {
        let exp: Vec<Value> = rf.merges.iter().map(|&(a, b, v, s)| json!({"pair": [a, b], "distance": fj(v), "len": s})).collect();
        json!({
            "n": n, "method": method.name(), "rank_of_pair (pairs in order (0,1),(0,2),..)": rank_of_pair,
            "base_distances": table.base_json(),
            "reference_merges": exp, "reference_first_tie_at_step": rf.tie_at,
            "observed": extra,
            "rust": rust_snippet(&env.facts, n, method, table),
        })
    };
    match got {
        Err(p) => {
            let new = !ctx.violations.contains_key(&format!("{}|panics", method.site()));
            ctx.violation(method.site(), "panics", if new { detail(json!({"panic": p})) } else { Value::Null });
        }
        Ok(obs) => {
            if rec.calls > 1 {
                // informational: later invocations (union asks new-set vs. every live set, itself included)
                if method == Method::Union {
                    ctx.bump("union_later_callback_invocations", (rec.calls - 1) as u64);
                    ctx.bump("union_callback_pairs_of_a_set_with_itself", rec.selfpairs as u64);
                } else {
                    ctx.bump("non_union_later_callback_invocations", (rec.calls - 1) as u64);
                }
            }
            match check(n, method, &obs, &rf, &rec) {
                Some(f) => {
                    let new = !ctx.violations.contains_key(&format!("{}|{}", f.site, f.sig));
                    let d = if new {
                        detail(json!({"difference": f.det, "cluster()": fmt_merges(&obs.cluster), "into_cluster()": fmt_merges(&obs.into_cluster), "indicies()": obs.indicies, "callback_invocations": rec.calls}))
                    } else {
                        Value::Null
                    };
                    ctx.violation(&f.site, f.sig, d);
                }
                None => {
                    if rf.tie_at.is_some() {
                        tally.ties[method as usize] += 1;
                    } else {
                        tally.exact += 1;
                    }
                }
            }
            // fingerprint: method + tree topology (sequence of unordered pairs); not for runs with a
            // tie, whose result legitimately depends on the library's hash iteration order
            if rf.tie_at.is_some() {
                return;
            }
            let mut bytes = [0u8; 1 + 2 * MAX_N];
            bytes[0] = method as u8;
            for (k, m) in obs.cluster.iter().enumerate().take(MAX_N - 1) {
                bytes[1 + 2 * k] = m.0.min(m.1) as u8;
                bytes[2 + 2 * k] = m.0.max(m.1) as u8;
            }
            bytes[1 + 2 * (MAX_N - 1)] = n as u8;
            ctx.outcome(fnv(&bytes));
        }
    }
}

/// All four (or the given) methods on one rank order; returns nothing, updates the tally.
fn one_order(ctx: &mut Ctx, env: &Env, n: usize, rank_of_pair: &[usize], fam: Family, methods: &[Method], tally: &mut Tally) {
    let table = Table::new(n, rank_of_pair, fam);
    for &m in methods {
        one(ctx, env, n, rank_of_pair, &table, m, tally);
    }
}

fn flush(ctx: &mut Ctx, n: usize, fam: Family, orders: u64, tally: &Tally) {
    ctx.states(orders);
    ctx.execs(tally.runs);
    ctx.validateds(tally.exact);
    // constructor + cluster() + into_cluster() + indicies() + n-1 model merge steps
    ctx.transitions(tally.runs * (4 + n as u64 - 1));
    if n >= 3 || fam == Family::InfTop {
        ctx.nontrivials(tally.exact);
    }
    for &m in &METHODS {
        let t = tally.ties[m as usize];
        if t > 0 {
            ctx.bump("ties", t);
            ctx.bump(&format!("ties/{}-values/n{n}/{}", fam.name(), m.name()), t);
        }
    }
}

fn next_permutation(p: &mut [usize]) -> bool {
    let n = p.len();
    if n < 2 {
        return false;
    }
    let mut i = n - 1;
    while i > 0 && p[i - 1] >= p[i] {
        i -= 1;
    }
    if i == 0 {
        return false;
    }
    let mut j = n - 1;
    while p[j] <= p[i - 1] {
        j -= 1;
    }
    p.swap(i - 1, j);
    p[i..].reverse();
    true
}

/// All arrangements of `k` distinct values out of 0..m, lexicographic.
fn arrangements(m: usize, k: usize) -> Vec<Vec<usize>> {
    fn rec(m: usize, k: usize, cur: &mut Vec<usize>, out: &mut Vec<Vec<usize>>) {
        if cur.len() == k {
            out.push(cur.clone());
            return;
        }
        for v in 0..m {
            if !cur.contains(&v) {
                cur.push(v);
                rec(m, k, cur, out);
                cur.pop();
            }
        }
    }
    let mut out = vec![];
    rec(m, k, &mut vec![], &mut out);
    out
}

/// Every rank order of the m pairs of n inputs: one case = all orders sharing a prefix (tail of <= 6 pairs).
fn exhaustive(ctx: &mut Ctx, env: &Env, n: usize, fam: Family, methods: &[Method]) {
    let m = n_pairs(n);
    let tail = m.min(if m <= 3 { 0 } else if m <= 6 { 4 } else { 6 });
    let prefixes = arrangements(m, m - tail);
    for pre in &prefixes {
        if !ctx.take() {
            continue;
        }
        let mut rest: Vec<usize> = (0..m).filter(|r| !pre.contains(r)).collect();
        let mut order = pre.clone();
        order.extend_from_slice(&rest);
        let mut tally = Tally::default();
        let mut orders = 0u64;
        loop {
            order[m - tail..].copy_from_slice(&rest);
            one_order(ctx, env, n, &order, fam, methods, &mut tally);
            orders += 1;
            if !next_permutation(&mut rest) {
                break;
            }
        }
        flush(ctx, n, fam, orders, &tally);
        ctx.sample(|| {
            let t = Table::new(n, &order, fam);
            let r = reference(n, methods[0], &t);
            json!({"n": n, "methods": methods.iter().map(|m| m.name()).collect::<Vec<_>>(), "rank_prefix": pre, "rank_orders_in_case": orders,
                "last_rank_order": order, "its_base_distances": t.base_json(),
                "its_reference_merges": r.merges.iter().map(|&(a, b, v, s)| json!([a, b, fj(v), s])).collect::<Vec<_>>()})
        });
    }
}

/// All permutations of 0..m with at most d inversions (= within d adjacent transpositions of the
/// identity), fewest inversions first; enumerated as inversion tables (`code[e]` <= e), no search.
fn for_each_inversion_table<F: FnMut(&[usize])>(m: usize, d: usize, mut f: F) {
    fn rec<F: FnMut(&[usize])>(i: usize, m: usize, left: usize, code: &mut Vec<usize>, f: &mut F) {
        if i == m {
            if left == 0 {
                f(code);
            }
            return;
        }
        // the remaining elements can absorb at most sum_{j>=i} j inversions
        let cap: usize = (i..m).sum();
        if left > cap {
            return;
        }
        for c in 0..=i.min(left) {
            code.push(c);
            rec(i + 1, m, left - c, code, f);
            code.pop();
        }
    }
    for total in 0..=d {
        rec(0, m, total, &mut Vec::with_capacity(m), &mut f);
    }
}

/// The permutation of an inversion table: element e is inserted so that it precedes exactly
/// code[e] smaller elements (so the permutation has sum(code) inversions).
fn perm_of_inversion_table(code: &[usize]) -> Vec<usize> {
    let mut p: Vec<usize> = Vec::with_capacity(code.len());
    for (e, &c) in code.iter().enumerate() {
        let pos = p.len() - c;
        p.insert(pos, e);
    }
    p
}

/// Number of permutations of m elements with at most d inversions (Mahonian numbers, by DP).
fn count_near(m: usize, d: usize) -> u64 {
    let mut ways = vec![0u64; d + 1];
    ways[0] = 1;
    for e in 0..m {
        let mut next = vec![0u64; d + 1];
        for k in 0..=d {
            for c in 0..=e.min(k) {
                next[k] += ways[k - c];
            }
        }
        ways = next;
    }
    ways.iter().sum()
}

fn base_orders(m: usize) -> Vec<(&'static str, Vec<usize>)> {
    let asc: Vec<usize> = (0..m).collect();
    let desc: Vec<usize> = (0..m).rev().collect();
    let mut inter = Vec::with_capacity(m);
    let (mut lo, mut hi) = (0usize, m);
    while lo < hi {
        inter.push(lo);
        lo += 1;
        if lo < hi {
            hi -= 1;
            inter.push(hi);
        }
    }
    vec![("ascending", asc), ("descending", desc), ("interleaved", inter)]
}

/// Rank orders within d adjacent transpositions (of the sorted list of pairs) of three base orders.
/// `sorted[r]` = pair index with rank r = base[q[r]] for q near the identity.
fn near_orders(ctx: &mut Ctx, env: &Env, n: usize, d: usize, methods: &[Method]) -> u64 {
    let m = n_pairs(n);
    let bases = base_orders(m);
    let mut cases = 0u64;
    for_each_inversion_table(m, d, |code| {
        cases += 1;
        if !ctx.take() {
            return;
        }
        let q = perm_of_inversion_table(code);
        let mut tally = Tally::default();
        let mut last = vec![];
        for (_, base) in &bases {
            let mut rank_of_pair = vec![0usize; m];
            for r in 0..m {
                rank_of_pair[base[q[r]]] = r;
            }
            one_order(ctx, env, n, &rank_of_pair, Family::Spread, methods, &mut tally);
            last = rank_of_pair;
        }
        flush(ctx, n, Family::Spread, bases.len() as u64, &tally);
        ctx.sample(|| json!({"n": n, "transpositions_applied (as permutation of sorted positions)": q, "base_orders": bases.iter().map(|b| b.0).collect::<Vec<_>>(), "rank_of_pair_for_last_base": last}));
    });
    cases
}

pub fn run(ctx: &mut Ctx) {
    ctx.rule = "an input = (n singleton sets, a rank order of the n(n-1)/2 pairwise distances, a linkage method); the pair of rank r gets the dyadic base distance ((r+1)*2^m + 2^r)/2^(m+6) (m = number of pairs; spaces named linear-/geometric-values use (r+1)/64 resp. 3^r/2^16 instead; spaces named one-infinite-distance put the pair of the largest rank at f32::INFINITY; n2/explicit-distance-values uses the listed f32 values); \
        a case = a block of rank orders sharing a prefix (n <= 5) or one near-base rank order applied to three base orders (n = 6,7), each run under the listed methods; inputs are distinct by construction; \
        states = rank orders, executions = clusterings, validated = clusterings compared merge by merge (pair, distance, len) with the reference without meeting a tie; non-trivial = validated and (n >= 3 \
        (at least one distance to a newly formed cluster decides or is reported by a later merge) or a border value (+inf, 0, f32::MAX, f32::MIN_POSITIVE) is among the distances); extra.ties = clusterings where the reference met two live pairs at the same minimal distance (exact comparison stopped at that step, structural checks still applied)"
        .into();
    ctx.assumptions = vec![
        "symmetric distance functions only: the callback is a pure function of the unordered content of the two sets".into(),
        "no ties are constructed; where the size-weighted/plain means produce equal f32 values at the minimum, the run is counted in extra.ties and compared only up to that step".into(),
        "`average` is checked against the documented rule (mean of the distances of the two merged parts, not size-weighted UPGMA)".into(),
        "for `union` the user distance of (merged set, other live set) is the size-weighted mean of the base distances between members, computed by the same function in the callback and in the reference".into(),
        "only the FIRST callback invocation is subject to the accounting oracle; later invocations are recorded (union also asks for the merged set against itself - counted in extra, ignored by the library, not a violation)".into(),
        "(lhs, rhs) of a merge is compared as an unordered pair".into(),
        "+inf, 0.0, f32::MAX and f32::MIN_POSITIVE are legal distances (e.g. -ln of a similarity of 0 is +inf); the merge at +inf must be reported at +inf; NaN and negative values are not used".into(),
        "n = 0 and n = 1 are don't-care: executed under catch_unwind, nothing is demanded".into(),
        "set content: singletons over a flat Builder ontology (root 1, children 2..=9, build_minimal); clustering never looks at the ontology structure itself".into(),
    ];

    // ---- set-up
    let mut facts = Facts { terms: vec![Facts::term(ROOT, "root")], edges: vec![], anns: vec![], version: (0, 0, 0) };
    for i in 0..N_CHILDREN {
        let id = FIRST + i as u32;
        facts.terms.push(Facts::term(id, &format!("T{id}")));
        facts.edges.push((id, ROOT));
    }
    let ont = match drive::build(&facts, Mode::Minimal) {
        Ok(o) => o,
        Err(e) => {
            ctx.space("setup", "flat ontology with 9 terms");
            ctx.violation("Builder", "construction fails on valid facts", json!({"facts": facts.to_json(), "observed": e}));
            return;
        }
    };
    let env = Env { ont, facts, rec: RefCell::new(Rec::default()) };
    for n in 2..=MAX_N {
        selfcheck_values(n, Family::Spread);
        selfcheck_values(n, Family::Linear);
        if n <= 5 {
            selfcheck_values(n, Family::Geometric);
        }
    }
    let thorough = ctx.tier.thorough();

    // ---- n = 2, 3, 4: every rank order, all four methods
    for n in 2..=4usize {
        let m = n_pairs(n);
        let total: u64 = (1..=m as u64).product();
        ctx.space(&format!("n{n}/all-rank-orders/all-methods"), &format!("n = {n}: all {total} rank orders of the {m} pairwise distances x 4 methods"));
        exhaustive(ctx, &env, n, Family::Spread, &METHODS);
    }

    // ---- one infinite distance: the pair of the largest rank is at +inf, n = 2, 3, 4 (n = 5: thorough, below)
    let infinite = |ctx: &mut Ctx, n: usize| {
        let m = n_pairs(n);
        let total: u64 = (1..=m as u64).product();
        ctx.space(
            &format!("n{n}/all-rank-orders/one-infinite-distance/all-methods"),
            &format!("n = {n}: all {total} rank orders of the {m} pairwise distances, the pair of the largest rank at f32::INFINITY (a set pair containing it is at +inf too) x 4 methods"),
        );
        exhaustive(ctx, &env, n, Family::InfTop, &METHODS);
    };
    for n in 2..=4usize {
        infinite(ctx, n);
    }

    // ---- n = 2 with explicit border values of the single distance
    ctx.space("n2/explicit-distance-values/all-methods", "n = 2: the distance of the two inputs in {0.5, +inf, 0.0, f32::MAX, f32::MIN_POSITIVE} x 4 methods (NaN is not a distance and is left out)");
    for v in [0.5f32, f32::INFINITY, 0.0, f32::MAX, f32::MIN_POSITIVE] {
        if !ctx.take() {
            continue;
        }
        let table = Table::fixed2(v);
        let mut tally = Tally::default();
        for &method in &METHODS {
            one(ctx, &env, 2, &[0], &table, method, &mut tally);
        }
        flush(ctx, 2, Family::Spread, 1, &tally);
        ctx.nontrivials(tally.exact); // a border value of the distance is what makes these cases interesting
        ctx.sample(|| json!({"n": 2, "distance": fj(v), "distance_bits": format!("{:#x}", v.to_bits()), "methods": METHODS.iter().map(|m| m.name()).collect::<Vec<_>>()}));
    }

    // ---- n = 0, 1: don't-care, must merely not take the harness down
    ctx.space("n0-n1/dont-care", "n in {0,1} x 4 methods, executed under catch_unwind, nothing demanded");
    for n in 0..=1usize {
        for &method in &METHODS {
            if !ctx.take() {
                continue;
            }
            ctx.state();
            ctx.exec();
            ctx.transitions(4);
            let table = Table::new(n, &[], Family::Spread);
            env.rec.borrow_mut().clear();
            match run_lib(&env.ont, n, method, &table, &env.rec) {
                Ok(obs) => {
                    ctx.bump("dontcare_n01_returned", 1);
                    ctx.sample(|| json!({"n": n, "method": method.name(), "merges": obs.cluster.len(), "indicies": obs.indicies, "callback_invocations": env.rec.borrow().calls}));
                }
                Err(p) => {
                    ctx.bump("dontcare_n01_panicked", 1);
                    ctx.note(&format!("don't-care: Linkage::{} with n={n} panics: {p}", method.name()));
                }
            }
        }
    }

    // ---- other value families (only average / union can tell them apart): n = 3, 4 here, n = 5 (thorough) below
    let families = |ctx: &mut Ctx, n: usize| {
        let m = n_pairs(n);
        let total: u64 = (1..=m as u64).product();
        for fam in [Family::Linear, Family::Geometric] {
            ctx.space(
                &format!("n{n}/all-rank-orders/{}-values/average+union", fam.name()),
                &format!("n = {n}: all {total} rank orders of the {m} pairwise distances with {} base values x {{average, union}}", if fam == Family::Linear { "(rank+1)/64" } else { "3^rank/2^16" }),
            );
            exhaustive(ctx, &env, n, fam, &[Method::Average, Method::Union]);
        }
    };
    families(ctx, 3);
    families(ctx, 4);

    // ---- n = 5: all 10! rank orders
    for &method in &METHODS {
        ctx.space(&format!("n5/all-rank-orders/{}", method.name()), &format!("n = 5: all 3628800 rank orders of the 10 pairwise distances, method {}; one case = 720 orders sharing the first 4 ranks", method.name()));
        exhaustive(ctx, &env, 5, Family::Spread, &[method]);
    }
    if thorough {
        families(ctx, 5);
        infinite(ctx, 5);
    }

    // ---- n = 6, 7: Kendall-tau balls around three base orders
    for n in 6..=MAX_N {
        let m = n_pairs(n);
        let d = match (thorough, n) {
            (false, _) => 3,
            (true, 6) => 8,
            (true, _) => 7,
        };
        let expect = count_near(m, d);
        ctx.space(
            &format!("n{n}/near-base-orders/all-methods"),
            &format!("n = {n}: all {expect} rank orders within {d} adjacent transpositions of each of 3 base orders (ascending, descending, interleaved) of the {m} pairs x 4 methods"),
        );
        let cases = near_orders(ctx, &env, n, d, &METHODS);
        assert_eq!(cases, expect, "C17 harness: enumerator of near-identity permutations disagrees with the Mahonian count");
    }
}
