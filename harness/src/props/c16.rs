//! C16 - the ontology is a function of the facts, not of the order they are supplied.
//! Metamorphic: all linearisations of one fact set must give one observation (equal to the model's).

use super::c01::{POOL, POOL_ROOTS};
use super::common::AnnGroups;
use crate::ctx::Ctx;
use crate::drive;
use crate::encode::{self, EncOpts, Sections};
use crate::jax::{self, JaxOpts};
use crate::model::{AnnFact, Facts, Mode, RefOnt};
use crate::obs::Obs;
use crate::space::{all_dags, apply_perm, permutations, rotations_and_reverse, within_transpositions};
use hpo::Ontology;
use serde_json::{json, Value};

/// Orders explored for a list of k elements: all k! when k <= full_upto, otherwise every order within
/// `d` adjacent transpositions of the canonical one plus rotations and the reverse.
fn order_family(k: usize, full_upto: usize, d: usize) -> Vec<Vec<usize>> {
    if k <= full_upto {
        permutations(k)
    } else {
        let mut v = within_transpositions(k, d);
        for r in rotations_and_reverse(k) {
            if !v.contains(&r) {
                v.push(r);
            }
        }
        v
    }
}

struct Class {
    first: Option<(Obs, String)>,
    n: u64,
    /// compare the first member with the model as well (false: the members only have to agree with each other)
    against_model: bool,
}

impl Class {
    fn new() -> Class {
        Class { first: None, n: 0, against_model: true }
    }
    /// A class whose members must agree with each other, whatever they are: for inputs whose MEANING no
    /// property of this check fixes (what a NOT row does to a positive row of the same disease and term), only
    /// that the meaning does not depend on the order.
    fn among_themselves() -> Class {
        Class { first: None, n: 0, against_model: false }
    }
    /// Add the observation of one linearisation; report if it differs from the first one.
    fn add(&mut self, ctx: &mut Ctx, ont: Result<Ontology, String>, exp: &Obs, path: &str, what: &str, case: &dyn Fn() -> Value) {
        ctx.exec();
        ctx.validated();
        self.n += 1;
        let ont = match ont {
            Ok(o) => o,
            Err(e) => {
                ctx.violation(path, &format!("[{path}] construction fails for one supply order of valid facts"), json!({"case": case(), "order": what, "observed": e}));
                return;
            }
        };
        match Obs::of(&ont) {
            Err(inc) => ctx.violation(&inc.site, &format!("[{path}] read API inconsistent or panicking"), json!({"case": case(), "order": what, "observed": inc.what})),
            Ok(obs) => {
                if let Some((first, first_what)) = &self.first {
                    if let Some((site, sig, det)) = obs.diff(first, true) {
                        ctx.violation(&site, &format!("[{path}] result depends on the supply order: {sig}"), json!({"case": case(), "order_a": first_what, "order_b": what, "difference (b vs a)": det}));
                    }
                } else {
                    if self.against_model {
                        if let Some((site, sig, det)) = obs.diff(exp, false) {
                            ctx.violation(&site, &format!("[{path}] {sig}"), json!({"case": case(), "order": what, "difference": det}));
                        }
                    }
                    ctx.outcome(obs.fingerprint());
                    self.first = Some((obs, what.to_string()));
                }
            }
        }
    }
}

fn from_bytes(bytes: &[u8]) -> Result<Ontology, String> {
    match drive::from_bytes(bytes) {
        Ok(Ok(o)) => Ok(o),
        Ok(Err(e)) => Err(e),
        Err(p) => Err(format!("panic: {p}")),
    }
}

/// Facts through the independent encoder and the decoder. The statement speaks of the order of the RECORDS of a
/// section; a decoder that insists on ascending ids INSIDE a record is not judged: a refused file whose in-record
/// lists are not ascending is written again with ascending ones (records in the same order).
fn from_facts_bytes(f: &Facts, version: u8) -> Result<Ontology, String> {
    super::c10::decode_tolerant(f, &EncOpts::list_order(version))
}

fn from_jax(f: &Facts, o: &JaxOpts, transitive: bool) -> Result<Ontology, String> {
    // (only the gene file the loader is documented to read is present: which files a loader opens is C09's question)
    match jax::load_with(&jax::render(f, o), transitive, jax::OtherGeneFile::Absent) {
        Ok(Ok(o)) => Ok(o),
        Ok(Err(e)) => Err(e),
        Err(p) => Err(format!("panic: {p}")),
    }
}

pub fn run(ctx: &mut Ctx) {
    run_spaces(ctx);
    // refusals forgiven by c10::decode_tolerant (a file with non-ascending ids inside a record refused, the same facts
    // with ascending lists accepted)
    let n = super::c10::take_ascending_retries();
    if n > 0 {
        ctx.bump("refused: ids inside a record not ascending, the same facts with ascending lists accepted", n);
    }
}

fn run_spaces(ctx: &mut Ctx) {
    ctx.rule = "case = one fact set (labelled DAG + annotated subset S with records of all three kinds) with every listed linearisation; the set of distinct observations over the linearisations must be a singleton equal to the model; distinct by construction; non-trivial = fact set with more than one linearisation and at least one is_a link".into();
    ctx.assumptions = vec!["one name per id, one replacement per term".into(), "only the iteration order of terms/genes/diseases may differ: observations are sorted before comparison".into(),
        "binary files: the statement is about the order of the records of a section; a decoder that refuses descending ids INSIDE a record is given the same records with ascending ids".into(),
        "text files with NOT-qualified rows: what a NOT row means for a positive row of the same disease and term is not fixed here; those files only have to agree with each other over all their row orders".into(),
    ];
    let thorough = ctx.tier.thorough();

    // ---- Builder: permutations of terms, of links, of annotations
    let max_n = if thorough { 5 } else { 4 };
    for n in 1..=max_n {
        let dags = all_dags(n);
        let subsets: Vec<u32> = if n <= 3 || (thorough && n <= 4) { (0..(1u32 << n)).collect() } else { vec![0b0001, 0b0110, 0b1010, (1 << n) - 1, 1 << (n - 1)] };
        ctx.space(&format!("builder/D{n}"), &format!("{} labelled DAGs x {} annotated subsets; terms: all n! orders (n<=4) else within 2 transpositions+rotations; links: all e! (e<=4) else within 2 transpositions; annotation facts: within 2 transpositions + rotations + reverse, and every order of the facts of one record (<= 4 facts) with the others in place; joint permutations of terms x links x three annotation facts when n, e <= 3", dags.len(), subsets.len()));
        for d in &dags {
            for &s in &subsets {
                if !ctx.take() {
                    continue;
                }
                ctx.state();
                let base0 = Facts::from_dag(d, &POOL);
                let ids: Vec<u32> = base0.terms.iter().map(|t| t.id).collect();
                let groups = AnnGroups::new(s, &ids);
                // besides the annotation facts: the bare registration (add_gene / add_*_disease) of records that are
                // ALSO annotated - registering a record before or after annotating it is the same set of facts
                let mut anns = groups.interleaved();
                for rec in [super::common::G1, super::common::O1, super::common::R1] {
                    anns.insert(anns.len() / 2, Facts::ann(rec.0, rec.1, rec.2, None));
                }
                let base = Facts { anns, ..base0 };
                let r = RefOnt::derive(&base);
                let exp = Obs::expected(&r, Mode::Minimal);
                let (nt, ne, na) = (base.terms.len(), base.edges.len(), base.anns.len());
                if ne >= 1 {
                    ctx.nontrivial();
                }
                let case = || json!({"facts": base.to_json()});
                let mut class = Class::new();
                let torders = order_family(nt, 4, 2);
                let eorders = order_family(ne, 4, 2);
                let aorders = order_family(na, 5, 2);
                for p in &torders {
                    let f = Facts { terms: apply_perm(&base.terms, p), ..base.clone() };
                    ctx.transitions(f.n_steps());
                    class.add(ctx, drive::build(&f, Mode::Minimal), &exp, "builder", &format!("terms {p:?}"), &case);
                }
                for p in &eorders {
                    let f = Facts { edges: apply_perm(&base.edges, p), ..base.clone() };
                    ctx.transitions(f.n_steps());
                    class.add(ctx, drive::build(&f, Mode::Minimal), &exp, "builder", &format!("links {p:?}"), &case);
                }
                for p in &aorders {
                    let f = Facts { anns: apply_perm(&base.anns, p), ..base.clone() };
                    ctx.transitions(f.n_steps());
                    class.add(ctx, drive::build(&f, Mode::Minimal), &exp, "builder", &format!("annotations {p:?}"), &case);
                }
                // the facts of ONE record in every order while all other facts keep their places (gene 11, OMIM 600001,
                // ORPHA 77 in turn; up to 4 facts each)
                let positions_of = |rec: (crate::model::Kind, u32, &str)| -> Vec<usize> { base.anns.iter().enumerate().filter(|(_, a)| a.kind == rec.0 && a.id == rec.1).map(|(i, _)| i).collect() };
                let mut record_orders: Vec<Vec<usize>> = vec![];
                for rec in [super::common::G1, super::common::O1, super::common::R1] {
                    let pos = positions_of(rec);
                    if pos.len() < 2 || pos.len() > 4 {
                        continue;
                    }
                    for p in permutations(pos.len()).into_iter().skip(1) {
                        let mut order: Vec<usize> = (0..na).collect();
                        for (k, &slot) in pos.iter().enumerate() {
                            order[slot] = pos[p[k]];
                        }
                        record_orders.push(order);
                    }
                }
                for p in &record_orders {
                    let f = Facts { anns: apply_perm(&base.anns, p), ..base.clone() };
                    ctx.transitions(f.n_steps());
                    class.add(ctx, drive::build(&f, Mode::Minimal), &exp, "builder", &format!("facts of one record permuted: annotations {p:?}"), &case);
                }
                // jointly: every term order x every link order x every order of the first (up to three) facts of
                // gene 11 / OMIM 600001 that carry a term (an earlier version of this loop required <= 3 annotation
                // facts in total, which never happens - it never ran)
                if nt <= 3 && ne <= 3 {
                    let mut pos: Vec<usize> = positions_of(super::common::G1).into_iter().chain(positions_of(super::common::O1)).filter(|i| base.anns[*i].term.is_some()).collect();
                    pos.truncate(3);
                    let aperms: Vec<Vec<usize>> = permutations(pos.len())
                        .into_iter()
                        .map(|p| {
                            let mut order: Vec<usize> = (0..na).collect();
                            for (k, &slot) in pos.iter().enumerate() {
                                order[slot] = pos[p[k]];
                            }
                            order
                        })
                        .collect();
                    for tp in &torders {
                        for ep in &eorders {
                            for ap in &aperms {
                                let f = Facts { terms: apply_perm(&base.terms, tp), edges: apply_perm(&base.edges, ep), anns: apply_perm(&base.anns, ap), ..base.clone() };
                                ctx.transitions(f.n_steps());
                                class.add(ctx, drive::build(&f, Mode::Minimal), &exp, "builder", &format!("terms {tp:?} links {ep:?} annotations {ap:?}"), &case);
                            }
                        }
                    }
                }
                ctx.bump("largest_class", 0);
                let nclass = class.n;
                ctx.extra.entry("largest_class".into()).and_modify(|m| *m = (*m).max(nclass)).or_insert(nclass);
                ctx.sample(|| json!({"dag": d.describe(), "ids": ids, "S": crate::space::bits(s, n), "linearisations": nclass}));
            }
        }
    }

    // ---- structured large graphs: five supply orders of the terms (Builder, binary v3, hp.obo) must agree
    {
        let family = super::common::large_family();
        ctx.space("large-structured/orders", &format!("{} large shapes x 5 term orders via Builder, binary v3 and hp.obo (the class of each path must be a singleton equal to the model)", family.len()));
        for (base, what) in &family {
            if !ctx.take() {
                continue;
            }
            ctx.state();
            ctx.nontrivial();
            let r = RefOnt::derive(base);
            let n = base.terms.len();
            let case = || json!({"shape": what, "n_terms": n});
            let (mut cb, mut cbin, mut cobo) = (Class::new(), Class::new(), Class::new());
            let exp_min = Obs::expected(&r, Mode::Minimal);
            let exp_def = Obs::expected(&r, Mode::Defaults);
            for (order, oname) in super::common::large_orders(n) {
                let f = Facts { terms: apply_perm(&base.terms, &order), ..base.clone() };
                ctx.transitions(3 * f.n_steps());
                cb.add(ctx, drive::build(&f, Mode::Minimal), &exp_min, "builder", oname, &case);
                cbin.add(ctx, from_facts_bytes(&f, 3), &exp_def, "binary v3", oname, &case);
                cobo.add(ctx, from_jax(&f, &JaxOpts::default(), false), &exp_def, "jax", oname, &case);
            }
            ctx.sample(|| json!({"shape": what, "n_terms": n, "orders": 5}));
        }
        jax::cleanup();
    }

    // ---- many records on one term: 40 genes, 40 OMIM and 40 ORPHA diseases annotated to the last term of a large
    // shape (every 4th also to the middle term, every 5th also to the first term below HP:118), the annotation
    // facts in five supply orders. A per-term record collection with a fast path for ascending ids, or an early exit
    // that compares lengths, depends on the order only when more records reach one term than it holds inline.
    {
        use crate::model::Kind;
        let family: Vec<(Facts, String)> = super::common::large_family().into_iter().step_by(6).collect();
        ctx.space("large-structured/annotation-orders", &format!("{} large shapes (every 6th of the family) with 40 genes (ids 1..=40), 40 OMIM (600001..) and 40 ORPHA diseases (ids 1..=40) on the last term, every 4th also on the middle term, every 5th also on the third term x 5 orders of the annotation facts (ascending, descending, rotated, even/odd, inside-out) = record order of the binary sections = row order of the text files, via Builder, binary v3 and the text loader (the class of each path must be a singleton equal to the model)", family.len()));
        for (shape, what) in &family {
            if !ctx.take() {
                continue;
            }
            ctx.state();
            ctx.nontrivial();
            let n = shape.terms.len();
            let (last, mid, third) = (shape.terms[n - 1].id, shape.terms[n / 2].id, shape.terms[2].id);
            let mut base = shape.clone();
            for j in 1..=40u32 {
                for (kind, id, name) in [(Kind::Gene, j, format!("G{j}")), (Kind::Omim, 600_000 + j, format!("Omim {j}")), (Kind::Orpha, j, format!("Orpha {j}"))] {
                    base.anns.push(Facts::ann(kind, id, &name, Some(last)));
                    if j % 4 == 0 {
                        base.anns.push(Facts::ann(kind, id, &name, Some(mid)));
                    }
                    if j % 5 == 0 {
                        base.anns.push(Facts::ann(kind, id, &name, Some(third)));
                    }
                }
            }
            let r = RefOnt::derive(&base);
            let na = base.anns.len();
            let case = || json!({"shape": what, "n_terms": n, "records": "40 of each kind on the last term", "annotation_facts": na});
            let (mut cb, mut cbin, mut ctxt) = (Class::new(), Class::new(), Class::new());
            let exp_min = Obs::expected(&r, Mode::Minimal);
            let exp_def = Obs::expected(&r, Mode::Defaults);
            for (order, oname) in super::common::large_orders(na) {
                let f = Facts { anns: apply_perm(&base.anns, &order), ..base.clone() };
                ctx.transitions(3 * f.n_steps());
                cb.add(ctx, drive::build(&f, Mode::Minimal), &exp_min, "builder", oname, &case);
                cbin.add(ctx, from_facts_bytes(&f, 3), &exp_def, "binary v3", oname, &case);
                ctxt.add(ctx, from_jax(&f, &JaxOpts::default(), false), &exp_def, "jax", oname, &case);
            }
            ctx.sample(|| json!({"shape": what, "n_terms": n, "annotation_facts": na, "orders": 5}));
        }
        jax::cleanup();
    }

    // ---- term ids over the whole 7-digit range (next to the end of the id table and next to the block sizes a
    // table that grows on demand would use): every rotation of the supply order, and the reversed order
    {
        use crate::model::Kind;
        let border: [u32; 14] = [2, 4095, 4096, 4097, 8192, 65_535, 65_536, 1_048_575, 1_048_576, 1_048_577, 5_000_000, 8_388_608, 9_999_998, 9_999_999];
        let mut base = Facts::default();
        base.version = (2024, 2, 29);
        base.terms.push(Facts::term(1, "All"));
        base.terms.push(Facts::term(118, "Phenotypic abnormality"));
        base.edges.push((118, 1));
        for (i, id) in border.iter().enumerate() {
            base.terms.push(Facts::term(*id, &format!("Leaf {id}")));
            // every third border term hangs below the previous one, the others below HP:118
            base.edges.push((*id, if i % 3 == 2 { border[i - 1] } else { 118 }));
            base.anns.push(Facts::ann(Kind::Gene, 5000 + i as u32, &format!("BG{i}"), Some(*id)));
            if i % 2 == 0 {
                base.anns.push(Facts::ann(Kind::Omim, 700_000 + i as u32, &format!("Border disease {id}"), Some(*id)));
            } else {
                base.anns.push(Facts::ann(Kind::Orpha, 700_000 + i as u32, &format!("Border orpha {id}"), Some(*id)));
            }
        }
        let n = base.terms.len();
        ctx.space("ids-over-the-whole-range/orders", &format!("terms 1, 118 and {border:?} (leaves and two-step chains below 118; a gene and a disease on each) x every rotation of the term order + the reversed order, via Builder, binary v3 and hp.obo (the class of each path must be a singleton equal to the model)"));
        let r = RefOnt::derive(&base);
        let exp_min = Obs::expected(&r, Mode::Minimal);
        let exp_def = Obs::expected(&r, Mode::Defaults);
        for rot in 0..=n {
            if !ctx.take() {
                continue;
            }
            ctx.state();
            ctx.nontrivial();
            let mut order: Vec<usize> = (0..n).collect();
            if rot == n {
                order.reverse();
            } else {
                order.rotate_left(rot);
            }
            let oname = format!("term order {:?}", order.iter().map(|i| base.terms[*i].id).collect::<Vec<_>>());
            let case = || json!({"facts": base.to_json(), "order": oname});
            let f = Facts { terms: apply_perm(&base.terms, &order), ..base.clone() };
            ctx.transitions(3 * f.n_steps());
            // each order is its own class against the model (the model is order-free)
            Class::new().add(ctx, drive::build(&f, Mode::Minimal), &exp_min, "builder", &oname, &case);
            Class::new().add(ctx, from_facts_bytes(&f, 3), &exp_def, "binary v3", &oname, &case);
            Class::new().add(ctx, from_jax(&f, &JaxOpts::default(), false), &exp_def, "jax", &oname, &case);
            ctx.sample(|| json!({"order": oname}));
        }
        jax::cleanup();
    }

    // ---- binary v3: permutations of the records of every section and of the ids inside records
    {
        let n = if thorough { 4 } else { 3 };
        for nn in 2..=n {
            let dags = all_dags(nn);
            ctx.space(&format!("binary/D{nn}"), &format!("{} labelled DAGs over {:?} x 2^{nn} subsets; v3: all orders of term records, parent records, gene, omim and orpha records (one section at a time), all facts reversed (record order, and the ids inside records unless the decoder refuses those); v1/v2: all term-record orders, reversed sections; odd subsets carry obsolete / replacement flags", dags.len(), &POOL_ROOTS[..nn]));
            for d in &dags {
                for s in 0..(1u32 << nn) {
                    if !ctx.take() {
                        continue;
                    }
                    ctx.state();
                    let mut base = Facts::from_dag(d, &POOL_ROOTS);
                    base.version = (2024, 2, 29);
                    let ids: Vec<u32> = base.terms.iter().map(|t| t.id).collect();
                    let groups = AnnGroups::new(s, &ids);
                    // a second omim and orpha record so that those sections have something to permute
                    let mut anns = groups.interleaved();
                    anns.push(Facts::ann(crate::model::Kind::Omim, 600_003, "Disease three", Some(ids[0])));
                    anns.push(Facts::ann(crate::model::Kind::Orpha, 88, "Orpha extra", Some(ids[nn - 1])));
                    let mut base = Facts { anns, ..base };
                    // odd subsets: the last term is obsolete and replaced by the one before it, which in turn names
                    // the last one as replacement without being obsolete (flags must survive any record order)
                    if s % 2 == 1 && nn >= 3 {
                        base.terms[nn - 1].obsolete = true;
                        base.terms[nn - 1].replacement = Some(ids[nn - 2]);
                        base.terms[nn - 2].replacement = Some(ids[nn - 1]);
                    }
                    if base.edges.len() >= 1 {
                        ctx.nontrivial();
                    }
                    let case = || json!({"facts": base.to_json()});
                    for version in [3u8, 2, 1] {
                        let pf = encode::project(&base, version);
                        let r = RefOnt::derive(&pf);
                        let exp = Obs::expected(&r, Mode::Defaults);
                        let secs = Sections::from_facts(&pf, &EncOpts::list_order(version));
                        let mut class = Class::new();
                        ctx.transitions(pf.n_steps());
                        class.add(ctx, from_bytes(&secs.to_bytes()), &exp, &format!("binary v{version}"), "canonical", &case);
                        let mut variants: Vec<(Sections, String)> = vec![];
                        if version == 3 {
                            for p in permutations(secs.terms.len()).into_iter().skip(1) {
                                variants.push((Sections { terms: apply_perm(&secs.terms, &p), ..secs.clone() }, format!("term records {p:?}")));
                            }
                            for p in permutations(secs.parents.len()).into_iter().skip(1) {
                                variants.push((Sections { parents: apply_perm(&secs.parents, &p), ..secs.clone() }, format!("parent records {p:?}")));
                            }
                            for k in 0..3 {
                                for p in permutations(secs.recs[k].len()).into_iter().skip(1) {
                                    let mut x = secs.clone();
                                    x.recs[k] = apply_perm(&secs.recs[k], &p);
                                    variants.push((x, format!("records of section {k} {p:?}")));
                                }
                            }
                        } else {
                            for p in permutations(secs.terms.len()).into_iter().skip(1) {
                                variants.push((Sections { terms: apply_perm(&secs.terms, &p), ..secs.clone() }, format!("term records {p:?}")));
                            }
                            let mut x = secs.clone();
                            x.terms.reverse();
                            x.parents.reverse();
                            for k in 0..3 {
                                x.recs[k].reverse();
                            }
                            variants.push((x, "all sections reversed".into()));
                        }
                        for (x, what) in variants {
                            ctx.transitions(pf.n_steps());
                            class.add(ctx, from_bytes(&x.to_bytes()), &exp, &format!("binary v{version}"), &what, &case);
                        }
                        // facts reversed: the parent and gene / disease records in reverse order AND the ids inside
                        // every record descending (the statement covers the first; a decoder that refuses the second
                        // gets the same file with ascending ids inside the records)
                        let mut g = pf.clone();
                        g.edges.reverse();
                        g.anns.reverse();
                        ctx.transitions(pf.n_steps());
                        class.add(ctx, from_facts_bytes(&g, version), &exp, &format!("binary v{version}"), "facts reversed (record order and ids inside records)", &case);
                    }
                    ctx.sample(|| json!({"dag": d.describe(), "ids": ids, "S": crate::space::bits(s, nn)}));
                }
            }
        }
    }

    // ---- text files: stanza orders and row orders
    {
        let n = 3;
        let dags = all_dags(n);
        ctx.space("jax/D3", &format!("{} labelled DAGs over {:?} x 8 subsets; all stanza orders, all gene-row orders (<=4 rows, rotations above), all disease-row orders (<=4 rows, rotations above), both loaders; odd subsets carry a replacement chain", dags.len(), &POOL_ROOTS[..n]));
        for d in &dags {
            for s in 0..(1u32 << n) {
                if !ctx.take() {
                    continue;
                }
                ctx.state();
                let mut base = Facts::from_dag(d, &POOL_ROOTS);
                base.version = (2024, 2, 29);
                let ids: Vec<u32> = base.terms.iter().map(|t| t.id).collect();
                let groups = AnnGroups::new(s, &ids);
                let mut anns: Vec<AnnFact> = groups.interleaved().into_iter().filter(|a| a.term.is_some()).collect();
                // an OMIM disease with the same numeric id as ORPHA:77, on the same terms (rows can become adjacent)
                let twins: Vec<AnnFact> = anns.iter().filter(|a| a.kind == crate::model::Kind::Orpha && a.id == 77).map(|a| Facts::ann(crate::model::Kind::Omim, 77, "Omim seventy-seven", a.term)).collect();
                anns.retain(|a| !(a.kind == crate::model::Kind::Orpha && a.id == 78));
                anns.extend(twins);
                // two more genes on the terms of gene 11 whose ids are congruent to 11 modulo 2^8 and modulo 2^16 (a key
                // that packs or narrows the gene id must not let two of these rows pass for one)
                let cong: Vec<AnnFact> = anns.iter().filter(|a| a.kind == crate::model::Kind::Gene && a.id == 11).flat_map(|a| [Facts::ann(crate::model::Kind::Gene, 11 + 256, "GENE267", a.term), Facts::ann(crate::model::Kind::Gene, 11 + 65_536, "GENE65547", a.term)]).collect();
                anns.extend(cong);
                // subsets 2, 6 (mod 4 == 2): the two genes share their symbol; subsets 3, 7: the two OMIM diseases share
                // their name (names are not keys; the row orders below make their rows adjacent and non-adjacent)
                if s % 4 == 2 {
                    for a in anns.iter_mut().filter(|a| a.kind == crate::model::Kind::Gene) {
                        a.name = "GENE1".into();
                    }
                }
                if s % 4 == 3 {
                    for a in anns.iter_mut().filter(|a| a.kind == crate::model::Kind::Omim) {
                        a.name = "Disease one".into();
                    }
                }
                let mut base = Facts { anns, ..base };
                // odd subsets: a replacement chain 119 -> 118 -> 1 with the first link obsolete (each term keeps the
                // replacement its own stanza states, whatever the stanza order)
                if s % 2 == 1 {
                    base.terms[2].obsolete = true;
                    base.terms[2].replacement = Some(ids[1]);
                    base.terms[1].replacement = Some(ids[0]);
                }
                if base.edges.len() >= 1 {
                    ctx.nontrivial();
                }
                let r = RefOnt::derive(&base);
                let exp = Obs::expected(&r, Mode::Defaults);
                let case = || json!({"facts": base.to_json()});
                let ng = base.anns.iter().filter(|a| a.kind == crate::model::Kind::Gene).count();
                let nd = base.anns.len() - ng;
                for transitive in [false, true] {
                    let mut class = Class::new();
                    let path = if transitive { "jax transitive" } else { "jax" };
                    for p in permutations(n) {
                        if transitive && p[0] != 0 {
                            continue;
                        }
                        let mut o = JaxOpts::default();
                        o.stanza_order = Some(p.clone());
                        ctx.transitions(base.n_steps());
                        class.add(ctx, from_jax(&base, &o, transitive), &exp, path, &format!("stanzas {p:?}"), &case);
                    }
                    // a [Typedef] stanza at every position among the permuted term stanzas
                    for (pi, p) in permutations(n).into_iter().enumerate() {
                        if transitive && pi % 3 != 0 {
                            continue;
                        }
                        for pos in 0..=n {
                            let mut o = JaxOpts::default();
                            o.stanza_order = Some(p.clone());
                            o.distractors = vec![crate::jax::Distractor::Typedef(pos)];
                            ctx.transitions(base.n_steps());
                            class.add(ctx, from_jax(&base, &o, transitive), &exp, path, &format!("stanzas {p:?} with a [Typedef] stanza at position {pos}"), &case);
                        }
                    }
                    for p in order_family(ng, 4, 1).into_iter().skip(1) {
                        let mut o = JaxOpts::default();
                        o.gene_row_order = Some(p.clone());
                        ctx.transitions(base.n_steps());
                        class.add(ctx, from_jax(&base, &o, transitive), &exp, path, &format!("gene rows {p:?}"), &case);
                    }
                    if !transitive {
                        // the files with NOT rows form a class of their own: whatever a NOT row means for a positive
                        // row of the same disease and term (ignored, or "NOT wins" - no property of this check says),
                        // it must mean the same in every row order, and whether the NOT rows come first or last
                        let mut twins = Class::among_themselves();
                        for p in order_family(nd, 4, 1).into_iter().skip(1) {
                            let mut o = JaxOpts::default();
                            o.disease_row_order = Some(p.clone());
                            ctx.transitions(base.n_steps());
                            class.add(ctx, from_jax(&base, &o, transitive), &exp, path, &format!("disease rows {p:?}"), &case);
                            // the same rows with a NOT-qualified twin of each (a second source that excludes the
                            // term): before or after the positive rows
                            for d in [crate::jax::Distractor::NotRowTwinsFirst, crate::jax::Distractor::NotRowTwinsLast] {
                                let mut o = o.clone();
                                o.distractors = vec![d.clone()];
                                ctx.transitions(base.n_steps());
                                twins.add(ctx, from_jax(&base, &o, transitive), &exp, "jax, NOT-qualified twin rows", &format!("disease rows {p:?} with {d:?}"), &case);
                            }
                        }
                    }
                    // is_a lines reversed
                    let mut g = base.clone();
                    g.edges.reverse();
                    ctx.transitions(base.n_steps());
                    class.add(ctx, from_jax(&g, &JaxOpts::default(), transitive), &exp, path, "is_a lines reversed", &case);
                }
                ctx.sample(|| json!({"dag": d.describe(), "ids": ids, "S": crate::space::bits(s, n)}));
            }
        }
        jax::cleanup();
    }

    // ---- text rows of one record far apart: a loader that closes a record when the id in the first column changes
    // ("the files are grouped") and re-opens it badly needs the rows of one record in three separate runs
    {
        use crate::model::Kind;
        let mut base = Facts::default();
        base.version = (2024, 2, 29);
        for (id, name) in [(1u32, "All"), (118, "Phenotypic abnormality"), (119, "T119"), (4000, "T4000"), (77_777, "T77777")] {
            base.terms.push(Facts::term(id, name));
        }
        base.edges = vec![(118, 1), (119, 118), (4000, 119), (77_777, 118)];
        // 8 disease rows and 8 gene rows; the first three of each belong to one record
        for t in [119u32, 4000, 77_777] {
            base.anns.push(Facts::ann(Kind::Omim, 600_001, "Disease one", Some(t)));
        }
        for (kind, id, name, t) in [(Kind::Omim, 600_002u32, "Disease two", 118u32), (Kind::Omim, 600_002, "Disease two", 4000), (Kind::Orpha, 77, "Orpha one", 119), (Kind::Orpha, 77, "Orpha one", 77_777), (Kind::Orpha, 600_001, "Orpha with the id of disease one", 4000)] {
            base.anns.push(Facts::ann(kind, id, name, Some(t)));
        }
        for t in [119u32, 4000, 77_777] {
            base.anns.push(Facts::ann(Kind::Gene, 11, "GENE1", Some(t)));
        }
        for (id, name, t) in [(22u32, "GENE2", 118u32), (22, "GENE2", 4000), (33, "GENE3", 77_777), (44, "GENE4", 119), (44, "GENE4", 118)] {
            base.anns.push(Facts::ann(Kind::Gene, id, name, Some(t)));
        }
        // every placement of the three rows of the first record among the 8 rows (the other rows keep their order),
        // and for the placement first / middle / last the three rows also in every order among themselves
        let mut orders: Vec<Vec<usize>> = vec![];
        for a in 0..8usize {
            for b in a + 1..8 {
                for c in b + 1..8 {
                    let inner: Vec<Vec<usize>> = if (a, b, c) == (0, 4, 7) { permutations(3) } else { vec![vec![0, 1, 2]] };
                    for p in inner {
                        let mut order = vec![usize::MAX; 8];
                        order[a] = p[0];
                        order[b] = p[1];
                        order[c] = p[2];
                        let mut rest = 3..8usize;
                        for slot in order.iter_mut().filter(|x| **x == usize::MAX) {
                            *slot = rest.next().unwrap();
                        }
                        orders.push(order);
                    }
                }
            }
        }
        ctx.space("jax/rows-of-one-record-apart", &format!("terms 1, 118, 119, 4000, 77777; OMIM 600001 and gene 11 with three rows each among 8 disease rows / 8 gene rows (an ORPHA disease with the numeric id 600001 among them): all {} placements of the three rows among the eight (other rows in place; for first / middle / last also every order of the three), disease rows and gene rows, both loaders", orders.len()));
        let r = RefOnt::derive(&base);
        let exp = Obs::expected(&r, Mode::Defaults);
        for transitive in [false, true] {
            for genes in [false, true] {
                if !ctx.take() {
                    continue;
                }
                ctx.state();
                ctx.nontrivial();
                let path = if transitive { "jax transitive" } else { "jax" };
                let case = || json!({"facts": base.to_json()});
                let mut class = Class::new();
                for p in &orders {
                    let mut o = JaxOpts::default();
                    if genes {
                        o.gene_row_order = Some(p.clone());
                    } else {
                        o.disease_row_order = Some(p.clone());
                    }
                    ctx.transitions(base.n_steps());
                    class.add(ctx, from_jax(&base, &o, transitive), &exp, path, &format!("{} rows {p:?}", if genes { "gene" } else { "disease" }), &case);
                }
                ctx.sample(|| json!({"rows": if genes { "gene" } else { "disease" }, "transitive_loader": transitive, "orders": orders.len()}));
            }
        }
        jax::cleanup();
    }

    // ---- (last) very deep graphs: ancestors-first against descendants-first supply order. A closure computed by
    // "repeat a pass over all terms until nothing changes, at most 512 / 1024 / 2048 passes" converges in one pass
    // when ancestors come first and needs as many passes as the graph is deep when descendants come first.
    {
        let family = super::common::very_deep_family();
        ctx.space("very-deep/orders", &format!("{} shapes (chains of 1100 and 2100 terms with a shortcut, a ladder of 14 levels) x ascending / descending supply order of terms and links via Builder (a singleton class equal to the model)", family.len()));
        for (base, what) in &family {
            if !ctx.take() {
                continue;
            }
            ctx.state();
            ctx.nontrivial();
            let r = RefOnt::derive(base);
            let exp = Obs::expected(&r, Mode::Minimal);
            let n = base.terms.len();
            let case = || json!({"shape": what, "n_terms": n});
            let mut desc = base.clone();
            desc.terms.reverse();
            desc.edges.reverse();
            let mut class = Class::new();
            for (f, oname) in [(base, "ascending (ancestors first)"), (&desc, "descending (descendants first)")] {
                ctx.transitions(f.n_steps());
                class.add(ctx, drive::build(f, Mode::Minimal), &exp, "builder", oname, &case);
            }
            ctx.sample(|| json!({"shape": what, "n_terms": n, "orders": 2}));
            crate::ctx::trim_heap();
        }
    }
}
