//! C02 - annotations reach exactly the ancestors; gene/disease records stay direct.
//! (The same exploration, with the information-content emphasis, also serves C03.)

use super::c01::{self_consistent, POOL, POOL_ROOTS};
use super::common::{via_binary, via_builder, via_jax, AnnGroups};
use crate::ctx::Ctx;
use crate::drive;
use crate::encode::EncOpts;
use crate::jax::{self, JaxOpts};
use crate::model::{AnnFact, Facts, Mode, RefOnt};
use crate::space::{all_dags, permutations, Dag};
use serde_json::json;

/// Flag pattern derived from the annotated subset: every second annotated non-root term is obsolete,
/// the last term (if not a root) names the first term as replacement. Flags do not change any link.
fn flag_terms(f: &mut Facts, s: u32) {
    let n = f.terms.len();
    let first = f.terms[0].id;
    let mut toggle = s % 2 == 0;
    for i in 0..n {
        let id = f.terms[i].id;
        if id == 1 || id == 118 {
            continue;
        }
        if s >> i & 1 == 1 {
            if toggle {
                f.terms[i].obsolete = true;
            }
            toggle = !toggle;
        }
        if i == n - 1 && s % 3 == 0 {
            f.terms[i].replacement = Some(first);
        }
    }
}

fn inherits(d: &Dag, s: u32) -> bool {
    (0..d.n).any(|i| s >> i & 1 == 1 && d.parents[i] != 0)
}

/// Annotation fact orders explored for one (DAG, S): every order of g1's facts, the round-robin
/// interleaving, and every single repeated fact.
pub fn orders(groups: &AnnGroups) -> Vec<(Vec<AnnFact>, String)> {
    let mut out = vec![];
    let k = groups.g1.len();
    for p in permutations(k) {
        out.push((groups.sequential(&p), format!("g1 facts in order {p:?}, then g2, omim, orpha")));
    }
    out.push((groups.interleaved(), "round-robin interleaving of all records".to_string()));
    let ident: Vec<usize> = (0..k).collect();
    // the OMIM and the first ORPHA record's facts in every order as well (|o1| = |r1| = |S|: rot1 / rot2 of S)
    for p in permutations(groups.o1.len()).into_iter().skip(1) {
        let mut g = AnnGroups { g1: groups.g1.clone(), g2: groups.g2.clone(), o1: p.iter().map(|&i| groups.o1[i].clone()).collect(), r1: groups.r1.clone(), r2: groups.r2.clone(), bare: groups.bare.clone() };
        if groups.r1.len() == p.len() {
            g.r1 = p.iter().map(|&i| groups.r1[i].clone()).collect();
        }
        out.push((g.sequential(&ident), format!("omim and orpha facts in order {p:?}")));
    }
    let base = groups.sequential(&ident);
    // the bare registration (add_gene / add_*_disease) of records that are also annotated, before, between and
    // after their annotation facts
    {
        // (only records that do have annotation facts: registering one that has none would add a record)
        let regs: Vec<(crate::model::Kind, u32, &str)> = [(super::common::G1, !groups.g1.is_empty()), (super::common::O1, !groups.o1.is_empty()), (super::common::R1, !groups.r1.is_empty())].into_iter().filter(|x| x.1).map(|x| x.0).collect();
        for (pos, what) in [(0usize, "first"), (base.len() / 2, "in the middle"), (base.len(), "last")] {
            let mut v = base.clone();
            for rec in &regs {
                v.insert(pos.min(v.len()), Facts::ann(rec.0, rec.1, rec.2, None));
            }
            out.push((v, format!("annotated records additionally registered without a term, {what}")));
        }
    }
    for i in 0..base.len() {
        if base[i].term.is_none() {
            continue;
        }
        let mut v = base.clone();
        v.push(base[i].clone());
        out.push((v, format!("fact #{i} repeated at the end")));
    }
    if !base.is_empty() {
        let mut v = base.clone();
        let dup = v[base.len() / 2].clone();
        v.insert(base.len() / 2, dup);
        out.push((v, "middle fact repeated immediately".to_string()));
    }
    out
}

pub fn explore(ctx: &mut Ctx, label: &str) {
    let thorough = ctx.tier.thorough();
    // ---- builder path
    let max_n = if thorough { 5 } else { 4 };
    for n in 1..=max_n {
        let dags = all_dags(n);
        ctx.space(&format!("{label}/builder/D{n}/all-subsets-x-all-orders"), &format!("{} labelled DAGs x 2^{n} annotated subsets S (g1<-S, g2<-~S, omim<-rot1 S, orpha<-rot2 S, bare gene+omim) x |S|! orders + interleaving + repeated facts", dags.len()));
        for d in &dags {
            for s in 0..(1u32 << n) {
                if !ctx.take() {
                    continue;
                }
                ctx.state();
                if inherits(d, s) {
                    ctx.nontrivial();
                }
                let base = Facts::from_dag(d, &POOL);
                let ids: Vec<u32> = base.terms.iter().map(|t| t.id).collect();
                let groups = AnnGroups::new(s, &ids);
                let ident: Vec<usize> = (0..groups.g1.len()).collect();
                let r = RefOnt::derive(&Facts { anns: groups.sequential(&ident), ..base.clone() });
                let all = if n == 5 {
                    // thorough D5: all |S|! orders, no repeated-fact variants (covered for n<=4)
                    permutations(groups.g1.len()).into_iter().map(|p| (groups.sequential(&p), format!("g1 order {p:?}"))).collect()
                } else {
                    orders(&groups)
                };
                let n_orders = all.len();
                for (anns, what) in all {
                    let f = Facts { anns, ..base.clone() };
                    via_builder(ctx, &f, &r, Mode::Minimal, &what);
                }
                if n <= 4 {
                    // rejected calls (absent term ids) after every fact: a call that returns an error is not an annotation
                    let f = Facts { anns: groups.interleaved(), ..base.clone() };
                    super::common::via_builder_rejected(ctx, &f, &r, Mode::Minimal, "interleaved");
                }
                ctx.sample(|| json!({"dag": d.describe(), "ids": ids, "S": crate::space::bits(s, n), "orders": n_orders}));
            }
        }
    }

    // ---- quick tier: all 5-term graphs with one or two annotated terms in both orders (the full D5 space is thorough)
    if !thorough {
        let n = 5;
        let dags = all_dags(n);
        ctx.space(&format!("{label}/builder/D5/one-or-two-annotated-terms"), &format!("{} labelled DAGs x 15 subsets S with |S| <= 2 x both orders of the gene's facts", dags.len()));
        for d in &dags {
            if !ctx.take() {
                continue;
            }
            ctx.state();
            if d.has_diamond() {
                ctx.nontrivial();
            }
            let base = Facts::from_dag(d, &POOL);
            let ids: Vec<u32> = base.terms.iter().map(|t| t.id).collect();
            for s in 1..(1u32 << n) {
                if s.count_ones() > 2 {
                    continue;
                }
                let groups = AnnGroups::new(s, &ids);
                let ident: Vec<usize> = (0..groups.g1.len()).collect();
                let r = RefOnt::derive(&Facts { anns: groups.sequential(&ident), ..base.clone() });
                for p in permutations(groups.g1.len()) {
                    let f = Facts { anns: groups.sequential(&p), ..base.clone() };
                    via_builder(ctx, &f, &r, Mode::Minimal, &format!("g1 order {p:?}"));
                }
            }
            ctx.sample(|| json!({"dag": d.describe(), "ids": ids, "subsets": 15}));
        }
    }

    // ---- same record id supplied under different spellings of its name: which name survives is
    // unspecified (don't-care), everything else must still hold
    for n in 2..=3usize {
        let dags = all_dags(n);
        ctx.space(&format!("{label}/builder/D{n}/renamed-records"), &format!("{} labelled DAGs x 2^{n} subsets x |S|! orders; every later fact of a record spells the record's name differently", dags.len()));
        for d in &dags {
            for s in 1..(1u32 << n) {
                if !ctx.take() {
                    continue;
                }
                ctx.state();
                if inherits(d, s) {
                    ctx.nontrivial();
                }
                let base = Facts::from_dag(d, &POOL);
                let ids: Vec<u32> = base.terms.iter().map(|t| t.id).collect();
                let groups = AnnGroups::new(s, &ids);
                for p in permutations(groups.g1.len()) {
                    for variant in 0..2 {
                        let mut anns = if variant == 0 { groups.sequential(&p) } else { groups.interleaved() };
                        let canonical: Vec<(crate::model::Kind, u32, String)> = anns.iter().map(|a| (a.kind, a.id, a.name.clone())).collect();
                        for (i, a) in anns.iter_mut().enumerate() {
                            if i % 2 == 1 || i > 2 {
                                a.name = format!("{} (spelling {i})", a.name.to_lowercase());
                            }
                        }
                        let f = Facts { anns, ..base.clone() };
                        // the model keeps the canonical name; the observation's name is normalised to it
                        let mut fm = f.clone();
                        for (a, c) in fm.anns.iter_mut().zip(canonical.iter()) {
                            a.name = c.2.clone();
                        }
                        let r = RefOnt::derive(&fm);
                        ctx.transitions(f.n_steps());
                        ctx.exec();
                        ctx.validated();
                        let case = || json!({"facts": f.to_json(), "rust": f.to_rust(false)});
                        match drive::build(&f, Mode::Minimal) {
                            Err(e) => ctx.violation("Builder", "[builder] construction fails on valid facts", json!({"case": case(), "observed": e})),
                            Ok(ont) => match crate::obs::Obs::of(&ont) {
                                Err(inc) => ctx.violation(&inc.site, "[builder, renamed records] read API inconsistent or panicking", json!({"case": case(), "observed": inc.what})),
                                Ok(mut obs) => {
                                    for k in 0..3 {
                                        for rec in obs.recs[k].iter_mut() {
                                            let supplied = f.anns.iter().any(|a| a.kind.idx() == k && a.id == rec.id && a.name == rec.name);
                                            if supplied {
                                                if let Some(m) = r.recs[k].get(&rec.id) {
                                                    rec.name = m.name.clone();
                                                }
                                            }
                                        }
                                    }
                                    let exp = crate::obs::Obs::expected(&r, Mode::Minimal);
                                    if let Some((site, sig, det)) = obs.diff(&exp, false) {
                                        ctx.violation(&site, &format!("[builder, renamed records] {sig}"), json!({"case": case(), "difference": det}));
                                    }
                                }
                            },
                        }
                        if variant == 1 {
                            break;
                        }
                    }
                }
                ctx.sample(|| json!({"dag": d.describe(), "ids": ids, "S": crate::space::bits(s, n), "renamed": true}));
            }
        }
    }

    // ---- the same numeric record id in all three kinds, annotated to the same terms: kinds must not leak,
    // adjacent rows / calls with equal (id, term) but different kind must all count
    for n in 2..=3usize {
        let dags = all_dags(n);
        ctx.space(&format!("{label}/shared-ids-across-kinds/D{n}"), &format!("{} labelled DAGs over {:?} x subsets S with 1 <= |S| <= 2: gene 7, OMIM 7 and ORPHA 7 all annotated to S (and gene 8 / OMIM 8 / ORPHA 8 to the complement); Builder: all orders of the 3|S| facts; text: all orders of the disease rows, both loaders; binary v3", dags.len(), &POOL_ROOTS[..n]));
        for d in &dags {
            for s in 1..(1u32 << n) {
                if s.count_ones() > 2 {
                    continue;
                }
                if !ctx.take() {
                    continue;
                }
                ctx.state();
                if inherits(d, s) {
                    ctx.nontrivial();
                }
                let mut base = Facts::from_dag(d, &POOL_ROOTS);
                base.version = (2024, 2, 29);
                let ids: Vec<u32> = base.terms.iter().map(|t| t.id).collect();
                let full = (1u32 << n) - 1;
                let mut main: Vec<AnnFact> = vec![];
                let mut rest: Vec<AnnFact> = vec![];
                for (kind, name) in [(crate::model::Kind::Omim, "Seven (omim)"), (crate::model::Kind::Orpha, "Seven (orpha)"), (crate::model::Kind::Gene, "SEVEN")] {
                    for i in 0..n {
                        if s >> i & 1 == 1 {
                            main.push(Facts::ann(kind, 7, name, Some(ids[i])));
                        } else if (full & !s) >> i & 1 == 1 {
                            rest.push(Facts::ann(kind, 8, &format!("{name} 8"), Some(ids[i])));
                        }
                    }
                }
                let all: Vec<AnnFact> = main.iter().chain(rest.iter()).cloned().collect();
                let r = RefOnt::derive(&Facts { anns: all.clone(), ..base.clone() });
                // Builder: every order of the main facts
                for p in permutations(main.len()) {
                    let anns: Vec<AnnFact> = p.iter().map(|i| main[*i].clone()).chain(rest.iter().cloned()).collect();
                    let f = Facts { anns, ..base.clone() };
                    via_builder(ctx, &f, &r, Mode::Defaults, &format!("shared-id facts in order {p:?}"));
                }
                // text: every order of the disease rows (the first 2|S| main facts are disease facts)
                let nd_main = 2 * s.count_ones() as usize;
                let f = Facts { anns: all.clone(), ..base.clone() };
                let nd_total = f.anns.iter().filter(|a| a.kind != crate::model::Kind::Gene).count();
                for p in permutations(nd_main) {
                    // disease rows in file order = main disease facts (permuted) then the others
                    let mut order: Vec<usize> = vec![];
                    let dis_idx: Vec<usize> = (0..f.anns.len()).filter(|i| f.anns[*i].kind != crate::model::Kind::Gene).collect();
                    let _ = &dis_idx;
                    for i in &p {
                        order.push(*i);
                    }
                    for i in nd_main..nd_total {
                        order.push(i);
                    }
                    let mut o = JaxOpts::default();
                    o.disease_row_order = Some(order);
                    via_jax(ctx, &f, &o, false, &format!("shared-id disease rows in order {p:?}"));
                    if p[0] == 0 {
                        via_jax(ctx, &f, &o, true, &format!("shared-id disease rows in order {p:?} (transitive loader)"));
                    }
                }
                via_binary(ctx, &f, &EncOpts::v(3), "shared ids across kinds");
                ctx.sample(|| json!({"dag": d.describe(), "ids": ids, "S": crate::space::bits(s, n), "shared_record_id": 7}));
            }
        }
        jax::cleanup();
    }

    // ---- structured large graphs: inheritance across more than 30 ancestors / parents
    {
        let family = super::common::large_family();
        ctx.space(&format!("{label}/large-structured"), &format!("{} large shapes; gene 11 on the last term, gene 22 on every 7th term, OMIM on the middle term, ORPHA 77 on the top term and ORPHA 78 on the last two terms, gene 44 and OMIM 600004 on every term, bare records; facts in list order and reversed; Builder, binary v3, JAX", family.len()));
        for (base, what) in &family {
            if !ctx.take() {
                continue;
            }
            ctx.state();
            ctx.nontrivial();
            let ids: Vec<u32> = base.terms.iter().map(|t| t.id).collect();
            let n = ids.len();
            let mut anns: Vec<AnnFact> = vec![];
            anns.push(Facts::ann(crate::model::Kind::Gene, 11, "GENE1", Some(ids[n - 1])));
            for i in (0..n).step_by(7) {
                anns.push(Facts::ann(crate::model::Kind::Gene, 22, "GENE2", Some(ids[i])));
            }
            anns.push(Facts::ann(crate::model::Kind::Gene, 33, "GENE3", None));
            anns.push(Facts::ann(crate::model::Kind::Omim, 600_001, "Disease one", Some(ids[n / 2])));
            anns.push(Facts::ann(crate::model::Kind::Omim, 600_002, "Disease two, bare", None));
            anns.push(Facts::ann(crate::model::Kind::Orpha, 77, "Orpha one", Some(ids[0])));
            anns.push(Facts::ann(crate::model::Kind::Orpha, 78, "Orpha two", Some(ids[n - 1])));
            anns.push(Facts::ann(crate::model::Kind::Orpha, 78, "Orpha two", Some(ids[n - 2])));
            anns.push(Facts::ann(crate::model::Kind::Orpha, 79, "Orpha three, bare", None));
            // records with very many direct terms (beyond 8-bit counts on shapes with > 255 terms): gene 44 and
            // OMIM 600004 on every term, in an order that is neither ascending nor descending
            for i in (0..n).step_by(2).chain((1..n).step_by(2).rev()) {
                anns.push(Facts::ann(crate::model::Kind::Gene, 44, "GENE4", Some(ids[i])));
                anns.push(Facts::ann(crate::model::Kind::Omim, 600_004, "Disease four, everywhere", Some(ids[i])));
            }
            let f = Facts { anns, ..base.clone() };
            let r = RefOnt::derive(&f);
            for reversed in [false, true] {
                let mut g = f.clone();
                if reversed {
                    g.anns.reverse();
                    g.terms.reverse();
                }
                let w = format!("{what}; {}", if reversed { "terms and annotation facts reversed" } else { "list order" });
                via_builder(ctx, &g, &r, Mode::Minimal, &w);
                via_binary(ctx, &g, &EncOpts::v(3), &w);
                via_jax(ctx, &g, &JaxOpts::default(), false, &w);
            }
            ctx.sample(|| json!({"shape": what, "n_terms": n}));
        }
        jax::cleanup();
    }

    // ---- binary path (ids contain both roots)
    {
        let n = 4;
        let dags = all_dags(n);
        ctx.space(&format!("{label}/binary/D4/v1-v3"), &format!("{} labelled DAGs over {:?} x 16 subsets x v3: all |S|! term orders inside the gene record + all 6 gene-record orders; v1, v2: canonical order", dags.len(), &POOL_ROOTS[..n]));
        for d in &dags {
            for s in 0..(1u32 << n) {
                if !ctx.take() {
                    continue;
                }
                ctx.state();
                if inherits(d, s) {
                    ctx.nontrivial();
                }
                let mut base = Facts::from_dag(d, &POOL_ROOTS);
                base.version = (2024, 2, 29);
                let ids: Vec<u32> = base.terms.iter().map(|t| t.id).collect();
                // annotated terms may be obsolete and/or replaced: flags follow the annotated subset
                flag_terms(&mut base, s);
                let groups = AnnGroups::new(s, &ids);
                let ident: Vec<usize> = (0..groups.g1.len()).collect();
                for p in permutations(groups.g1.len()) {
                    let f = Facts { anns: groups.sequential(&p), ..base.clone() };
                    via_binary(ctx, &f, &EncOpts::v(3), &format!("term ids inside gene record in order {p:?}"));
                }
                // gene record orders: permute the three gene groups
                let gg: [Vec<AnnFact>; 3] = [groups.g1.clone(), groups.g2.clone(), vec![groups.bare[0].clone()]];
                for p in permutations(3) {
                    let mut anns: Vec<AnnFact> = vec![];
                    for &i in &p {
                        anns.extend(gg[i].iter().cloned());
                    }
                    anns.push(groups.bare[3].clone());
                    anns.extend(groups.r2.iter().cloned());
                    anns.extend(groups.r1.iter().cloned());
                    anns.push(groups.bare[2].clone());
                    anns.push(groups.bare[1].clone());
                    anns.extend(groups.o1.iter().cloned());
                    let f = Facts { anns, ..base.clone() };
                    via_binary(ctx, &f, &EncOpts::v(3), &format!("gene records in order {p:?}, orpha before omim facts"));
                }
                let f = Facts { anns: groups.sequential(&ident), ..base.clone() };
                via_binary(ctx, &f, &EncOpts::v(1), "canonical");
                via_binary(ctx, &f, &EncOpts::v(2), "canonical");
                // a term id listed twice inside a record ("repeated facts"): refused, or an ontology consistent with
                // the records it reports itself (no id twice in any list)
                for version in [3u8, 1] {
                    let mut o = EncOpts::v(version);
                    o.repeat_term_ids = true;
                    let pf = crate::encode::project(&f, version);
                    let bytes = crate::encode::encode(&pf, &o);
                    ctx.transitions(pf.n_steps());
                    super::c08::self_consistent_or_refused(ctx, &bytes, &format!("binary v{version}, first term id of every record repeated at its end"), &|| json!({"facts": pf.to_json(), "format_version": version}));
                }
                // every record written twice (without its last term, then completely)
                super::common::via_binary_repeated(ctx, &f, 3, "canonical");
                let rev: Vec<usize> = ident.iter().rev().copied().collect();
                let mut fr = Facts { anns: groups.sequential(&rev), ..base.clone() };
                super::common::via_binary_repeated(ctx, &fr, 3, "gene 1's terms reversed");
                fr.anns.reverse();
                super::common::via_binary_repeated(ctx, &fr, 2, "all facts reversed");
                ctx.sample(|| json!({"dag": d.describe(), "ids": ids, "S": crate::space::bits(s, n)}));
            }
        }
    }

    // ---- JAX text path
    for n in 2..=4usize {
        let dags = all_dags(n);
        ctx.space(&format!("{label}/jax/D{n}"), &format!("{} labelled DAGs over {:?} x 2^{n} subsets x row orders (n<=3: all |S|! gene-row orders; n=4: canonical, reversed, interleaved) x both loaders", dags.len(), &POOL_ROOTS[..n]));
        for d in &dags {
            for s in 0..(1u32 << n) {
                if !ctx.take() {
                    continue;
                }
                ctx.state();
                if inherits(d, s) {
                    ctx.nontrivial();
                }
                let mut base = Facts::from_dag(d, &POOL_ROOTS);
                base.version = (2024, 2, 29);
                let ids: Vec<u32> = base.terms.iter().map(|t| t.id).collect();
                flag_terms(&mut base, s);
                let groups = AnnGroups::new(s, &ids);
                let k = groups.g1.len();
                let perms: Vec<Vec<usize>> = if n <= 3 { permutations(k) } else { let mut v = vec![(0..k).collect::<Vec<_>>()]; if k > 1 { v.push((0..k).rev().collect()); } v };
                for (i, p) in perms.iter().enumerate() {
                    let f = Facts { anns: groups.sequential(p), ..base.clone() };
                    via_jax(ctx, &f, &JaxOpts::default(), false, &format!("gene rows of g1 in order {p:?}"));
                    if i == 0 {
                        via_jax(ctx, &f, &JaxOpts::default(), true, "canonical, transitive loader");
                    }
                }
                let f = Facts { anns: groups.interleaved(), ..base.clone() };
                via_jax(ctx, &f, &JaxOpts::default(), false, "interleaved rows");
                // two records of one kind sharing their symbol / name, rows adjacent and separated (a row-level
                // "skip what repeats the previous row" keyed on the name would drop facts)
                for kind in crate::model::KINDS {
                    for adjacent in [true, false] {
                        if let Some(g) = jax::with_shared_name(&f, kind, adjacent) {
                            let w = format!("two {} records with one name, rows {}", kind.name(), if adjacent { "adjacent" } else { "separated" });
                            via_jax(ctx, &g, &JaxOpts::default(), false, &w);
                            via_jax(ctx, &g, &JaxOpts::default(), true, &w);
                        }
                    }
                }
                // the optional columns of both files filled with row-dependent values (only the id, name / symbol,
                // qualifier and term columns carry facts)
                {
                    let mut o = JaxOpts::default();
                    o.distractors = vec![jax::Distractor::HpoaFilledColumns, jax::Distractor::GeneTrailingColumns];
                    via_jax(ctx, &f, &o, false, "interleaved rows, optional columns filled");
                    via_jax(ctx, &f, &o, true, "interleaved rows, optional columns filled (transitive loader)");
                }
                // rows that are not annotations of an OMIM / ORPHA disease: another database (DECIPHER), a NOT-qualified
                // row of a disease that has positive rows, a NOT-qualified twin of every positive row, comments
                {
                    let mut o = JaxOpts::default();
                    o.distractors = vec![jax::Distractor::DecipherRow, jax::Distractor::NotRowOmimExisting, jax::Distractor::NotRowOrphaOnly, jax::Distractor::NotRowTwinsFirst, jax::Distractor::HpoaCommentMiddle];
                    via_jax(ctx, &f, &o, false, "interleaved rows; DECIPHER row, NOT rows, comment line");
                }
                // repeated rows: every row twice (adjacent), and the whole file twice (distant repeats)
                let mut twice: Vec<AnnFact> = vec![];
                for a in &f.anns {
                    twice.push(a.clone());
                    twice.push(a.clone());
                }
                via_jax(ctx, &Facts { anns: twice, ..base.clone() }, &JaxOpts::default(), false, "every row repeated immediately");
                let mut again = f.anns.clone();
                again.extend(f.anns.iter().cloned());
                via_jax(ctx, &Facts { anns: again.clone(), ..base.clone() }, &JaxOpts::default(), false, "all rows repeated after the last row");
                via_jax(ctx, &Facts { anns: again, ..base.clone() }, &JaxOpts::default(), true, "all rows repeated after the last row (transitive loader)");
                // disease rows reversed
                let fc = Facts { anns: groups.sequential(&(0..k).collect::<Vec<_>>()), ..base.clone() };
                let nd = fc.anns.iter().filter(|a| a.kind != crate::model::Kind::Gene && a.term.is_some()).count();
                let mut o = JaxOpts::default();
                o.disease_row_order = Some((0..nd).rev().collect());
                via_jax(ctx, &fc, &o, false, "disease rows reversed");
                ctx.sample(|| json!({"dag": d.describe(), "ids": ids, "S": crate::space::bits(s, n)}));
            }
        }
        jax::cleanup();
    }

    // ---- sub_ontology of annotated ontologies is consistent with its own facts
    for n in 2..=4usize {
        let dags = all_dags(n);
        ctx.space(&format!("{label}/sub_ontology/D{n}"), &format!("{} labelled DAGs x 2^{n} subsets x every root, leaves = every term below root and each single leaf", dags.len()));
        for d in &dags {
            for s in 0..(1u32 << n) {
                if !ctx.take() {
                    continue;
                }
                ctx.state();
                if inherits(d, s) {
                    ctx.nontrivial();
                }
                let base = Facts::from_dag(d, &POOL);
                let ids: Vec<u32> = base.terms.iter().map(|t| t.id).collect();
                let groups = AnnGroups::new(s, &ids);
                let f = Facts { anns: groups.interleaved(), ..base.clone() };
                let r = RefOnt::derive(&f);
                ctx.transitions(f.n_steps());
                let Ok(src) = drive::build(&f, Mode::Minimal) else {
                    ctx.exec();
                    ctx.violation("Builder", "[builder] construction fails on valid facts", json!({"case": f.to_json()}));
                    continue;
                };
                // handles of another instance (same graph, no records) name the same terms
                let skeleton = drive::build(&base, Mode::Minimal).ok();
                for &root in &ids {
                    let below: Vec<u32> = ids.iter().copied().filter(|t| *t == root || r.terms[t].ancestors.contains(&root)).collect();
                    let mut leaf_sets: Vec<Vec<u32>> = vec![below.clone()];
                    for b in &below {
                        leaf_sets.push(vec![*b]);
                    }
                    for leaves in leaf_sets {
                        if let Some(sk) = &skeleton {
                            super::c14::foreign_handles(ctx, &src, sk, &f, root, &leaves, "annotation patterns");
                        }
                        ctx.transitions(1 + leaves.len() as u64);
                        let res = crate::ctx::guard(|| src.sub_ontology(src.hpo(root).unwrap(), leaves.iter().map(|l| src.hpo(*l).unwrap()).collect::<Vec<_>>()).map_err(|e| e.to_string()));
                        let case = || json!({"source": f.to_json(), "root": root, "leaves": leaves});
                        match res {
                            Ok(Ok(sub)) => self_consistent(ctx, &sub, "sub_ontology", Mode::Minimal, &case),
                            Ok(Err(e)) => {
                                ctx.exec();
                                ctx.violation("Ontology::sub_ontology", "[sub_ontology] refused although every leaf is root or below root", json!({"case": case(), "observed": e}));
                            }
                            Err(p) => {
                                ctx.exec();
                                ctx.violation("Ontology::sub_ontology", "[sub_ontology] panics", json!({"case": case(), "observed": p}));
                            }
                        }
                    }
                }
            }
        }
    }
    // ---- the library's own writer as a construction path: Builder -> as_bytes -> from_bytes, with records of
    // one kind that share their name (names are not keys) and records without terms
    {
        let n = 3;
        let dags = all_dags(n);
        ctx.space(&format!("{label}/as_bytes-round-trip/same-named-records"), &format!("{} labelled DAGs over {:?} x 2^{n} subsets S: genes 11<-S and 12<-complement(S) both named SAME, OMIM 1<-S, 2<-rot1(S) both named 'Same disease', ORPHA 1<-rot2(S), 2<-S with that name too, bare gene 13 named SAME; Builder, then as_bytes -> from_bytes, then once more", dags.len(), &POOL_ROOTS[..n]));
        for d in &dags {
            for s in 0..(1u32 << n) {
                if !ctx.take() {
                    continue;
                }
                ctx.state();
                if inherits(d, s) {
                    ctx.nontrivial();
                }
                let mut f = Facts::from_dag(d, &POOL_ROOTS);
                f.version = (2024, 2, 29);
                let ids: Vec<u32> = f.terms.iter().map(|t| t.id).collect();
                let full = (1u32 << n) - 1;
                let on = |mask: u32| -> Vec<u32> { crate::space::bits(mask & full, n).iter().map(|i| ids[*i]).collect() };
                use crate::model::Kind;
                for t in on(s) {
                    f.anns.push(Facts::ann(Kind::Gene, 11, "SAME", Some(t)));
                    f.anns.push(Facts::ann(Kind::Omim, 1, "Same disease", Some(t)));
                    f.anns.push(Facts::ann(Kind::Orpha, 2, "Same disease", Some(t)));
                }
                for t in on(!s) {
                    f.anns.push(Facts::ann(Kind::Gene, 12, "SAME", Some(t)));
                }
                for t in on(super::common::rot(s, 1, n)) {
                    f.anns.push(Facts::ann(Kind::Omim, 2, "Same disease", Some(t)));
                }
                for t in on(super::common::rot(s, 2, n)) {
                    f.anns.push(Facts::ann(Kind::Orpha, 1, "Same disease", Some(t)));
                }
                f.anns.push(Facts::ann(Kind::Gene, 13, "SAME", None));
                let r = RefOnt::derive(&f);
                ctx.transitions(3 * f.n_steps());
                let Ok(first) = crate::drive::build(&f, Mode::Defaults) else {
                    ctx.exec();
                    ctx.violation("Builder", "[builder] construction fails on valid facts", json!({"case": f.to_json()}));
                    continue;
                };
                let case = || json!({"facts": f.to_json(), "path": "Builder -> as_bytes -> from_bytes"});
                let mut cur = first;
                for round in 1..=2 {
                    match crate::ctx::guard(|| cur.as_bytes()).ok().map(|b| crate::drive::from_bytes(&b)) {
                        Some(Ok(Ok(next))) => {
                            crate::drive::check_against_model(ctx, &next, &r, Mode::Defaults, if round == 1 { "as_bytes round trip" } else { "second as_bytes round trip" }, &case);
                            cur = next;
                        }
                        other => {
                            ctx.exec();
                            ctx.violation("Ontology::as_bytes -> from_bytes", "[as_bytes round trip] the library cannot read what it wrote", json!({"case": case(), "observed": format!("{:?}", other.map(|r| r.map(|x| x.map(|_| ()))))}));
                            break;
                        }
                    }
                }
                ctx.sample(|| json!({"dag": d.describe(), "ids": ids, "S": crate::space::bits(s, n)}));
            }
        }
    }
    // ---- sequences of ontologies built one after the other at the same address
    super::common::ontology_sequences(ctx, label, Mode::Minimal, &mut super::common::obs_oracle(Mode::Minimal));
}

/// sub_ontology with the exact oracle of C14 (kept records list exactly the retained subset of their direct
/// terms) on sources with modifier roots, for the annotation property's "sub_ontology" construction path
fn sub_exact(ctx: &mut Ctx, label: &str) {
    use std::collections::BTreeMap;
    let family = super::common::family_e(1, 2, &[200, 7]);
    ctx.space(&format!("{label}/sub_ontology/exact-records"), &format!("{} sources of family E (k <= 2; defaults, so HP:5 is a modifier root) x every root x single leaves and ordered pairs: kept records list exactly the retained subset of their direct terms", family.len()));
    for (f, what) in &family {
        if !ctx.take() {
            continue;
        }
        ctx.state();
        ctx.nontrivial();
        let r = RefOnt::derive(f);
        let ids: Vec<u32> = f.terms.iter().map(|t| t.id).collect();
        let up: BTreeMap<u32, BTreeMap<u32, usize>> = ids.iter().map(|i| (*i, r.up_distances(*i))).collect();
        ctx.transitions(f.n_steps());
        let Ok(Ok(src)) = drive::from_bytes(&crate::encode::encode(f, &EncOpts::v(3))) else {
            ctx.violation("Ontology::from_bytes", "rejects a file laid out as documented", json!({"facts": f.to_json()}));
            continue;
        };
        for &root in &ids {
            let mut collections: Vec<Vec<u32>> = ids.iter().map(|a| vec![*a]).collect();
            for a in &ids {
                for b in &ids {
                    if a != b {
                        collections.push(vec![*a, *b]);
                    }
                }
            }
            for leaves in &collections {
                let case = || json!({"family": what, "source": f.to_json(), "root": root, "leaves": leaves});
                super::c14::check_one(ctx, &src, &r, Mode::Defaults, &up, root, leaves, &case, None);
            }
        }
        ctx.sample(|| json!({"family": what, "roots": ids.len()}));
    }
}

pub fn run(ctx: &mut Ctx) {
    ctx.rule = "case = (labelled DAG, annotated subset S) with all listed supply orders of the annotation facts; records: genes 11<-S, 22<-complement(S), bare 33; OMIM 600001<-rot1(S), bare 600002; ORPHA 77<-rot2(S), 78<-every term, bare 79, 80; distinct by construction; non-trivial = some annotated term has ancestors (inheritance must happen)".into();
    ctx.assumptions = vec![
        "one name per record id; acyclic graphs; every annotated term exists".into(),
        "bare records (no term) are not expressible in the JAX text formats and are left out of that path".into(),
        "HashMap iteration order is not controlled; observations are sorted".into(),
    ];
    explore(ctx, "ann");
    sub_exact(ctx, "ann");
}
